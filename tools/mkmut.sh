#!/bin/sh
# usage: tools/mkmut.sh <name> <path under reamber/> <sed expression>   -> mutants/<name>.diff
HERE="$(cd "$(dirname "$0")/.." && pwd)"
T="$(mktemp -d /tmp/mkmut.XXXXXX)"
mkdir -p "$T/a/reamber/$(dirname "$2")" "$T/b/reamber/$(dirname "$2")"
cp "/repo/reamber/$2" "$T/a/reamber/$2"; cp "/repo/reamber/$2" "$T/b/reamber/$2"
sed -i "$3" "$T/b/reamber/$2"
( cd "$T" && diff -u "a/reamber/$2" "b/reamber/$2" ) > "$HERE/mutants/$1.diff"
N=$(grep -c '^[-+][^-+]' "$HERE/mutants/$1.diff")
echo "$1: $N changed lines"
rm -rf "$T"
[ "$N" -gt 0 ]
