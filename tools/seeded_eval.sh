#!/bin/sh
# usage: tools/seeded_eval.sh <adv worktree dir> <Cxx> <name> [--no-suite]
# Confirms an adversarial change independently of its author, in a scratch COPY of /repo (never /repo itself):
#   1. patch applies to the current /repo tree          2. demo.py exits 0 on the clean copy, 1 on the patched copy
#   3. the pinned test-suite result is unchanged         4. runs the property's quick check against the patched copy
# and files it as /verif/seeded/<name>/ (patch.diff, demo.py, meta.json + "verified" block).
HERE="$(cd "$(dirname "$0")/.." && pwd)"
SRC="$1"; PROP="$2"; NAME="$3"; NOSUITE="$4"
[ -f "$SRC/patch.diff" ] && [ -f "$SRC/demo.py" ] || { echo "missing patch.diff/demo.py in $SRC"; exit 2; }
SCR="$(mktemp -d /tmp/vseed.XXXXXX)"
trap 'rm -rf "$SCR"' EXIT
mkdir -p "$SCR/clean" "$SCR/mut"
for d in clean mut; do cp -r /repo/reamber "$SCR/$d/reamber"; ln -s /repo/rsc "$SCR/$d/rsc"; cp -r /repo/tests "$SCR/$d/tests"; cp /repo/*.toml /repo/*.cfg /repo/*.ini "$SCR/$d/" 2>/dev/null; done
# keep only source changes under reamber/
( cd "$SCR/mut" && patch -p1 -s < "$SRC/patch.diff" ) || { echo "RESULT patch does not apply"; exit 3; }
cp "$SRC/demo.py" "$SCR/demo.py"
( cd "$SCR/clean" && PYTHONPATH="$SCR/clean" timeout 600 /venv/bin/python "$SCR/demo.py" > "$SCR/demo_clean.log" 2>&1 ); RC_CLEAN=$?
( cd "$SCR/mut" && PYTHONPATH="$SCR/mut" timeout 600 /venv/bin/python "$SCR/demo.py" > "$SCR/demo_mut.log" 2>&1 ); RC_MUT=$?
echo "demo: clean rc=$RC_CLEAN  patched rc=$RC_MUT"
tail -3 "$SCR/demo_mut.log" | grep -v conda
SUITE="skipped"
if [ "$NOSUITE" != "--no-suite" ]; then
  ( cd "$SCR/mut" && PYTHONPATH="$SCR/mut" /venv/bin/python -m pytest -q -p no:cacheprovider --timeout=900 --continue-on-collection-errors tests > "$SCR/suite.log" 2>&1 )
  SUITE="$(tail -1 "$SCR/suite.log")"
  echo "suite: $SUITE"
  grep '^FAILED' "$SCR/suite.log" | grep -v test_parse_replays_error_osr
fi
VERIF_REPO="$SCR/mut" VERIF_OUT="$SCR/out" VERIF_SHRINK_S=30 "$HERE/check" "$PROP" --tier quick > "$SCR/check.log" 2>&1; RC_CHECK=$?
echo "check $PROP quick against patched copy: rc=$RC_CHECK"
grep -E '^  bucket|^VIOLATION|HARNESS' "$SCR/check.log" | cut -c1-260 | head -8
DEST="$HERE/seeded/$NAME"
mkdir -p "$DEST"
cp "$SRC/patch.diff" "$DEST/patch.diff"; cp "$SRC/demo.py" "$DEST/demo.py"
/venv/bin/python - "$SRC/meta.json" "$DEST/meta.json" "$PROP" "$RC_CLEAN" "$RC_MUT" "$SUITE" "$RC_CHECK" "$SCR/check.log" <<'PY'
import json, sys, os
src, dst, prop, rc_clean, rc_mut, suite, rc_check, log = sys.argv[1:9]
try:
    meta = json.load(open(src))
except Exception:
    meta = {}
meta["property"] = prop
buckets = [l.strip()[:300] for l in open(log) if l.startswith("  bucket ")][:6]
meta["verified"] = dict(
    demo_rc_clean=int(rc_clean), demo_rc_patched=int(rc_mut), suite_with_patch=suite,
    ran=["demo.py on a clean scratch copy of /repo and on the patched copy", "pytest tests (whole pinned suite) on the patched copy", f"./check {prop} --tier quick with VERIF_REPO=<patched copy>"],
    quick_check_rc=int(rc_check), quick_check_buckets=buckets, caught_by_quick=(int(rc_check) == 1),
)
json.dump(meta, open(dst, "w"), indent=1)
PY
echo "filed $DEST"
