#!/venv/bin/python
"""Writes seeded/README.md: one row per seeded (fresh-agent) change, and mutants/README.md from mutants/SELFTEST.json."""
import glob
import json
import os
import re

HERE = os.path.dirname(os.path.dirname(os.path.abspath(__file__)))


def cell(s, n=260):
    s = re.sub(r"\s+", " ", str(s or "")).replace("|", "\\|")
    return s if len(s) <= n else s[: n - 1] + "…"


rows = []
for meta in sorted(glob.glob(os.path.join(HERE, "seeded", "*", "meta.json"))):
    name = os.path.basename(os.path.dirname(meta))
    m = json.load(open(meta))
    v = m.get("verified", {})
    first = v.get("caught_by_quick")
    later = v.get("caught_by_quick_after_strengthening")
    status = "caught" if first else ("missed, then caught after strengthening" if later else "MISSED")
    kinds = sorted({re.sub(r" x\d+:.*", "", b).replace("bucket ", "") for b in v.get("quick_check_buckets", [])})
    rows.append((name, m.get("property"), cell(m.get("summary")), cell(m.get("needs"), 320), status, cell(", ".join(kinds) or v.get("history", ""), 300), cell(v.get("history", ""), 600)))

out = ["# Seeded changes (written by fresh sub-agents that saw only the property text and a scratch worktree)", "",
       "Each directory holds `patch.diff` (apply with `git -C /repo apply`, undo with `git -C /repo checkout -- .`), the author's `demo.py` (exit 1 with the change, 0 without) and `meta.json` "
       "(what it needs in order to manifest, what was run to confirm it: demo on a clean and a patched scratch copy, the whole pinned suite on the patched copy, the property's quick check against the patched copy).", "",
       f"{len(rows)} changes; {sum(1 for r in rows if r[4] == 'caught')} caught by the quick tier as it was, {sum(1 for r in rows if 'then' in r[4])} missed at first and caught after the generator/oracle was strengthened, "
       f"{sum(1 for r in rows if r[4] == 'MISSED')} still missed.", "",
       "| change | property | what it does | needs | result | failure kinds reported by the quick check |", "|---|---|---|---|---|---|"]
for r in rows:
    out.append(f"| {r[0]} | {r[1]} | {r[2]} | {r[3]} | {r[4]} | {r[5]} |")
out += ["", "## What was strengthened for the ones missed at first", ""]
for r in rows:
    if "then" in r[4] or r[4] == "MISSED":
        out.append(f"* **{r[0]}** — {r[6]}")
open(os.path.join(HERE, "seeded", "README.md"), "w").write("\n".join(out) + "\n")
print(f"seeded/README.md: {len(rows)} rows")

st = os.path.join(HERE, "mutants", "SELFTEST.json")
if os.path.exists(st):
    d = json.load(open(st))
    res = [r for r in d["results"] if os.path.exists(os.path.join(HERE, r["mutant"]))]
    out = ["# Hand-written mutants and revert-of-fix mutants: last self-test (quick tier, `tools/selftest_mutants.py`)", "",
           "| property | caught | missed |", "|---|---|---|"]
    props = sorted({r["property"] for r in res})
    for p in props:
        c = sum(1 for r in res if r["property"] == p and r["caught"])
        m = [os.path.basename(r["mutant"]) for r in res if r["property"] == p and not r["caught"]]
        out.append(f"| {p} | {c} | {', '.join(m) or '-'} |")
    out += ["", "| mutant | property | result | first failure kind |", "|---|---|---|---|"]
    for r in res:
        k = re.sub(r" x\d+:.*", "", (r.get("buckets") or [""])[0]).replace("bucket ", "")
        out.append(f"| {os.path.basename(r['mutant'])} | {r['property']} | {'caught' if r['caught'] else 'MISSED rc=%s' % r['rc']} | {cell(k, 120)} |")
    open(os.path.join(HERE, "mutants", "README.md"), "w").write("\n".join(out) + "\n")
    print(f"mutants/README.md: {len(res)} rows")
