#!/venv/bin/python
"""Sensitivity self-test: run every mutants/<Cxx>_*.diff (and revert_F*.diff, seeded/*/patch.diff) against the quick tier
of the property it belongs to, on a scratch copy of /repo, and report caught / missed.

usage: tools/selftest_mutants.py [--props C01,C02] [--jobs 3] [--tier quick] [--only-missed REPORT.json]
Writes mutants/SELFTEST.json (summary) — not a registered check; exit code 0 always.
"""
import argparse
import concurrent.futures as cf
import glob
import json
import os
import re
import subprocess
import sys
import time

HERE = os.path.dirname(os.path.dirname(os.path.abspath(__file__)))


def owners():
    """mutant path -> list of property ids whose check should catch it."""
    out = {}
    kf = json.load(open(os.path.join(HERE, "known_findings.json")))
    rev = {}
    for f in kf["findings"]:
        if f.get("revert_mutant"):
            rev.setdefault(f["revert_mutant"], []).append(f["property"])
            for p in f.get("also", []):
                rev[f["revert_mutant"]].append(p)
    for p in sorted(glob.glob(os.path.join(HERE, "mutants", "*.diff"))):
        rel = os.path.relpath(p, HERE)
        m = re.match(r"mutants/(C\d+)_", rel)
        if m:
            out[rel] = [m.group(1)]
        elif rel in rev:
            out[rel] = rev[rel]
    for meta in sorted(glob.glob(os.path.join(HERE, "seeded", "*", "meta.json"))):
        d = os.path.dirname(meta)
        mj = json.load(open(meta))
        rel = os.path.relpath(os.path.join(d, "patch.diff"), HERE)
        props = mj.get("property")
        out[rel] = props if isinstance(props, list) else [props]
    return out


def run_one(job):
    rel, prop, tier, procs, seed, scale = job
    env = dict(os.environ, VERIF_PROCS=str(procs), VERIF_SEED=str(seed), VERIF_SHRINK_S="20")
    t0 = time.time()
    cmd = [os.path.join(HERE, "tools", "mutant_run.sh"), os.path.join(HERE, rel), prop, "--tier", tier, "--scale", str(scale)]
    p = subprocess.Popen(cmd, env=env, stdout=subprocess.PIPE, stderr=subprocess.STDOUT, text=True, start_new_session=True)
    try:
        out, _ = p.communicate(timeout=1800)
        rc = p.returncode
    except subprocess.TimeoutExpired:
        import signal

        os.killpg(p.pid, signal.SIGKILL)
        out, _ = p.communicate()
        rc = -9
        out = (out or "") + "\nSELFTEST-TIMEOUT"
    viol = [l for l in out.splitlines() if l.startswith("VIOLATION")]
    buckets = [l.strip()[:200] for l in out.splitlines() if l.startswith("  bucket ")]
    return dict(mutant=rel, property=prop, rc=rc, caught=(rc == 1 and bool(viol)), wall_s=round(time.time() - t0, 1), buckets=buckets[:4],
                tail=out.strip().splitlines()[-2:] if rc not in (0, 1) else [])


def main():
    ap = argparse.ArgumentParser()
    ap.add_argument("--props")
    ap.add_argument("--jobs", type=int, default=3)
    ap.add_argument("--procs", type=int, default=6)
    ap.add_argument("--tier", default="quick")
    ap.add_argument("--seed", type=int, default=1)
    ap.add_argument("--match")
    ap.add_argument("--resume", action="store_true", help="skip mutants already recorded in mutants/SELFTEST.json")
    ap.add_argument("--scale", type=float, default=1.0, help="fraction of the tier's example counts (a mutant missed at a reduced scale is re-run at 1.0)")
    args = ap.parse_args()
    want = set(args.props.split(",")) if args.props else None
    ready = set(open(os.path.join(HERE, "ready.txt")).read().split())
    jobs = []
    for rel, props in owners().items():
        if args.match and args.match not in rel:
            continue
        for prop in props:
            if want and prop not in want:
                continue
            if not os.path.exists(os.path.join(HERE, "vlib", "props", prop + ".py")):
                continue
            jobs.append((rel, prop, args.tier, args.procs, args.seed, args.scale))
    path = os.path.join(HERE, "mutants", "SELFTEST.json")
    import threading

    lock = threading.Lock()
    done = {}
    if os.path.exists(path):
        done = {(r["mutant"], r["property"]): r for r in json.load(open(path))["results"]}
    if args.resume:
        jobs = [j for j in jobs if (j[0], j[1]) not in done]

    def save():
        allr = sorted((r for r in done.values() if os.path.exists(os.path.join(HERE, r["mutant"]))), key=lambda r: (r["property"], r["mutant"]))
        summ = {}
        for r in allr:
            s_ = summ.setdefault(r["property"], dict(caught=0, missed=0))
            s_["caught" if r["caught"] else "missed"] += 1
        tmp = path + ".tmp"
        json.dump(dict(tier=args.tier, summary=summ, results=allr), open(tmp, "w"), indent=1)
        os.replace(tmp, path)
        return summ

    def run_two(job):
        r = run_one(job)
        if not r["caught"] and r["rc"] == 0 and job[5] < 1.0:
            r = run_one(job[:5] + (1.0,))
            r["rerun_at_full_scale"] = True
        r["scale"] = job[5] if not r.get("rerun_at_full_scale") else 1.0
        with lock:
            done[(r["mutant"], r["property"])] = r
            save()
            print(("CAUGHT " if r["caught"] else "MISSED ") + f"{r['property']} {r['mutant']} rc={r['rc']} {r['wall_s']}s {r['buckets'][:1]} {r['tail']}", flush=True)
        return r

    with cf.ThreadPoolExecutor(args.jobs) as ex:
        list(ex.map(run_two, jobs))
    print(json.dumps(save()))


if __name__ == "__main__":
    main()
