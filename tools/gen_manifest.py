#!/venv/bin/python
"""Regenerates MANIFEST.json from the property modules that exist (vlib/props/Cxx.py with a MANIFEST dict)."""
import importlib, json, os, sys

HERE = os.path.dirname(os.path.dirname(os.path.abspath(__file__)))
sys.path.insert(0, HERE)
sys.path.insert(0, "/repo")
props = [json.loads(l) for l in open(os.path.join(HERE, "properties.jsonl"))]
checks, na = [], []
ready = set(open(os.path.join(HERE, "ready.txt")).read().split())  # reviewed + sound at 5 seeds
for p in props:
    pid = p["id"]
    path = os.path.join(HERE, "vlib", "props", f"{pid}.py")
    if pid not in ready or not os.path.exists(path):
        na.append(dict(property_id=pid, reason="check not built yet (planned in DESIGN.md section 5); nothing is claimed for it"))
        continue
    mod = importlib.import_module(f"vlib.props.{pid}")
    info = getattr(mod, "MANIFEST", {})
    checks.append(
        dict(
            property_id=pid,
            quick_cmd=f"./check {pid} --tier quick",
            thorough_cmd=f"./check {pid} --tier thorough",
            evidence_file=f"evidence/{pid}.json",
            replay_cmd_template=f"./check {pid} --replay {{path}}",
            engine="hypothesis-collect-shrink",
            level_claimed=dict(
                category="exploration",
                text=info.get("level_text", "generated-input search against an independent oracle; no violation in everything explored"),
                design_ref=f"DESIGN.md section 5, {pid}",
            ),
            level_note=info.get("level_note", "; ".join(getattr(mod, "ASSUMPTIONS", []))),
            technique=info.get("technique", "property-based testing (Hypothesis) against a reference model"),
        )
    )
man = dict(
    version=1,
    setup_cmd="./setup.sh",
    hooks=dict(
        guard="EVE_NING_REAMBERPY_VERIF",
        enable="export EVE_NING_REAMBERPY_VERIF=1 (set by ./check; no source commit uses it: the checks observe the public API only)",
        baseline_off_cmd="cd /repo && /venv/bin/python -m pytest -ra -q -p no:cacheprovider --timeout=900 --continue-on-collection-errors",
        source_commits=[],
        add_only=True,
    ),
    engines=[
        dict(
            name="hypothesis-collect-shrink",
            path="vlib/core.py",
            serves_properties=[c["property_id"] for c in checks],
            kind_free_text="Hypothesis 6.168 strategies producing plain-data cases; phase A collects oracle failures into buckets, phase B shrinks one case per new bucket into a replay file; exhaustive enumeration where the space is finite",
        ),
        dict(
            name="atheris-libfuzzer-via-hypothesis",
            path="vlib/fuzz.py",
            serves_properties=[c["property_id"] for c in checks if c["property_id"] in ("C01", "C02", "C04", "C06", "C07")],
            kind_free_text="thorough tier of the five reader checks: atheris 3.1 / libFuzzer (coverage-guided, reamber instrumented) drives the same Hypothesis strategy through fuzz_one_input with the property's oracle inside the target; failures are bucketed like phase A; wall-clock budget, expiry is never a violation",
        ),
    ],
    checks=checks,
    notes="See DESIGN.md. Exit codes: 0 held, 1 VIOLATION (+replay), 2 harness error. Every run is a function of the tree and VERIF_SEED.",
    not_applicable=na,
)
json.dump(man, open(os.path.join(HERE, "MANIFEST.json"), "w"), indent=1)
import jsonschema
jsonschema.validate(man, json.load(open("/root/.vp/MANIFEST.schema.json")))
print("MANIFEST.json: %d checks, %d not claimed" % (len(checks), len(na)))
