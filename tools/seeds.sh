#!/bin/sh
# usage: tools/seeds.sh "C01 C02 ..." "2 3 4 5" [tier]  -> runs each check at each seed, evidence to scratch dir
HERE="$(cd "$(dirname "$0")/.." && pwd)"
TIER="${3:-quick}"
OUT="$(mktemp -d /tmp/vseeds.XXXXXX)"
for p in $1; do for s in $2; do
  t0=$(date +%s)
  VERIF_OUT="$OUT" VERIF_SEED=$s "$HERE/check" $p --tier $TIER > "$OUT/$p.$s.log" 2>&1; rc=$?
  t1=$(date +%s)
  echo "$p seed=$s rc=$rc wall=$((t1-t0))s $(grep -E 'VIOLATION|HARNESS' "$OUT/$p.$s.log" | head -3 | cut -c1-300)"
  [ $rc -ne 0 ] && cp "$OUT/$p.$s.log" /tmp/seedfail_$p.$s.log && cp -r "$OUT/replays" /tmp/seedfail_replays_$p.$s 2>/dev/null
done; done
rm -rf "$OUT"
