#!/bin/sh
# usage: tools/mutant_run.sh <patch.diff> <Cxx> [check args...]
# Applies a patch to a scratch copy of /repo (outside /repo and /verif), runs the check against it, removes the copy.
# Replays/evidence of the mutant run go to a scratch VERIF_OUT so that /verif/evidence is not overwritten.
HERE="$(cd "$(dirname "$0")/.." && pwd)"
PATCH="$(realpath "$1")"; shift
PROP="$1"; shift
SCR="$(mktemp -d /tmp/vmut.XXXXXX)"
mkdir -p "$SCR/repo"
cp -r /repo/reamber "$SCR/repo/reamber"
ln -s /repo/rsc "$SCR/repo/rsc"
ln -s /repo/tests "$SCR/repo/tests"
( cd "$SCR/repo" && patch -p1 -s < "$PATCH" ) || { echo "PATCH-FAILED $PATCH"; rm -rf "$SCR"; exit 3; }
VERIF_REPO="$SCR/repo" VERIF_OUT="$SCR/out" "$HERE/check" "$PROP" "$@"
RC=$?
rm -rf "$SCR"
exit $RC
