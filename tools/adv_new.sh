#!/bin/sh
# usage: tools/adv_new.sh <Cxx> <n>  -> creates a scratch worktree /tmp/adv/<Cxx>-<n> of /repo HEAD and a prompt file for a fresh adversarial sub-agent
ID="$1"; N="$2"; D="/tmp/adv/$ID-$N"
mkdir -p /tmp/adv
git -C /repo worktree add --detach "$D" HEAD >/dev/null 2>&1 || { echo "worktree failed"; exit 1; }
/venv/bin/python - "$ID" "$D" <<'PY'
import json, sys
pid, d = sys.argv[1], sys.argv[2]
for l in open('/verif/properties.jsonl'):
    p = json.loads(l)
    if p['id'] == pid:
        break
pre = open('/tmp/adv_preamble.txt').read() if __import__('os').path.exists('/tmp/adv_preamble.txt') else open('/verif/tools/adv_preamble.txt').read()
txt = pre + f"""
Your worktree: {d}

The property ({p['id']}: {p['title']})
Statement: {p['statement']}
Holds: {p['quantifier']['text']}
"""
open(d + '/PROMPT.txt', 'w').write(txt)
print(d)
PY
