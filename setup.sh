#!/bin/sh
# Offline setup: make sure hypothesis (and, for the thorough fuzz engine, atheris) import in /venv.
HERE="$(cd "$(dirname "$0")" && pwd)"
PY="${VERIF_PYTHON:-/venv/bin/python}"
export PIP_NO_INDEX=1
mkdir -p "$HERE/.deps" "$HERE/evidence"
if ! "$PY" -c "import hypothesis" >/dev/null 2>&1; then
  "$PY" -m pip install -q --no-index --no-deps --find-links /opt/veriftools/wheels \
      --target "$HERE/.deps" hypothesis attrs sortedcontainers || exit 1
fi
if ! PYTHONPATH="$HERE/.deps" "$PY" -c "import atheris" >/dev/null 2>&1; then
  "$PY" -m pip install -q --no-index --no-deps --find-links /opt/veriftools/wheels \
      --target "$HERE/.deps" atheris || echo "setup: atheris not installed (thorough fuzz engine will be skipped)"
fi
PYTHONPATH="/repo:$HERE:$HERE/.deps" "$PY" -c "import reamber, hypothesis; print('setup ok', hypothesis.__version__)"
