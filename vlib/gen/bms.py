"""BMS generators: beat-space skeletons (plain data), text renderer, BMSMap builder, snapshot.

Public API (used by C04/C05 and meant for C08/C09/C13/C15):

    chart_strategy(tier, **opts)   Hypothesis strategy -> skeleton (plain JSON-able dict)
    render(skel, order=..., seed=...) -> list[str]     BMS text lines denoting the skeleton
    expected(skel) -> dict         what the skeleton denotes, same shape as vlib.ref.bms.parse()
    timeline(skel) -> BeatTimeline exact beat -> ms for the skeleton's tempo list (time 0 at beat 0)
    build(skel) -> BMSMap          in-memory chart through reamber's public constructors
    snapshot(bms_map) -> dict      plain data view of a BMSMap (bytes decoded, numpy -> python)
    big_tempo_skeleton(...)        deterministic chart with up to 1294 tempo points

Skeleton (all positions in *beats from the start*, exact, as "n/d"; 4 beats per measure):

    {"layout": "BMS"|"BME"|"PMS"|"PMS_BME"|"PMS_5B",
     "title": str, "artist": str, "version": str,          # version <-> #PLAYLEVEL
     "bpm0": float,                                       # the #BPM header
     "lnobj": "ZZ" | None,                                # #LNOBJ id
     "samples": {id: filename},                           # #WAVxx table
     "exbpms": {id: bpm},                                 # #BPMxx table (may hold unused ids)
     "headers": [[KEY, value], ...],                      # any other header
     "tempo": [[beat, bpm, via], ...],                    # sorted, first at "0/1";
            # via = "hdr" (only first: the #BPM header itself), "03" (bpm is an int 1..255,
            # rendered in hex) or "08:<id>" (rendered as channel 08 object <id>, exbpms[id] == bpm)
     "notes": [{"column": int, "beat": "n/d", "length": None | "n/d", "id": "0A", "sample": str}],
            # render() writes object <id> (tail: the LNOBJ id); build() uses "sample";
            # for charts made for reading sample == samples.get(id, "")
     "noise": [[measure, channel, "n/d" position in the measure, id], ...]}   # channels without meaning

The module never calls random / clock: every "random looking" decision of the renderer is a
pure function of (seed, item) through sha1.
"""
from __future__ import annotations

import hashlib
from fractions import Fraction as F
from math import gcd
from typing import Dict, List, Optional

from hypothesis import strategies as st

from vlib.ref.bms import B36, BEATS_PER_MEASURE, LAYOUTS, LAYOUT_NAMES, b36, channel_of, columns_of
from vlib.ref.timing import BeatTimeline

ENCODING = "shift_jis"
ORDERS = ("sorted", "shuffled", "split")
MAX_MEASURE = 999
MAX_BEAT = (MAX_MEASURE + 1) * BEATS_PER_MEASURE  # exclusive
SNAP_MAX_DEN = 96  # reamber's Snapper accepts every fraction of a beat with denominator <= 96

NOISE_CHANNELS = ["01", "01", "04", "06", "07"]
# beat denominators D: an object at k/D beats sits at measure position with denominator | 4D
READ_DENS = [1, 2, 3, 4, 6, 8, 12, 16, 24, 48, 5, 7, 9, 10, 11, 13, 20, 32, 36, 47]
WRITE_DENS = [1, 2, 3, 4, 6, 8, 12, 16, 24, 48, 5, 7, 9, 10, 11, 13, 20, 25, 32, 64, 96, 95]
TEMPO_DENS = [1, 1, 2, 3, 4, 4, 6, 8, 12, 16, 24, 48, 5, 7, 9, 10, 11, 36, 47]
OFFGRID_DENS = [97, 101, 1000, 10007, 65537]

TEXT_ALPHA = "abcdefghijklmnopqrstuvwxyzABCDEFGHIJKLMNOPQRSTUVWXYZ0123456789 -_.()[]!&'+,:;#*"
JP = "あいうえおカキクケコ東京音楽譜面"
TITLES = ["my title", "A", "x y  z", "Song #1 (another)", "東京 音楽", "カキ-クケコ [7KEY]", "a:b", "01234"]
HEADER_KEYS = ["GENRE", "PLAYER", "RANK", "TOTAL", "STAGEFILE", "SUBTITLE", "DIFFICULTY", "BMP01", "LNTYPE", "SUBARTIST", "VOLWAV", "BANNER"]


def fr(x) -> F:
    return x if isinstance(x, F) else F(x)


def frs(x) -> str:
    x = F(x)
    return f"{x.numerator}/{x.denominator}"


def _h(seed, *tag) -> int:
    d = hashlib.sha1(("%s|" % seed + "|".join(str(t) for t in tag)).encode()).digest()
    return int.from_bytes(d[:8], "big")


# --------------------------------------------------------------------------- #
# strategy
# --------------------------------------------------------------------------- #
def _text():
    return st.one_of(
        st.sampled_from(TITLES),
        st.text(alphabet=TEXT_ALPHA + JP, min_size=1, max_size=14).map(lambda s: s.strip() or "t"),
    )


def _bpm_text_exact():
    """bpm values whose shortest repr is a plain decimal with <= 3 decimals."""
    return st.one_of(
        st.sampled_from([60.0, 120.0, 150.0, 175.0, 200.0, 87.5, 133.25, 200.125]),
        st.integers(20, 400).map(float),
        st.integers(1000, 999999).map(lambda n: n / 1000.0),
    )


def _bpm_any():
    return st.floats(5.0, 2000.0, allow_nan=False, allow_infinity=False)


def chart_strategy(tier: str = "quick", **opts):
    """Strategy of skeletons.

    opts:
      purpose   "read" (default): charts for BMS *text*: tempo changes anywhere on a k/D beat
                grid (D <= 48) through channels 03 / 08, ids and #WAV / #BPMxx tables, noise;
                every hold needs lnobj.  bpm values have exact decimal text.
                "write": in-memory charts for the writer: tempo points on measure lines, bpm
                classes '3dec' / 'float', objects on the 1/96-Farey snap grid or off it (>= 1/48 beat
                apart), samples known / unknown / empty, no noise.
      layouts   list of layout names (default all five)
      max_notes / max_tempo / min_tempo     size overrides
      offgrid   None (draw) | True | False  (write only)
      bpm_class None (draw) | "3dec" | "float" (write only)
      holds     True (default) | False
    """
    return _chart(tier, dict(opts))


@st.composite
def _chart(draw, tier, opts):
    big = tier == "thorough"
    purpose = opts.get("purpose", "read")
    layout = draw(st.sampled_from(opts.get("layouts") or LAYOUT_NAMES))
    cols = columns_of(layout)
    max_notes = opts.get("max_notes") or (200 if big else 24)
    max_tempo = opts.get("max_tempo") or (40 if big else 5)
    min_tempo = opts.get("min_tempo") or 1

    # ---- ids / tables --------------------------------------------------
    ids = draw(st.lists(st.integers(1, 36 * 36 - 1), min_size=3, max_size=8, unique=True))
    ids = [b36(i) for i in ids]
    lnobj = draw(st.sampled_from([None, "ZZ", "ZZ", "ZZ", "id"]))
    if lnobj == "id":
        lnobj = ids.pop()
    elif lnobj == "ZZ" and "ZZ" in ids:
        ids.remove("ZZ")
    if purpose == "write" and lnobj == "01":
        lnobj = "ZZ"  # "01" is the writer's default id for unknown samples; it must not be the tail id
        if "ZZ" in ids:
            ids.remove("ZZ")
    if purpose == "write" and lnobj is None and "ZZ" in ids:
        ids.remove("ZZ")  # the writer's default tail id
    if purpose == "write" and "01" in ids and draw(st.booleans()):
        ids.remove("01")  # the writer's default id for unknown samples
    if purpose != "write" and draw(st.integers(0, 3)) == 0:
        # ids written in lower case, spelled the same way in the #WAV / #LNOBJ headers and in the note data
        ids = [i.lower() for i in ids]
        lnobj = lnobj.lower() if lnobj else lnobj
    n_wav = draw(st.integers(1, max(1, len(ids) - 1)))
    samples = {i: "s%s.wav" % i.lower() for i in ids[:n_wav]}
    if draw(st.booleans()):
        k0 = ids[0]
        samples[k0] = draw(st.sampled_from(["kick 1.wav", "スネア.ogg", "a.b.wav", "dir\\x.wav"]))
    note_ids = list(ids)  # ids[n_wav:] have no #WAV
    if purpose == "read" and lnobj and draw(st.integers(0, 3)) == 0:
        # the #LNOBJ marker id has a #WAV line of its own (a release sound): a hold still carries the sample of its head
        samples[lnobj] = "release.wav"

    # ---- tempo ---------------------------------------------------------
    exbpms: Dict[str, float] = {}
    tempo: List[list] = []
    if purpose == "read":
        bpm0 = draw(_bpm_text_exact())
        n_ch = draw(st.integers(0, max_tempo))
        shape = draw(st.sampled_from(["grid", "grid", "measure"]))
        D = 1 if shape == "measure" else draw(st.sampled_from(TEMPO_DENS))
        step = BEATS_PER_MEASURE if shape == "measure" else 1
        beat = F(0)
        first = True
        ex_pool = [b36(i) for i in draw(st.lists(st.integers(1, 36 * 36 - 1), min_size=1, max_size=4, unique=True))]
        for _ in range(n_ch):
            lo = 0 if first else 1
            beat = beat + F(draw(st.integers(lo, 6 * D)) * step, D)
            first = False
            if beat >= MAX_BEAT:
                break
            if draw(st.booleans()):
                tempo.append([frs(beat), float(draw(st.integers(1, 255))), "03"])
            else:
                i = draw(st.sampled_from(ex_pool))
                if i not in exbpms:
                    exbpms[i] = draw(st.one_of(_bpm_text_exact(), _bpm_any()))
                tempo.append([frs(beat), exbpms[i], "08:" + i])
        for i in ex_pool:  # unused table entries are legal
            if i not in exbpms and draw(st.booleans()):
                exbpms[i] = draw(_bpm_text_exact())
        if not tempo or fr(tempo[0][0]) != 0:
            tempo.insert(0, ["0/1", bpm0, "hdr"])
        bpm_class = "text"
    else:
        bpm_class = opts.get("bpm_class") or draw(st.sampled_from(["3dec", "float"]))
        bst = _bpm_text_exact() if bpm_class == "3dec" else st.one_of(_bpm_any(), _bpm_text_exact())
        hi = max(min_tempo, max_tempo)
        n_pts = draw(st.one_of(st.integers(min_tempo, min(hi, max(min_tempo, 5))), st.integers(min_tempo, hi)))
        meas = 0
        for i in range(n_pts):
            if i:
                meas += draw(st.sampled_from([1, 1, 1, 2, 3, 7]))
            if meas > MAX_MEASURE:
                break
            tempo.append([frs(F(meas * BEATS_PER_MEASURE)), draw(bst), "hdr" if i == 0 else "08:" + b36(i + 1)])
        bpm0 = tempo[0][1]

    # ---- notes ---------------------------------------------------------
    offgrid = False
    if purpose == "write":
        offgrid = opts.get("offgrid")
        if offgrid is None:
            offgrid = draw(st.sampled_from([False, False, True]))
    dens_pool = READ_DENS if purpose == "read" else WRITE_DENS
    palette = draw(st.lists(st.sampled_from(dens_pool), min_size=1, max_size=3, unique=True))
    base = draw(st.sampled_from([0, 0, 0, 0, 1, 37, 990]))
    want_holds = opts.get("holds", True) and (purpose == "write" or lnobj is not None)
    n_cols = draw(st.integers(1, min(len(cols), 6 if big else 4)))
    use_cols = draw(st.lists(st.sampled_from(cols), min_size=n_cols, max_size=n_cols, unique=True))
    notes: List[dict] = []
    per_col = max(1, max_notes // n_cols)
    min_gap = F(1, 48) if offgrid else F(0)
    span = 3 if big else 2
    for col in use_cols:
        n = draw(st.integers(0, min(per_col, 40 if big else 8)))
        end = F(base * BEATS_PER_MEASURE)  # first free beat (exclusive unless nothing placed yet)
        placed = False
        for _ in range(n):
            D = draw(st.sampled_from(palette))
            if offgrid and draw(st.booleans()):
                Q = draw(st.sampled_from(OFFGRID_DENS))
                beat = end + (min_gap if placed else 0) + F(draw(st.integers(0 if not placed else 1, span * Q)), Q)
            else:
                lo = end + (min_gap if placed else 0)
                k = -((-lo.numerator * D) // lo.denominator)  # ceil(lo * D)
                if placed and F(k, D) == end:
                    k += 1
                beat = F(k + draw(st.integers(0, span * D)), D)
            length = None
            if want_holds and draw(st.integers(0, 9)) < 3:
                if offgrid and draw(st.booleans()):
                    Q = draw(st.sampled_from(OFFGRID_DENS))
                    length = min_gap + F(draw(st.integers(1, 3 * Q)), Q)
                else:
                    # the tail lies on a k/D grid position after the head
                    k = (beat.numerator * D) // beat.denominator + 1  # first grid point > beat
                    tail = F(k + draw(st.integers(0, 3 * D)), D)
                    if tail - beat < min_gap:
                        tail += F(1, D) * (int(min_gap * D) + 1)
                    length = tail - beat
            last = beat + (length or 0)
            if last >= MAX_BEAT:
                break
            kind = draw(st.sampled_from(["known", "known", "nowav", "unknown", "empty"]))
            nid = draw(st.sampled_from(note_ids))
            if purpose == "read" or kind in ("known", "nowav"):
                smp = samples.get(nid, "")
            elif kind == "unknown":
                smp = "not-in-table.wav"
            else:
                smp = ""
            notes.append(dict(column=col, beat=frs(beat), length=None if length is None else frs(length), id=nid, sample=smp))
            end = last
            placed = True
    oseed = draw(st.integers(0, 2**16))
    notes = [n for _, n in sorted(enumerate(notes), key=lambda t: _h(oseed, "note", t[0]))]

    # ---- noise, headers ------------------------------------------------
    noise = []
    headers = []
    if purpose == "read":
        foreign = [c for c in ("11", "12", "16", "17", "18", "19", "21", "26", "27", "28", "29") if c not in LAYOUTS[layout]]
        chans = NOISE_CHANNELS + foreign[:3]
        for _ in range(draw(st.integers(0, 4))):
            D = draw(st.sampled_from([1, 2, 4, 8, 3, 16]))
            noise.append(
                [
                    draw(st.sampled_from([0, 1, 2, base, base + 1])),
                    draw(st.sampled_from(chans)),
                    frs(F(draw(st.integers(0, D - 1)), D)),
                    draw(st.sampled_from(note_ids + ([lnobj] if lnobj else []) + ["ZZ", "0A"])),
                ]
            )
    for k in draw(st.lists(st.sampled_from(HEADER_KEYS), max_size=4, unique=True)):
        headers.append([k, draw(_text())])

    return dict(
        layout=layout,
        title=draw(_text()),
        artist=draw(_text()),
        version=draw(st.one_of(st.integers(0, 99).map(str), _text())),
        bpm0=bpm0,
        lnobj=lnobj,
        samples=samples,
        exbpms=exbpms,
        headers=headers,
        tempo=tempo,
        notes=notes,
        noise=noise,
        bpm_class=bpm_class,
    )


def big_tempo_skeleton(n_points: int, layout: str = "BME", variant: int = 0, bpm_class: str = "3dec", on_measure_lines: Optional[bool] = None) -> dict:
    """Deterministic write-chart with `n_points` tempo points (ids reach two base-36 digits from 36 up).

    Up to 1000 points fit on measure lines within measures 000..999; beyond that (the
    documented maximum is 1294) points are put on beat lines (1..3 beats apart).
    """
    if on_measure_lines is None:
        on_measure_lines = n_points <= 330
    cols = columns_of(layout)
    tempo = []
    beat = F(0)
    for i in range(n_points):
        if i:
            g = 1 + _h(variant, "gap", i) % 3
            beat += g * (BEATS_PER_MEASURE if on_measure_lines else 1)
        n = 60000 + _h(variant, "bpm", i) % 240000
        bpm = n / 1000.0 if bpm_class == "3dec" else n / 1000.0 + (_h(variant, "frac", i) % 9973) / 9973e3
        tempo.append([frs(beat), bpm, "hdr" if i == 0 else "08:" + b36(i + 1)])
    assert beat < MAX_BEAT, "too many points for 999 measures"
    notes = []
    n_notes = 60
    for j in range(n_notes):
        col = cols[j % len(cols)]
        D = [1, 2, 3, 4, 8, 12, 16, 5, 7, 48][_h(variant, "D", j) % 10]
        # spread over the whole chart, one slot of width `w` beats per note and column round
        w = beat / n_notes + 2
        b0 = F(int(w * j * D), D) + F(_h(variant, "k", j) % D, D)
        length = None
        if j % 4 == 1:
            length = F(1 + _h(variant, "len", j) % (D), D)
        if b0 + (length or 0) >= MAX_BEAT:
            continue
        notes.append(dict(column=col, beat=frs(b0), length=None if length is None else frs(length), id="01" if j % 3 else "02", sample="a.wav" if j % 3 else "b.wav"))
    # guarantee no two objects share (lane, position)
    seen = set()
    keep = []
    for nt in sorted(notes, key=lambda d: (d["column"], fr(d["beat"]))):
        b = fr(nt["beat"])
        e = b + (fr(nt["length"]) if nt["length"] else 0)
        if any(c == nt["column"] and not (e < a or b > z) for c, a, z in seen):
            continue
        seen.add((nt["column"], b, e))
        keep.append(nt)
    return dict(
        layout=layout, title="big", artist="gen", version="1", bpm0=tempo[0][1], lnobj="ZZ",
        samples={"01": "a.wav", "02": "b.wav"}, exbpms={}, headers=[], tempo=tempo, notes=keep, noise=[],
        bpm_class=bpm_class,
    )


# --------------------------------------------------------------------------- #
# denotation of a skeleton
# --------------------------------------------------------------------------- #
def timeline(skel: dict) -> BeatTimeline:
    return BeatTimeline(0.0, [(fr(b), v) for b, v, _ in skel["tempo"]])


def expected(skel: dict) -> dict:
    """What the skeleton denotes, in the shape of vlib.ref.bms.parse() (subset of keys)."""
    tl = timeline(skel)
    hits, holds = [], []
    for n in skel["notes"]:
        b = fr(n["beat"])
        smp = skel["samples"].get(n["id"], "")
        if n["length"] is None:
            hits.append(dict(offset=tl.ms(b), column=n["column"], sample=smp, beat=frs(b), id=n["id"]))
        else:
            e = b + fr(n["length"])
            holds.append(dict(offset=tl.ms(b), column=n["column"], length=tl.ms(e) - tl.ms(b), sample=smp, beat=frs(b), tail_beat=frs(e), id=n["id"]))
    key = lambda d: (d["column"], fr(d["beat"]))  # noqa: E731
    header = {k: v for k, v in skel["headers"]}
    return dict(
        layout=skel["layout"],
        title=skel["title"],
        artist=skel["artist"],
        version=skel["version"],
        bpm0=skel["bpm0"],
        lnobj=skel["lnobj"],
        exbpms=dict(skel["exbpms"]),
        samples=dict(skel["samples"]),
        other_headers=header,
        tempo=[[frs(fr(b)), float(v)] for b, v, _ in skel["tempo"]],
        hits=sorted(hits, key=key),
        holds=sorted(holds, key=key),
    )


# --------------------------------------------------------------------------- #
# renderer
# --------------------------------------------------------------------------- #
def _num_text(v: float, seed, tag) -> str:
    """Decimal text that float() maps back to v exactly; integers sometimes without '.0'."""
    v = float(v)
    if v == int(v) and _h(seed, "int", tag) % 2:
        return str(int(v))
    return repr(v)


def _lcm(a: int, b: int) -> int:
    return a * b // gcd(a, b)


def _data_line(measure: int, channel: str, objs, seed, tag, max_n: int = 192) -> str:
    """objs: [(position in measure, id)], distinct positions -> '#mmmcc:....'."""
    n = 1
    for p, _ in objs:
        n = _lcm(n, p.denominator)
    if n <= max_n:
        room = max_n // n
        k = [1, 1, 2, 3, 4, room, max(1, room // 2)][_h(seed, "mult", tag) % 7]
        n *= max(1, min(k, room))
    seq = ["00"] * n
    for p, i in objs:
        slot = p * n
        assert slot.denominator == 1 and seq[int(slot)] == "00", "renderer: slot clash"
        seq[int(slot)] = i
    return "#%03d%s:%s" % (measure, channel, "".join(seq))


def render(skel: dict, order: str = "sorted", seed: int = 0, decorate: bool = True) -> List[str]:
    """Skeleton -> BMS text lines (no line terminators).

    order   "sorted"    headers first, then one line per (measure, channel), ascending
            "shuffled"  one line per (measure, channel), all data lines permuted (and, for odd
                        seeds, headers and data lines interleaved)
            "split"     the objects of a (measure, channel) are spread over 2..3 lines (and
                        some all-'00' lines are added), then permuted as in "shuffled"
    seed    selects the permutation, the per-line subdivision (any multiple of the needed one
            up to 192), int-vs-decimal number spelling
    decorate  add blank lines, comment lines and leading/trailing blanks
    """
    assert order in ORDERS
    lay = skel["layout"]
    head = [] if any(k == "PLAYER" for k, _ in skel["headers"]) else ["#PLAYER 1"]
    head += [
        "#TITLE " + skel["title"],
        "#ARTIST " + skel["artist"],
        "#BPM " + _num_text(skel["bpm0"], seed, "bpm0"),
        "#PLAYLEVEL " + skel["version"],
    ]
    if skel["lnobj"]:
        head.append("#LNOBJ " + skel["lnobj"])
    for k, v in skel["headers"]:
        head.append("#%s %s" % (k, v))
    for k, v in skel["samples"].items():
        head.append("#WAV%s %s" % (k, v))
    for k, v in skel["exbpms"].items():
        head.append("#BPM%s %s" % (k, _num_text(v, seed, "ex" + k)))

    groups: Dict[tuple, list] = {}

    def put(beat: F, channel: str, oid: str):
        pos = beat / BEATS_PER_MEASURE
        meas = int(pos)
        groups.setdefault((meas, channel), []).append((pos - meas, oid))

    for b, v, via in skel["tempo"]:
        if via == "hdr":
            continue
        if via == "03":
            assert float(v) == int(v) and 1 <= int(v) <= 255
            put(fr(b), "03", "%02X" % int(v))
        else:
            put(fr(b), "08", via.split(":")[1])
    for n in skel["notes"]:
        ch = channel_of(lay, n["column"])
        put(fr(n["beat"]), ch, n["id"])
        if n["length"] is not None:
            assert skel["lnobj"], "a hold needs #LNOBJ"
            put(fr(n["beat"]) + fr(n["length"]), ch, skel["lnobj"])
    noise_groups: Dict[tuple, list] = {}
    for meas, ch, pos, oid in skel["noise"]:
        noise_groups.setdefault((meas, ch), []).append((fr(pos), oid))

    data: List[tuple] = []  # (measure, channel, line)
    for (meas, ch), objs in sorted(groups.items()):
        parts = [objs]
        if order == "split":
            k = 2 + _h(seed, "parts", meas, ch) % 2
            parts = [[] for _ in range(k)]
            for j, o in enumerate(sorted(objs)):
                parts[_h(seed, "part", meas, ch, j) % k].append(o)
            # at least two lines for the key, possibly an all-00 one
        for j, part in enumerate(parts):
            if part:
                data.append((meas, ch, _data_line(meas, ch, part, seed, (meas, ch, j))))
            else:
                data.append((meas, ch, "#%03d%s:%s" % (meas, ch, "00" * (1 + _h(seed, "empty", meas, ch, j) % 4))))
    for (meas, ch), objs in sorted(noise_groups.items()):
        # noise channels: objects may share a position -> one line per object
        for j, o in enumerate(objs):
            data.append((meas, ch, _data_line(meas, ch, [o], seed, ("noise", meas, ch, j))))

    if order == "sorted":
        data.sort(key=lambda t: (t[0], t[1]))
        lines = head + [""] + [t[2] for t in data]
    else:
        body = [t[2] for _, t in sorted(enumerate(data), key=lambda it: _h(seed, "perm", it[0]))]
        if seed % 2:
            allv = head + body
            lines = [ln for _, ln in sorted(enumerate(allv), key=lambda it: _h(seed, "all", it[0]))]
        else:
            hd = [ln for _, ln in sorted(enumerate(head), key=lambda it: _h(seed, "head", it[0]))]
            lines = hd + [""] + body
    if decorate:
        out = []
        for j, ln in enumerate(lines):
            r = _h(seed, "deco", j) % 16
            if r == 0:
                out.append("*---------------------- COMMENT %d" % j)
            elif r == 1:
                out.append("")
            elif r == 2:
                out.append("; 00111:0101 not a command")
            if r == 3 and ln:
                ln = "  " + ln + " "
            elif r == 4 and ln:
                ln = ln + "\t"
            out.append(ln)
        lines = out
    return lines


def to_bytes(lines: List[str], newline: str = "\r\n") -> bytes:
    return (newline.join(lines) + newline).encode(ENCODING)


# --------------------------------------------------------------------------- #
# reamber side
# --------------------------------------------------------------------------- #
def channel_config(layout: str) -> dict:
    from reamber.bms.BMSChannel import BMSChannel

    return getattr(BMSChannel, layout)


def build(skel: dict):
    """Skeleton -> BMSMap via the public constructors (ms through the exact timeline).

    hits/holds get sample = note["sample"] (bytes); bpms one BMSBpm (metronome 4) per tempo
    entry; title/artist/version/samples/misc as shift_jis bytes like the reader produces;
    ln_end_channel = lnobj when given (else the class default b"ZZ").
    """
    from reamber.bms import BMSBpm, BMSHit, BMSHold, BMSMap
    from reamber.bms.lists import BMSBpmList
    from reamber.bms.lists.notes import BMSHitList, BMSHoldList

    tl = timeline(skel)
    enc = lambda s: s.encode(ENCODING)  # noqa: E731
    hits, holds = [], []
    for n in skel["notes"]:
        b = fr(n["beat"])
        t0 = tl.ms(b)
        if n["length"] is None:
            hits.append(BMSHit(offset=t0, column=int(n["column"]), sample=enc(n["sample"])))
        else:
            t1 = tl.ms(b + fr(n["length"]))
            holds.append(BMSHold(offset=t0, column=int(n["column"]), length=t1 - t0, sample=enc(n["sample"])))
    m = BMSMap()
    m.hits = BMSHitList(hits)
    m.holds = BMSHoldList(holds)
    m.bpms = BMSBpmList([BMSBpm(offset=t, bpm=float(v)) for t, v in zip(tl.times, tl.bpms)])
    m.title = enc(skel["title"])
    m.artist = enc(skel["artist"])
    m.version = enc(skel["version"])
    m.samples = {enc(k): enc(v) for k, v in skel["samples"].items()}
    m.exbpms = {enc(k): float(v) for k, v in skel["exbpms"].items()}
    m.misc = {enc(k): enc(v) for k, v in skel["headers"]}
    if skel["lnobj"]:
        m.ln_end_channel = enc(skel["lnobj"])
    return m


def _s(x) -> str:
    if isinstance(x, (bytes, bytearray)):
        return bytes(x).decode(ENCODING, errors="replace")
    if x is None or (isinstance(x, float) and x != x):
        return ""
    return str(x)


def snapshot(m) -> dict:
    """BMSMap -> plain data: decoded strings, python numbers, lists sorted by (column, offset)."""
    hits = [
        dict(offset=float(o), column=int(c), sample=_s(s))
        for o, c, s in zip(list(m.hits.offset), list(m.hits.column), list(m.hits.sample))
    ] if len(m.hits) else []
    holds = [
        dict(offset=float(o), column=int(c), length=float(ln), sample=_s(s))
        for o, c, ln, s in zip(list(m.holds.offset), list(m.holds.column), list(m.holds.length), list(m.holds.sample))
    ] if len(m.holds) else []
    hits.sort(key=lambda d: (d["column"], d["offset"], d["sample"]))
    holds.sort(key=lambda d: (d["column"], d["offset"], d["length"], d["sample"]))
    bpms = [
        [float(o), float(b), float(mt)]
        for o, b, mt in zip(list(m.bpms.offset), list(m.bpms.bpm), list(m.bpms.metronome))
    ] if len(m.bpms) else []
    return dict(
        title=_s(m.title),
        artist=_s(m.artist),
        version=_s(m.version),
        lnobj=_s(m.ln_end_channel) or None,
        exbpms={_s(k): float(v) for k, v in m.exbpms.items()},
        samples={_s(k): _s(v) for k, v in m.samples.items()},
        misc={_s(k): _s(v) for k, v in m.misc.items()},
        bpms=bpms,
        hits=hits,
        holds=holds,
    )
