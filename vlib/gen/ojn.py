"""Hypothesis strategies for OJN skeletons (plain data; see vlib/ref/ojn.py for the schema).

``mapset_strategy(tier, **opts)`` -> skeleton::

    {"header": {all 23 fields},                    # strings ASCII, floats float32-exact
     "charts": [{"packages": [...], "expect": {...}} x3],
     "cover": "<hex>"}

``packages`` are in file order: sorted by measure, any channel order inside a
measure, at most one package per (measure, channel).  ``expect`` is what the
chart *means*, built by construction next to the packages (not by decoding)::

    {"hits":  [[pos, column], ...],               # pos = "n/d" measure position
     "holds": [[pos, end_pos, column], ...],      #       (measure + slot/slots)
     "tempo": [[pos, bpm], ...]}                  # tempo-channel events only

all three sorted by (position, column).  Bytes: ``vlib.ref.ojn.encode(skeleton)``.

Options (keyword, all optional)
-------------------------------
``tempo``        "any" (default: 0..max_tempo events at any slot, also before the
                 first / after the last note, first one not at measure 0),
                 "measure" (events on measure lines only), "none"
``max_tempo``    cap on tempo events per chart (default 8; 16 in the thorough tier)
``bpm``          "any" (nice values, integers, arbitrary float32 in [1, 1e4]) or
                 "nice" (integers and multiples of 1/8 in [30, 480]: exact in
                 float32 and in <= 3 decimals)
``slots``        "any" (1..192, common subdivisions preferred) or a list of allowed
                 slot counts (e.g. [48] for a 1/48-measure grid)
``measures``     "any" (gaps, first note not at measure 0) or "dense" (0,1,2,...)
``holds``        True/False: long notes (default True)
``autoplay``     True/False: auto-play channel packages (default True)
``cover``        True/False: trailing cover bytes (default True)
``empty_charts`` True/False: a difficulty may have no packages at all (default True)
``columns``      number of columns used, 1..7 (default 7)
"""
from __future__ import annotations

from fractions import Fraction
from typing import List

from hypothesis import strategies as st

from vlib.core import frs
from vlib.ref import ojn as ref

COMMON_SLOTS = [1, 2, 3, 4, 6, 8, 12, 16, 24, 32, 48, 64, 96, 192]
NICE_BPMS = [60.0, 90.0, 120.0, 125.0, 130.0, 150.0, 175.5, 200.0, 240.0]
ASCII = st.characters(min_codepoint=0x20, max_codepoint=0x7E)


def bpm_strategy(kind: str = "any"):
    """float32-exact positive bpm values."""
    if kind == "nice":
        return st.one_of(st.sampled_from(NICE_BPMS), st.integers(30 * 8, 480 * 8).map(lambda k: k / 8))
    return st.one_of(
        st.sampled_from(NICE_BPMS),
        st.integers(20, 500).map(float),
        st.floats(1.0, 1e4, width=32, allow_nan=False, allow_infinity=False),
    )


def _ascii(max_len: int):
    return st.text(ASCII, min_size=0, max_size=max_len)


@st.composite
def header_strategy(draw, bpm: str = "any"):
    """The 16 free header fields (the 7 derived ones are filled from the body)."""
    i32 = st.integers(0, 2**31 - 1)
    return dict(
        song_id=draw(st.one_of(st.integers(0, 5000), st.integers(-(2**31), 2**31 - 1))),
        signature="ojn",
        encode_version=draw(st.sampled_from([2.9000000953674316, 1.0, 2.5, 0.0])),
        genre=draw(st.integers(0, 10)),
        bpm=draw(bpm_strategy(bpm)),
        level=draw(st.lists(st.integers(0, 300), min_size=4, max_size=4)),
        old_encode_version=draw(st.integers(0, 32767)),
        old_song_id=draw(st.integers(-32768, 32767)),
        old_genre=draw(_ascii(19)),
        bmp_size=draw(i32),
        old_file_version=draw(i32),
        title=draw(_ascii(63)),
        artist=draw(_ascii(31)),
        creator=draw(_ascii(31)),
        ojm_file=draw(_ascii(31)),
        duration=draw(st.lists(st.integers(0, 100000), min_size=3, max_size=3)),
    )


def _slots_strategy(slots):
    """One draw: slot count of a package."""
    if slots == "any":
        return st.sampled_from(COMMON_SLOTS * 6 + list(range(1, 193)))
    return st.sampled_from(list(slots))


@st.composite
def _indices(draw, n: int, count_min: int, count_max: int):
    """Sorted distinct slot indices of an n-slot package; slot 0 (the measure line) is preferred."""
    count_max = min(count_max, n)
    count_min = min(count_min, count_max)
    if count_max == 0:
        return []
    idx = set()
    if draw(st.booleans()):
        idx.add(0)
    rest_max = count_max - len(idx)
    rest_min = max(0, count_min - len(idx))
    if rest_max > 0 and n > 1:
        idx |= set(draw(st.lists(st.integers(1, n - 1), unique=True, min_size=min(rest_min, n - 1), max_size=min(rest_max, n - 1))))
    if len(idx) < count_min:  # n == 1 and slot 0 not taken
        idx.add(0)
    return sorted(idx)


MEASURE_PATTERNS = {
    # name -> (first measure, cycle of gaps between consecutive used measures)
    "dense": (0, [1]),
    "late": (3, [1]),
    "gaps": (0, [1, 2, 1, 5, 1, 40]),
    "far": (117, [1, 1, 3]),
}


def _measure_numbers(pattern: str, count: int) -> List[int]:
    first, gaps = MEASURE_PATTERNS[pattern]
    out = [first]
    for i in range(count - 1):
        out.append(out[-1] + gaps[i % len(gaps)])
    return out


def _note_payload(seed: int, i: int):
    """Deterministic sample value (1..32767) and volume/pan byte for the i-th event of a package."""
    return 1 + (seed * 131 + i * 7919) % 32767, (seed // 4 + i * 37) % 256


@st.composite
def chart_strategy(
    draw,
    tier: str = "quick",
    tempo: str = "any",
    max_tempo=None,
    bpm: str = "any",
    slots="any",
    measures: str = "any",
    holds: bool = True,
    autoplay: bool = True,
    empty_charts: bool = True,
    columns: int = 7,
):
    """One difficulty: ``{"packages": [...], "expect": {...}}``."""
    big = tier == "thorough"
    if max_tempo is None:
        max_tempo = 16 if big else 8
    if empty_charts and draw(st.sampled_from([False] * 6 + [True] + [False] * 5)):
        return dict(packages=[], expect=dict(hits=[], holds=[], tempo=[]))

    # measure numbers: index -> actual measure (gaps, first not 0)
    n_meas = draw(st.integers(1, 24 if big else 6))
    pattern = "dense" if measures == "dense" else draw(st.sampled_from(["dense", "dense", "late", "gaps", "far"]))
    numbers = _measure_numbers(pattern, n_meas + 3)
    slots_st = _slots_strategy(slots)
    per_pkg = 8 if big else 4

    # ---- note packages: unique (measure index, column) -------------------
    sizes = [1, 2, 3, 4, 5, 6, 8, 10, 0] + ([16, 24, 40, 60] if big else [])
    n_pk = min(draw(st.sampled_from(sizes)), n_meas * columns)
    keys = draw(
        st.lists(
            st.tuples(st.integers(0, n_meas - 1), st.integers(0, columns - 1)),
            unique=True,
            min_size=n_pk,
            max_size=n_pk,
        )
    )
    note_pkgs = []
    for mi, col in keys:
        n = draw(slots_st)
        seed = draw(st.integers(0, 2**16 - 1))  # rank inside the measure + event payloads
        idx = draw(_indices(n, 0 if seed % 16 == 15 else 1, per_pkg))
        evs = [[i, *_note_payload(seed, k), 0] for k, i in enumerate(idx)]
        note_pkgs.append(dict(mi=mi, rank=seed % 4, measure=numbers[mi], channel=col + 2, slots=n, events=evs))

    # ---- note types by a walk along each column (pairs by construction) --
    hits, lns = [], []
    for col in range(columns):
        seq = []
        for p in sorted((p for p in note_pkgs if p["channel"] == col + 2), key=lambda p: p["mi"]):
            for ev in p["events"]:
                seq.append((p, ev))
        if not seq:
            continue
        # bit k set: the k-th event of the column starts a long note (if it is free and not the last one)
        mask = draw(st.integers(0, 2 ** min(len(seq), 16) - 1)) if holds and len(seq) > 1 else 0
        open_head = None
        for k, (p, ev) in enumerate(seq):
            pos = ref.position(p["measure"], ev[0], p["slots"])
            if open_head is not None:
                ev[3] = ref.T_TAIL
                lns.append([open_head, pos, col])
                open_head = None
            elif k + 1 < len(seq) and (mask >> (k % 16)) & 1:
                ev[3] = ref.T_HEAD
                open_head = pos
            else:
                hits.append([pos, col])

    # ---- tempo packages ---------------------------------------------------
    tempo_pkgs, tempo_evs = [], []
    if tempo != "none" and max_tempo > 0:
        k = draw(st.sampled_from([1, 0, 2, 1, 2, 3, 3, 4, 5, 6, 8, max_tempo]))
        k = min(k, max_tempo)
        where = draw(st.lists(st.integers(0, n_meas + 2), min_size=k, max_size=k))
        counts = {}
        for mi in where:
            counts[mi] = counts.get(mi, 0) + 1
        if draw(st.sampled_from([False] * 5 + [True] + [False] * 4)):
            counts.setdefault(draw(st.integers(0, n_meas + 2)), 0)  # a tempo package with only empty slots
        for mi in sorted(counts):
            n = draw(slots_st)
            seed = draw(st.integers(0, 3))
            if tempo == "measure":
                idx = [0] if counts[mi] else []
            else:
                idx = draw(_indices(n, counts[mi], counts[mi]))
            evs = [[i, draw(bpm_strategy(bpm))] for i in idx]
            for i, v in evs:
                tempo_evs.append([ref.position(numbers[mi], i, n), v])
            tempo_pkgs.append(dict(mi=mi, rank=seed, measure=numbers[mi], channel=ref.CH_TEMPO, slots=n, events=evs))

    # ---- auto-play packages (not part of the chart) -----------------------
    auto_pkgs = []
    if autoplay:
        n_auto = draw(st.sampled_from([0, 1, 0, 2, 3]))
        akeys = draw(
            st.lists(st.tuples(st.integers(0, n_meas + 2), st.integers(9, 22)), unique=True, min_size=n_auto, max_size=n_auto)
        )
        for mi, ch in akeys:
            n = draw(slots_st)
            seed = draw(st.integers(0, 2**16 - 1))
            idx = draw(_indices(n, 0, 3))
            evs = [[i, *_note_payload(seed, k), (0, 4)[(seed >> (2 + k)) & 1]] for k, i in enumerate(idx)]
            auto_pkgs.append(dict(mi=mi, rank=seed % 4, measure=numbers[mi], channel=ch, slots=n, events=evs))

    pkgs = sorted(tempo_pkgs + note_pkgs + auto_pkgs, key=lambda p: (p["mi"], p["rank"]))  # stable
    packages = [dict(measure=p["measure"], channel=p["channel"], slots=p["slots"], events=p["events"]) for p in pkgs]
    expect = dict(
        hits=[[frs(p), c] for p, c in sorted(hits)],
        holds=[[frs(a), frs(b), c] for a, b, c in sorted(lns)],
        tempo=[[frs(p), v] for p, v in sorted(tempo_evs, key=lambda t: t[0])],
    )
    return dict(packages=packages, expect=expect)


@st.composite
def mapset_strategy(draw, tier: str = "quick", cover: bool = True, **opts):
    """A whole OJN skeleton: header (23 fields), three charts, cover bytes.

    ``opts`` are those of ``chart_strategy`` (see module doc)."""
    header = draw(header_strategy(bpm=opts.get("bpm", "any")))
    charts: List[dict] = [draw(chart_strategy(tier, **opts)) for _ in range(3)]
    cov = draw(st.binary(min_size=0, max_size=12)).hex() if cover else ""
    skel = dict(header=header, charts=charts, cover=cov)
    full = ref.fill_header(skel)
    # keep the case JSON-able: char[20] back to str
    full["old_genre"] = header["old_genre"]
    skel["header"] = full
    return skel
