"""StepMania generators: beat-space skeletons (plain data), .sm renderer, in-memory builder, snapshot.

A *skeleton* is JSON-able::

    {"meta":   {title, subtitle, artist, title_translit, subtitle_translit, artist_translit, genre, credit,
                banner, background, lyrics_path, cd_title, music, display_bpm, bg_changes, fg_changes: str,
                sample_start, sample_length: ms float, selectable: bool}      (any subset)
     "offset_ms": float,                       ms of beat 0
     "tempo":  [["0/1", bpm], ["n/d", bpm], ...]   exact cumulative beats, first at 0, strictly increasing
     "charts": [{"chart_type", "keys", "description", "difficulty", "difficulty_val", "groove_radar": [float],
                 "notes": [[kind, column, "beat n/d", "length n/d" | None], ...]   kind as in vlib.ref.sm.KINDS
                 "rows":  [rows of measure 0, 1, ...] | None      how render() subdivides each measure
                 "style": {...}}]                                  per-chart syntactic choices (see render)
     "style":  {...}}                                              per-file syntactic choices (see render)

Function-level API::

    mapset_strategy(tier, **opts) -> Hypothesis strategy of skeletons          (opts: see the function)
    render(skeleton)   -> .sm text (uses "rows"/"style"; every choice is in the skeleton, no randomness)
    expected(skeleton) -> what vlib.ref.sm.parse(render(skeleton)) must return (charts, bpms, offset, meta)
    build(skeleton)    -> reamber SMMapSet built through the public constructors (ms via BeatTimeline)
    snapshot(mapset)   -> plain data of an SMMapSet, same shape as vlib.ref.sm.parse (without "beat" keys)
    needed_rows(chart) / fit_rows(chart, max_rows) -> per-measure row counts a chart needs
    self_check(skeleton, text, parsed) -> None | str   renderer/reference round trip (harness sanity)

Notes of a column never overlap: they are built by a column walk over an increasing list of positions
(a hold/roll takes the next position of its column as its tail).
"""
from __future__ import annotations

from fractions import Fraction as F
from math import lcm
from typing import Dict, List, Optional

from hypothesis import strategies as st

from vlib.ref import sm as ref
from vlib.ref.timing import BeatTimeline

# --------------------------------------------------------------------------- #
# tables
# --------------------------------------------------------------------------- #
#: StepMania's own column counts (GameManager) for chart types with 3..18 columns
SM_CHART_KEYS: Dict[str, int] = {
    "dance-single": 4,
    "dance-double": 8,
    "dance-couple": 8,
    "dance-solo": 6,
    "dance-threepanel": 3,
    "dance-routine": 8,
    "pump-single": 5,
    "pump-halfdouble": 6,
    "pump-double": 10,
    "pump-couple": 10,
    "pump-routine": 10,
    "kb7-single": 7,
    "ez2-single": 5,
    "ez2-double": 10,
    "ez2-real": 7,
    "para-single": 5,
    "ds3ddx-single": 8,
    "bm-single5": 6,
    "bm-double5": 12,
    "bm-single7": 8,
    "bm-double7": 16,
    "maniax-single": 4,
    "maniax-double": 8,
    "techno-single4": 4,
    "techno-single5": 5,
    "techno-single8": 8,
    "techno-double4": 8,
    "techno-double5": 10,
    "techno-double8": 16,
    "pnm-five": 5,
    "pnm-nine": 9,
    "kickbox-human": 4,
    "kickbox-quadarm": 4,
    "kickbox-insect": 6,
    "kickbox-arachnid": 8,
    "lights-cabinet": 6,
}
#: chart types for which reamber documents a key count (SMMapChartTypes.get_keys) – the only ones it can write
WRITABLE_KEYS: Dict[str, int] = {
    "dance-single": 4,
    "dance-double": 8,
    "dance-solo": 6,
    "dance-couple": 4,
    "dance-threepanel": 3,
    "dance-routine": 8,
    "kb7-single": 7,
}
DIFFICULTIES = ["Beginner", "Easy", "Medium", "Hard", "Challenge", "Edit"]
TAP = ["hits", "mines", "lifts", "fakes", "keysounds"]
COMMON_ROWS = [4, 8, 12, 16, 24, 32, 48, 64, 96, 192]
SNAP_DENS_COARSE = [1, 2, 3, 4, 6, 8]
SNAP_DENS_FINE = [1, 2, 3, 4, 5, 6, 7, 8, 9, 12, 16, 32, 64, 96]
SNAP_DENS_CAP = [5, 7, 9, 32, 64, 96]
META_STR = list(ref.STRING_FIELDS)
TAG_OF = {f: t for t, (f, _) in ref.HEADER_FIELDS.items()}
META_DEFAULTS = dict(
    title="", subtitle="", artist="", title_translit="", subtitle_translit="", artist_translit="", genre="",
    credit="", banner="", background="", lyrics_path="", cd_title="", music="", sample_start=0.0,
    sample_length=10.0, display_bpm="", selectable=True, bg_changes="", fg_changes="",
)
SEPS = ["\n,\n", ",\n", "\n,  // measure {n}\n", "\n,\n\n", "\n\n,\n", "\n, // {n}\n"]


class SkeletonError(Exception):
    """The skeleton is inconsistent (generator bug) – surfaces as a harness error."""


def fr(x) -> F:
    return x if isinstance(x, F) else F(x)


def frs(x) -> str:
    x = F(x)
    return f"{x.numerator}/{x.denominator}"


# --------------------------------------------------------------------------- #
# row arithmetic
# --------------------------------------------------------------------------- #
def _events(chart):
    """(beat, column, symbol) of every head, tail and tap."""
    for kind, col, beat, ln in chart["notes"]:
        b = fr(beat)
        yield b, int(col), ref.SYMBOL_OF[kind]
        if kind in ref.LONG_KINDS:
            if ln is None:
                raise SkeletonError("hold without length")
            yield b + fr(ln), int(col), ref.TAIL


def needed_rows(chart) -> List[int]:
    """Smallest multiple-of-4 row count per measure that can carry the chart's objects
    (one entry per measure up to the last object; at least one measure)."""
    need: Dict[int, int] = {}
    last = 0
    for b, _, _ in _events(chart):
        m = int(b // 4)
        last = max(last, m)
        pos = (b - 4 * m) / 4
        need[m] = lcm(need.get(m, 4), pos.denominator)
    return [need.get(m, 4) for m in range(last + 1)]


def fit_rows(chart, max_rows: int, mults: Optional[List[int]] = None) -> Optional[List[int]]:
    """needed_rows scaled by mults (where the product stays <= max_rows); None if a measure cannot fit."""
    need = needed_rows(chart)
    if any(n > max_rows for n in need):
        return None
    out = []
    for i, n in enumerate(need):
        k = mults[i % len(mults)] if mults else 1
        out.append(n * k if n * k <= max_rows else n)
    return out


# --------------------------------------------------------------------------- #
# literals shared by render() and expected()
# --------------------------------------------------------------------------- #
def _beat_literal(beat: F, fmt: str) -> str:
    if fmt == "int" and beat.denominator == 1:
        return str(beat.numerator)
    if fmt in ("int", "f3"):
        if (beat * 1000).denominator == 1:
            return "%.3f" % float(beat)
        fmt = "f6"
    nd = int(fmt[1:])
    if nd < 6 and (beat * 10**nd).denominator != 1:
        nd = 6
    # exact decimal rounding of the Fraction (no float involved)
    q = round(beat * 10**nd)
    s = str(abs(q)).rjust(nd + 1, "0")
    return ("-" if q < 0 else "") + s[:-nd] + "." + s[-nd:]


def _num_literal(v: float, fmt: str) -> str:
    v = float(v)
    if fmt == "int" and v == int(v) and abs(v) < 1e15:
        return str(int(v))
    if fmt == "f3":
        return "%.3f" % v
    if fmt == "f6":
        return "%.6f" % v
    return repr(v)


def tempo_literals(sk) -> List[List[str]]:
    enc = sk.get("style", {}).get("bpm_enc") or []
    out = []
    for i, (b, v) in enumerate(sk["tempo"]):
        bf, vf = enc[i] if i < len(enc) else ("f6", "repr")
        vt = _num_literal(v, vf)
        if not float(vt) > 0:  # a tiny bpm printed with few decimals must stay positive
            vt = repr(float(v))
        out.append([_beat_literal(fr(b), bf), vt])
    return out


def offset_literal(sk) -> str:
    return _num_literal(-float(sk["offset_ms"]) / 1000.0, sk.get("style", {}).get("offset_fmt", "repr"))


def _radar_literal(chart) -> str:
    fmt = chart.get("style", {}).get("radar_fmt", "repr")
    return ",".join(_num_literal(x, fmt) for x in chart["groove_radar"])


def _meta_literal(field: str, value) -> str:
    kind = ref.HEADER_FIELDS[TAG_OF[field]][1]
    if kind == "sec":
        return repr(float(value) / 1000.0)
    if kind == "yn":
        return "YES" if value else "NO"
    return str(value)


# --------------------------------------------------------------------------- #
# render
# --------------------------------------------------------------------------- #
def render_chart(chart) -> str:
    """One ``#NOTES`` value.  chart["style"] keys (all optional): indent (str), one_line (bool),
    pre_comment (str|None), sep (index into SEPS), extras ([[measure,row,text|None]] – a comment or blank
    line inserted before that row), radar_fmt, end ("\\n;" | ";"), after ("\\n" | "\\n\\n")."""
    stl = chart.get("style", {})
    keys = int(chart["keys"])
    need = needed_rows(chart)
    rows = list(chart.get("rows") or need)
    if len(rows) < len(need):
        raise SkeletonError("rows shorter than the chart")
    for m, r in enumerate(rows):
        n = need[m] if m < len(need) else 4
        if r % 4 or r <= 0 or r % n:
            raise SkeletonError(f"measure {m}: {r} rows cannot carry objects needing {n}")
    grid = [[["0"] * keys for _ in range(r)] for r in rows]
    for b, col, sym in _events(chart):
        m = int(b // 4)
        r = (b - 4 * m) / 4 * rows[m]
        if r.denominator != 1 or not 0 <= col < keys:
            raise SkeletonError("object off the row grid / column out of range")
        if grid[m][int(r)][col] != "0":
            raise SkeletonError(f"two symbols in one cell (measure {m}, row {r}, column {col})")
        grid[m][int(r)][col] = sym
    extras: Dict[tuple, List[str]] = {}
    for m, r, text in stl.get("extras", []):
        extras.setdefault((int(m), int(r)), []).append("" if text is None else f"// {text}")
    meas_txt = []
    for m, g in enumerate(grid):
        lines = []
        for r, row in enumerate(g):
            lines.extend(extras.get((m, r), []))
            lines.append("".join(row))
        meas_txt.append("\n".join(lines))
    sep = SEPS[int(stl.get("sep", 0)) % len(SEPS)]
    body = meas_txt[0]
    for m in range(1, len(meas_txt)):
        body += sep.replace("{n}", str(m)) + meas_txt[m]
    ind = stl.get("indent", "     ")
    params = [chart["chart_type"], chart["description"], chart["difficulty"], str(chart["difficulty_val"]), _radar_literal(chart)]
    if stl.get("one_line"):
        head = "#NOTES:" + ":".join(params) + ":\n"
    else:
        head = "#NOTES:\n" + "".join(f"{ind}{p}:\n" for p in params)
    pre = stl.get("pre_comment")
    out = (f"//{pre}\n" if pre is not None else "") + head + body + stl.get("end", "\n;") + stl.get("after", "\n")
    return out


def render(sk) -> str:
    """Skeleton -> .sm text.  sk["style"] keys (all optional): tags (ordered header tag names emitted before
    the charts; must contain OFFSET and BPMS; STOPS marks where the stops tag goes), tags_after (header tags
    emitted after the charts), stops ("empty" -> ``#STOPS:;``, "empty-nl" -> ``#STOPS:\\n;``, "absent"),
    bpm_enc ([[beat_fmt, bpm_fmt]] per tempo entry; beat_fmt int|f3|f6|f7|f9|f12, bpm_fmt repr|int|f3|f6),
    bpm_perm (order of the #BPMS entries), bpm_sep, offset_fmt, extras ([[slot, text|None]] comment/blank
    line before the slot-th header tag), gap (text between charts)."""
    stl = sk.get("style", {})
    meta = sk.get("meta", {})
    tags = list(stl.get("tags") or ["OFFSET", "BPMS", "STOPS"])
    if "OFFSET" not in tags or "BPMS" not in tags:
        raise SkeletonError("OFFSET and BPMS must precede the charts")
    lits = tempo_literals(sk)
    perm = stl.get("bpm_perm") or list(range(len(lits)))
    if sorted(perm) != list(range(len(lits))):
        raise SkeletonError("bpm_perm is not a permutation")
    bpms_txt = stl.get("bpm_sep", ",\n").join(f"{lits[i][0]}={lits[i][1]}" for i in perm)

    def tag_text(name):
        if name == "OFFSET":
            return f"#OFFSET:{offset_literal(sk)};"
        if name == "BPMS":
            return f"#BPMS:{bpms_txt};"
        if name == "STOPS":
            mode = stl.get("stops", "empty")
            return None if mode == "absent" else ("#STOPS:\n;" if mode == "empty-nl" else "#STOPS:;")
        field = ref.HEADER_FIELDS[name][0]
        return f"#{name}:{_meta_literal(field, meta.get(field, META_DEFAULTS[field]))};"

    extras: Dict[int, List[str]] = {}
    for slot, text in stl.get("extras", []):
        extras.setdefault(int(slot), []).append("" if text is None else f"// {text}")
    lines = []
    for i, name in enumerate(tags):
        lines.extend(extras.get(i, []))
        t = tag_text(name)
        if t is not None:
            lines.append(t)
    lines.extend(extras.get(len(tags), []))
    out = "\n".join(lines) + "\n"
    out += stl.get("gap", "").join(render_chart(c) for c in sk["charts"])
    for name in stl.get("tags_after", []):
        out += tag_text(name) + "\n"
    return out


def emitted_meta(sk) -> dict:
    """The header fields render() writes, with the values a reader must obtain."""
    stl = sk.get("style", {})
    meta = sk.get("meta", {})
    out = {}
    for name in list(stl.get("tags") or []) + list(stl.get("tags_after", [])):
        if name in ref.HEADER_FIELDS:
            field, kind = ref.HEADER_FIELDS[name]
            v = meta.get(field, META_DEFAULTS[field])
            out[field] = float(_meta_literal(field, v)) * 1000.0 if kind == "sec" else (bool(v) if kind == "yn" else str(v).strip())
    return out


def expected(sk) -> dict:
    """What the reference interpreter must return for render(sk) – computed from the skeleton alone."""
    lits = tempo_literals(sk)
    bp = sorted(((F(b), float(v)) for b, v in lits), key=lambda t: t[0])
    offset_ms = -(float(offset_literal(sk)) * 1000.0)
    tl = BeatTimeline(offset_ms, bp)
    charts = []
    for c in sk["charts"]:
        ch = dict(
            chart_type=c["chart_type"].strip(),
            description=c["description"].strip(),
            difficulty=c["difficulty"].strip(),
            difficulty_val=int(c["difficulty_val"]),
            groove_radar=[float(x) for x in _radar_literal(c).split(",")],
            keys=int(c["keys"]),
            rows_per_measure=list(c.get("rows") or needed_rows(c)),
        )
        for k in ref.KINDS:
            ch[k] = []
        for kind, col, beat, ln in c["notes"]:
            b = fr(beat)
            if kind in ref.LONG_KINDS:
                t = b + fr(ln)
                ch[kind].append(dict(offset=tl.ms(b), column=int(col), length=tl.ms(t) - tl.ms(b), beat=frs(b), length_beats=frs(t - b)))
            else:
                ch[kind].append(dict(offset=tl.ms(b), column=int(col), beat=frs(b)))
        for k in ref.KINDS:
            ch[k].sort(key=lambda o: (fr(o["beat"]), o["column"]))
        charts.append(ch)
    return dict(
        meta=emitted_meta(sk),
        offset_ms=offset_ms,
        bpms=[[frs(b), v] for b, v in bp],
        bpms_ms=[tl.ms(b) for b, _ in bp],
        has_stops_tag=sk.get("style", {}).get("stops", "empty") != "absent" and "STOPS" in (sk.get("style", {}).get("tags") or ["STOPS"]),
        charts=charts,
    )


def self_check(sk, text: str, parsed: dict) -> Optional[str]:
    """Renderer/reference round trip: returns a message if ref.parse(render(sk)) != expected(sk)."""
    if parsed["problems"]:
        return f"rendered text has syntactic problems: {parsed['problems'][:3]}"
    exp = expected(sk)
    for k in ("offset_ms", "bpms", "bpms_ms", "has_stops_tag", "meta"):
        if parsed[k] != exp[k]:
            return f"{k}: parsed {parsed[k]!r} != expected {exp[k]!r}"
    if len(parsed["charts"]) != len(exp["charts"]):
        return f"chart count {len(parsed['charts'])} != {len(exp['charts'])}"
    for i, (p, e) in enumerate(zip(parsed["charts"], exp["charts"])):
        for k, v in e.items():
            if p[k] != v:
                return f"chart {i} {k}: parsed {str(p[k])[:300]} != expected {str(v)[:300]}"
        if p["row_widths"] not in ([e["keys"]], []):
            return f"chart {i} row widths {p['row_widths']}"
    return None


# --------------------------------------------------------------------------- #
# in-memory objects
# --------------------------------------------------------------------------- #
def build(sk):
    """Skeleton -> reamber SMMapSet via the public constructors.  ms = BeatTimeline(offset_ms, tempo);
    every chart gets its own copy of the one tempo list; lists are left in skeleton (unsorted) order."""
    from reamber.sm import SMBpm, SMFake, SMHit, SMHold, SMKeySound, SMLift, SMMap, SMMapSet, SMMine, SMRoll
    from reamber.sm.lists import SMBpmList
    from reamber.sm.lists.notes import (
        SMFakeList, SMHitList, SMHoldList, SMKeySoundList, SMLiftList, SMMineList, SMRollList,
    )

    item = dict(hits=SMHit, mines=SMMine, lifts=SMLift, fakes=SMFake, keysounds=SMKeySound, holds=SMHold, rolls=SMRoll)
    lst = dict(hits=SMHitList, mines=SMMineList, lifts=SMLiftList, fakes=SMFakeList, keysounds=SMKeySoundList,
               holds=SMHoldList, rolls=SMRollList)
    tl = BeatTimeline(float(sk["offset_ms"]), [(fr(b), float(v)) for b, v in sk["tempo"]])
    maps = []
    for c in sk["charts"]:
        m = SMMap(
            chart_type=c["chart_type"],
            description=c["description"],
            difficulty=c["difficulty"],
            difficulty_val=int(c["difficulty_val"]),
            groove_radar=[float(x) for x in c["groove_radar"]],
        )
        per = {k: [] for k in ref.KINDS}
        for kind, col, beat, ln in c["notes"]:
            b = fr(beat)
            if kind in ref.LONG_KINDS:
                per[kind].append(item[kind](tl.ms(b), int(col), tl.ms(b + fr(ln)) - tl.ms(b)))
            else:
                per[kind].append(item[kind](tl.ms(b), int(col)))
        for k in ref.KINDS:
            setattr(m, k, lst[k](per[k]))
        m.bpms = SMBpmList([SMBpm(tl.ms(fr(b)), float(v)) for b, v in sk["tempo"]])
        maps.append(m)
    meta = {k: v for k, v in sk.get("meta", {}).items() if k in META_DEFAULTS}
    return SMMapSet(maps=maps, offset=float(sk["offset_ms"]), **meta)


def snapshot(ms) -> dict:
    """SMMapSet -> plain data: {"meta": {...19 header fields}, "offset_ms", "charts": [{chart header fields,
    "bpms": [[offset_ms, bpm]], "n_stops", kind: [{"offset","column"[,"length"]}]}]} (values by meaning:
    python floats/ints)."""
    meta = {}
    for f in META_DEFAULTS:
        v = getattr(ms, f)
        meta[f] = v if isinstance(v, (str, bool)) or v is None else float(v)
    charts = []
    for m in ms.maps:
        ch = dict(
            chart_type=m.chart_type,
            description=m.description,
            difficulty=m.difficulty,
            difficulty_val=m.difficulty_val if m.difficulty_val is None else int(m.difficulty_val),
            groove_radar=[float(x) for x in m.groove_radar],
            bpms=[[float(o), float(b)] for o, b in zip(m.bpms.offset.tolist(), m.bpms.bpm.tolist())],
            n_stops=len(m.stops),
        )
        for k in ref.POINT_KINDS:
            l = getattr(m, k)
            ch[k] = [dict(offset=float(o), column=int(c)) for o, c in zip(l.offset.tolist(), l.column.tolist())]
        for k in ref.LONG_KINDS:
            l = getattr(m, k)
            ch[k] = [
                dict(offset=float(o), column=int(c), length=float(n))
                for o, c, n in zip(l.offset.tolist(), l.column.tolist(), l.length.tolist())
            ]
        charts.append(ch)
    return dict(meta=meta, offset_ms=None if ms.offset is None else float(ms.offset), charts=charts)


# --------------------------------------------------------------------------- #
# strategies
# --------------------------------------------------------------------------- #
_TEXT_ALPHABET = st.characters(
    blacklist_categories=("Cs", "Cc", "Zl", "Zp", "Cn", "Co"), blacklist_characters=":;/\\#﻿"
)
#: header comments that mention a '#' (a comment runs to the end of its line whatever it contains)
header_comment_hash_st = st.sampled_from(["sync pass #2, tuned by ear", "#1", "take #3 (final)", "a#b", "# offset below", "#OFFSET was 0.1 before"])
comment_text_st = st.text(alphabet="abcXYZ 0123456789-_[]().!'é日", max_size=16).map(str.strip)


def _rare(n):
    """True about once in n (and shrinks to False)."""
    return st.sampled_from([False] * (n - 1) + [True])


def value_st(max_size=12):
    """Header value: free text without the format's separators (':' ';'), without '#' (a '#' opening a line starts a new value in MSD), without '/', '\\'
    (comment/escape introducers) and without leading/trailing blanks (the format cannot carry them)."""
    return st.one_of(
        st.sampled_from(["", "a", "Song Title", "x y", "café 日本", "No.1, the (best) = [ok]!", "A-B_c.ogg"]),
        st.text(alphabet=_TEXT_ALPHABET, max_size=max_size).map(str.strip),
    )


bpm_st = st.one_of(
    st.sampled_from([60.0, 120.0, 150.0, 175.0, 200.0]),
    st.integers(20, 500).map(float),
    st.integers(20000, 400000).map(lambda n: n / 1000.0),
    st.floats(10.0, 2000.0, allow_nan=False, allow_infinity=False),
)
offset_ms_st = st.one_of(
    st.sampled_from([0.0, -500.0, 1234.0, 9.0]),
    st.integers(-20000, 20000).map(float),
    st.floats(-1e5, 1e5, allow_nan=False, allow_infinity=False),
)


@st.composite
def tempo_st(draw, tier, tempo="grid48"):
    """[[beat "n/d", bpm]] – 1..5 (quick) / 1..12 (thorough) entries; 'measure': changes on measure lines,
    'grid48': each gap is a measure multiple, a whole beat count, a multiple of 1/8 or any k/48."""
    big = tier == "thorough"
    k = draw(st.integers(1, 12 if big else 5))
    if tempo == "mixed":
        tempo = draw(st.sampled_from(["measure", "grid48"]))
    beat = F(0)
    out = [[frs(beat), draw(bpm_st)]]
    for _ in range(k - 1):
        shape = "measure" if tempo == "measure" else draw(st.sampled_from(["measure", "beat", "eighth", "k48", "k48"]))
        if shape == "measure":
            nxt = (beat // 4 + draw(st.integers(1, 3))) * 4
        elif shape == "beat":
            nxt = beat // 1 + draw(st.integers(1, 9))
        elif shape == "eighth":
            nxt = beat + F(draw(st.integers(1, 40)), 8)
        else:
            nxt = beat + F(draw(st.integers(1, 48 * 6)), 48)
        beat = F(nxt)
        out.append([frs(beat), draw(bpm_st)])
    return out


def _walk_columns(draw, keys, pool, max_per_col, kinds_long=True, min_gap: Optional[F] = None):
    """Column walk: each active column takes an increasing subset of `pool` (list of Fractions); a hold/roll
    consumes the next position of its column as its tail."""
    notes = []
    n_active = draw(st.integers(1, min(keys, 5)))
    cols = draw(st.lists(st.integers(0, keys - 1), min_size=n_active, max_size=n_active, unique=True))
    for col in cols:
        idx = draw(st.lists(st.integers(0, len(pool) - 1), min_size=1, max_size=min(max_per_col, len(pool)), unique=True))
        pos = sorted(pool[i] for i in idx)
        if min_gap is not None:
            kept = []
            for p in pos:
                if not kept or p - kept[-1] >= min_gap:
                    kept.append(p)
            pos = kept
        i = 0
        while i < len(pos):
            kind = draw(st.sampled_from(["hits", "hits", "holds", "rolls", "mines", "lifts", "fakes", "keysounds"]))
            if kind in ref.LONG_KINDS and kinds_long and i + 1 < len(pos):
                notes.append([kind, col, frs(pos[i]), frs(pos[i + 1] - pos[i])])
                i += 2
            else:
                notes.append([kind if kind not in ref.LONG_KINDS else "hits", col, frs(pos[i]), None])
                i += 1
    return notes


@st.composite
def _chart_header_st(draw, chart_types):
    if chart_types == "writable":
        ctype = draw(st.sampled_from(sorted(WRITABLE_KEYS)))
        keys = WRITABLE_KEYS[ctype]
    else:
        ctype = draw(st.sampled_from(sorted(SM_CHART_KEYS)))
        keys = SM_CHART_KEYS[ctype]
        if draw(_rare(10)):
            # the reader does not use a key table: any width 3..18 under any type string
            keys = draw(st.sampled_from([3, 9, 11, 13, 15, 17, 18]))
    radar_n = draw(st.sampled_from([5, 5, 5, 5, 1, 10, 22]))
    radar = draw(
        st.lists(
            st.one_of(st.integers(0, 1500).map(lambda n: n / 1000.0), st.floats(0, 10, allow_nan=False)),
            min_size=radar_n,
            max_size=radar_n,
        )
    )
    return dict(
        chart_type=ctype,
        keys=keys,
        description=draw(value_st()),
        difficulty=draw(st.one_of(st.sampled_from(DIFFICULTIES), value_st(8))),
        difficulty_val=draw(st.one_of(st.integers(0, 30), st.integers(-5, 10**6))),
        groove_radar=radar,
    )


@st.composite
def _chart_style_st(draw, n_meas, rows):
    stl = dict(
        indent=draw(st.sampled_from(["     ", "", "  ", "\t"])),
        one_line=draw(_rare(6)),
        pre_comment=draw(st.one_of(st.none(), st.just("---------------dance - ----------------"), comment_text_st)),
        sep=draw(st.integers(0, len(SEPS) - 1)),
        radar_fmt=draw(st.sampled_from(["repr", "f3", "f6"])),
        end=draw(st.sampled_from(["\n;", ";"])),
        after=draw(st.sampled_from(["\n", "\n\n", "\n\n\n"])),
    )
    ex = []
    for _ in range(draw(st.integers(0, 3))):
        m = draw(st.integers(0, n_meas - 1))
        ex.append([m, draw(st.integers(0, rows[m] - 1)), draw(st.one_of(st.none(), comment_text_st))])
    stl["extras"] = ex
    return stl


@st.composite
def _rows_chart_st(draw, tier, tempo, chart_types, max_rows):
    """C02 shape: draw the per-measure row counts first (any multiple of 4), then put objects on rows."""
    big = tier == "thorough"
    ch = draw(_chart_header_st(chart_types))
    n_meas = draw(st.integers(1, 12 if big else 5))
    cap = max_rows or (384 if big else 192)
    common = [r for r in COMMON_ROWS + ([384] if big else []) if r <= cap]
    rows_st = st.one_of(st.sampled_from(common), st.integers(1, cap // 4).map(lambda n: 4 * n))
    rows = [draw(rows_st) for _ in range(n_meas)]
    pool = set()
    for _ in range(draw(st.integers(1, 24 if big else 9))):
        m = draw(st.integers(0, n_meas - 1))
        r = draw(st.one_of(st.integers(0, rows[m] - 1), st.sampled_from([0, rows[m] - 1, rows[m] // 4, rows[m] // 2])))
        pool.add(F(4 * m) + F(4 * r, rows[m]))
    # objects sitting exactly on a tempo change (segment selection), where the measure's rows allow it
    for b, _ in tempo:
        b = fr(b)
        m = int(b // 4)
        if m < n_meas and ((b - 4 * m) / 4 * rows[m]).denominator == 1 and draw(st.booleans()):
            pool.add(b)
    pool = sorted(pool)
    ch["notes"] = _walk_columns(draw, ch["keys"], pool, 8 if big else 4)
    if draw(st.integers(0, 11)) == 0:
        ch["notes"] = []  # a placeholder difficulty: only '0' rows (it still has its header and the file's tempo list)
    ch["rows"] = rows
    ch["style"] = draw(_chart_style_st(n_meas, rows))
    return ch


@st.composite
def _snap_chart_st(draw, tier, tempo, chart_types, max_rows):
    """C03 shape: positions = (active tempo change) + whole beats + a fraction of reamber's documented
    snapping grid; >= 1/96 beat between two objects of a column; 'rows' is filled in when every measure can
    be rendered with <= max_rows rows (else None: the chart can only be built in memory)."""
    big = tier == "thorough"
    ch = draw(_chart_header_st(chart_types))
    n_meas = draw(st.integers(1, 12 if big else 5))
    lead = draw(st.sampled_from([0, 0, 0, 1, 2, 3]))
    flavour = draw(st.sampled_from(["coarse", "coarse", "fine", "fine", "cap"]))
    dens = dict(coarse=SNAP_DENS_COARSE, fine=SNAP_DENS_FINE, cap=SNAP_DENS_CAP)[flavour]
    cbeats = [fr(b) for b, _ in tempo]
    pool = set()
    for _ in range(draw(st.integers(1, 24 if big else 9))):
        m = draw(st.integers(lead, lead + n_meas - 1))
        if flavour == "cap" and pool and draw(st.booleans()):
            m = int(max(pool) // 4)  # crowd one measure so that its LCM exceeds the cap
        q = draw(st.integers(0, 3))
        d = draw(st.sampled_from(dens))
        g = F(draw(st.integers(0, d - 1)), d)
        p0 = F(4 * m + q) + g
        i = max(j for j, c in enumerate(cbeats) if c <= p0)
        rel = p0 - cbeats[i]
        p = cbeats[i] + (rel // 1) + g
        if p < cbeats[i]:
            p = cbeats[i]
        if i + 1 < len(cbeats) and p >= cbeats[i + 1]:
            p = cbeats[i + 1]
        pool.add(p)
    pool = sorted(pool)
    ch["notes"] = _walk_columns(draw, ch["keys"], pool, 8 if big else 4, min_gap=F(1, 96))
    mults = draw(st.lists(st.sampled_from([1, 1, 2, 3, 4]), min_size=1, max_size=4))
    rows = fit_rows(ch, max_rows or 384, mults)
    ch["rows"] = rows
    n_rows = rows or [4] * len(needed_rows(ch))
    ch["style"] = draw(_chart_style_st(len(n_rows), n_rows))
    return ch


@st.composite
def _meta_st(draw, full):
    meta = {}
    fields = META_STR if full else ["title", "artist", "credit", "music"]
    for f in fields:
        if draw(st.integers(0, 2)) != 0:
            meta[f] = draw(value_st())
    if full or draw(st.booleans()):
        if draw(st.booleans()):
            meta["sample_start"] = draw(st.one_of(st.integers(0, 300000).map(float), st.floats(0, 1e6, allow_nan=False)))
        if draw(st.booleans()):
            meta["sample_length"] = draw(st.one_of(st.integers(0, 60000).map(float), st.floats(0, 1e5, allow_nan=False)))
        if draw(st.booleans()):
            meta["selectable"] = draw(st.booleans())
    return meta


@st.composite
def _file_style_st(draw, sk, stops_first):
    meta_tags = [TAG_OF[f] for f in sk["meta"]]
    # omitted default keys: some present fields are simply not written; some absent ones are written empty
    core = ["OFFSET", "BPMS", "STOPS"]
    order = draw(st.sampled_from(["canon", "canon", "shuffled"]))
    if order == "canon":
        tags = [t for t in ref.HEADER_FIELDS if t in meta_tags]
        # OFFSET, BPMS, STOPS go where StepMania writes them: after MUSIC
        k = draw(st.integers(0, len(tags)))
        tags[k:k] = core
    else:
        tags = list(draw(st.permutations(meta_tags + core)))
        # keep #STOPS after #BPMS and #OFFSET (the excluded, counted class is made below)
        i_s = tags.index("STOPS")
        last = max(tags.index("BPMS"), tags.index("OFFSET"))
        if i_s < last:
            tags[last], tags[i_s] = tags[i_s], tags[last]
    if stops_first:
        i_s = tags.index("STOPS")
        first = min(tags.index("BPMS"), tags.index("OFFSET")) if draw(st.booleans()) else max(tags.index("BPMS"), tags.index("OFFSET"))
        tags[first], tags[i_s] = tags[i_s], tags[first]
    tags_after = []
    if meta_tags and draw(_rare(8)):
        t = draw(st.sampled_from(sorted(meta_tags)))
        tags.remove(t)
        tags_after.append(t)
    n = len(sk["tempo"])
    enc = []
    for b, v in sk["tempo"]:
        b = fr(b)
        if (b * 1000).denominator == 1:
            bf = draw(st.sampled_from(["int", "f3", "f3", "f6"]))
        else:
            bf = draw(st.sampled_from(["f6", "f6", "f7", "f9", "f12"]))
        enc.append([bf, draw(st.sampled_from(["repr", "repr", "int", "f3", "f6"]))])
    perm = list(range(n))
    if n > 1 and draw(_rare(5)):
        perm = list(draw(st.permutations(perm)))
    ex = []
    for _ in range(draw(st.integers(0, 3))):
        ex.append([draw(st.integers(0, len(tags))), draw(st.one_of(st.none(), comment_text_st, header_comment_hash_st))])
    stops = "empty" if stops_first else draw(st.sampled_from(["empty", "absent", "absent", "empty-nl"]))
    return dict(
        tags=tags,
        tags_after=tags_after,
        stops=stops,
        bpm_enc=enc,
        bpm_perm=perm,
        bpm_sep=draw(st.sampled_from([",\n", ",", ", ", ",\n  "])),
        offset_fmt=draw(st.sampled_from(["repr", "f3", "f6"])),
        extras=ex,
        gap=draw(st.sampled_from(["", "\n", "// next chart\n"])),
    )


@st.composite
def _mapset_st(draw, tier, mode, tempo, chart_types, max_charts, max_rows, full_meta, stops_first_rate):
    tp = draw(tempo_st(tier, tempo))
    n = draw(st.integers(1, max_charts))
    chart_st = _rows_chart_st if mode == "rows" else _snap_chart_st
    off = draw(offset_ms_st)
    if draw(st.booleans()):
        off = float(round(off))  # whole milliseconds: exactly representable with three decimals of seconds
    sk = dict(
        meta=draw(_meta_st(full_meta)),
        offset_ms=off,
        tempo=tp,
        charts=[draw(chart_st(tier, tp, chart_types, max_rows)) for _ in range(n)],
    )
    stops_first = stops_first_rate > 0 and draw(st.sampled_from(range(100))) >= 100 - stops_first_rate
    sk["style"] = draw(_file_style_st(sk, stops_first))
    return sk


def mapset_strategy(tier, *, mode="rows", tempo="grid48", chart_types="any", max_charts=4, max_rows=None,
                    full_meta=False, stops_first_rate=0):
    """Strategy of StepMania skeletons.

    mode        "rows": per-measure row counts are drawn first (any multiple of 4 up to max_rows, default 192
                quick / 384 thorough) and objects sit on rows – the C02 reader domain.
                "snap": object beat = active tempo change + whole beats + k/d with d from reamber's snapping
                grid, >= 1/96 beat apart within a column, leading empty measures, measures whose LCM exceeds
                384 – the C03 writer domain; chart["rows"] is None when the chart cannot be rendered.
    tempo       "measure" | "grid48" | "mixed" (see tempo_st)
    chart_types "any" (StepMania's table, 3..18 columns) | "writable" (types reamber documents a key count for)
    max_charts  charts per file (1..max_charts)
    full_meta   draw all 19 header fields (else a few)
    stops_first_rate  percent of files that put ``#STOPS:;`` *before* ``#BPMS`` or ``#OFFSET`` (C02 counts them as
                excluded)
    """
    return _mapset_st(tier, mode, tempo, chart_types, max_charts, max_rows, full_meta, stops_first_rate)
