"""osu!mania (.osu v14) generators: chart descriptions, text renderer, in-memory builder.

Everything a strategy produces is plain JSON-able data.  A *chart description* has
the shape that ``vlib.ref.osu.parse`` returns (see there)::

    {"keys": int, "hits": [...], "holds": [...], "bpms": [...], "svs": [...],
     "samples": [...], "meta": {...}}

with two kinds of optional additions that only the renderer looks at:

* tempo / SV points may carry ``"beat_length"`` (the number that is written in the
  file) instead of ``"bpm"`` / ``"multiplier"``; :func:`canonical` derives the value;
* file-only details: objects ``"x"`` (any x inside the column's range), ``"y"``,
  ``"type"`` (1|5 hits, 128|132 holds); timing points ``"effects"`` (bit 0 = kiai),
  ``"meter"`` for SV lines, ``"tfmt"`` number style; samples ``"layer"``, ``"quoted"``.

Public API (used by C01 and by later conversion / rate / row-order checks):

    chart_strategy(tier, kind="text"|"memory", **opts)  -> strategy of chart descriptions
    syntax_strategy(chart)                              -> strategy of file-level freedoms
    text_case_strategy(tier, **opts)                    -> {"chart", "syntax"}
    render(chart, syntax=None) -> list[str]             the .osu text, one item per line
    canonical(chart) -> chart                           what the rendered text denotes
    build(chart) -> OsuMap                              through the public constructors
    snapshot(osu_map) -> chart                          plain data out of an in-memory map
    minimal_chart(keys, hits, holds, bpms, ...)         convenience for hand-made charts

Only :func:`build` / :func:`snapshot` touch reamber (imported lazily).
"""
from __future__ import annotations

import math
from functools import lru_cache
from typing import Dict, List, Optional

from hypothesis import strategies as st

from vlib.ref.osu import (
    FIELD_TO_KEY,
    META_FIELDS,
    META_KEYS,
    strip_quotes,
    x_range_of_column,
)

HIT_FIELDS = ["offset", "column", "hitsound_set", "sample_set", "addition_set", "custom_set", "volume", "hitsound_file"]
HOLD_FIELDS = HIT_FIELDS + ["length"]
BPM_FIELDS = ["offset", "bpm", "metronome", "sample_set", "sample_set_index", "volume", "kiai"]
SV_FIELDS = ["offset", "multiplier", "sample_set", "sample_set_index", "volume", "kiai"]
SAMPLE_FIELDS = ["offset", "sample_file", "volume"]
SAMPLE_SET_TEXT = ["None", "Normal", "Soft", "Drum"]

SECTION_KEYS = {
    sec: [k for k, v in META_KEYS.items() if v[0] == sec] for sec in ("General", "Editor", "Metadata", "Difficulty")
}
NEVER_OMIT = {"Mode", "CircleSize"}
# keys an editor-written file may contain that are not chart content
EXTRA_KEYS = [
    ["General", "EpilepsyWarning", "1"],
    ["General", "SkinPreference", ""],
    ["General", "OverlayPosition", "NoChange"],
    ["General", "SamplesMatchPlaybackRate", "1"],
    ["General", "CountdownOffset", "0"],
    ["Editor", "Bookmarks", "1200,3400,5600"],
    ["Metadata", "SomeFutureKey", "a:b"],
]
EVENT_NOISE = [
    ("break", "2,1000,2000"),
    ("layer0", 'Sprite,Background,Centre,"sb/bg.png",320,240'),
    ("layer0", " F,0,1000,2000,0,1"),
    ("layer3", 'Animation,Foreground,Centre,"sb/a.png",320,240,4,100,LoopForever'),
    ("layer3", "_M,0,100,200,320,240,330,250"),
]

META_PLAIN = {
    "audio_file_name": "audio.mp3",
    "audio_lead_in": 0,
    "preview_time": -1,
    "countdown": False,
    "sample_set": 1,
    "stack_leniency": 0.7,
    "mode": 3,
    "letterbox_in_breaks": False,
    "special_style": False,
    "widescreen_storyboard": False,
    "distance_spacing": 1.0,
    "beat_divisor": 4,
    "grid_size": 8,
    "timeline_zoom": 1.0,
    "title": "title",
    "title_unicode": "title",
    "artist": "artist",
    "artist_unicode": "artist",
    "creator": "creator",
    "version": "version",
    "source": "",
    "tags": [],
    "beatmap_id": 0,
    "beatmap_set_id": -1,
    "hp_drain_rate": 8.0,
    "circle_size": 4.0,
    "overall_difficulty": 8.0,
    "approach_rate": 5.0,
    "slider_multiplier": 1.4,
    "slider_tick_rate": 1.0,
    "background_file_name": "bg.jpg",
}


# --------------------------------------------------------------------------- #
# strategies.  Hypothesis validates every strategy object it meets, so all building blocks
# are created once (module level / lru_cache) and composites only *draw*; several small
# fields are packed into one integer draw (they shrink towards 0 = the defaults).
# --------------------------------------------------------------------------- #
_WORDS = ["a", "Song", "x-y_z", "feat.", "(TV Size)", "v 1", "[4K]", "100%", "it's", "#1", "A&B", "~"]
_COLON = ["Re:Zero", "a:b", "12:34:56", "http://x.y/z?q=1", "::", "k: v", ":x", "x:"]
_NONASCII = ["日本語", "é", "Пример", "한국어", "ñandú", "♪", "～ZERO～", "ＡＢ", "ß", "Ω", "ひらがな", "\U0001F3B5"]

#: characters Python's str.splitlines() treats as line boundaries but the format does not (a line ends at LF / CRLF only):
#: inside a value they are ordinary content
_LINESEP_LIKE = ["Act I\u2028Act II", "Caf\u00e9\u0085Orchestra", "p\u2029q", "a\x0cb", "v\x0bw", "x\x1cy\x1dz\x1e!"]

_any_char = st.characters(categories=["L", "N", "P", "S"], include_characters=" ", max_codepoint=0x2FFFF)
_name_char = st.characters(
    categories=["L", "N", "P", "S"], include_characters=" ", exclude_characters=',:"', max_codepoint=0x2FFFF
)
_tag_char = st.characters(categories=["L", "N", "P", "S"], max_codepoint=0x2FFFF)


def _strip(s: str) -> str:
    return s.strip()


@lru_cache(maxsize=None)
def meta_text(max_size: int = 16):
    """Metadata value: no surrounding whitespace (the format trims it), may contain ':' and
    non-ASCII text, never a line break."""
    frag = st.one_of(
        st.sampled_from(_WORDS), st.sampled_from(_COLON), st.sampled_from(_NONASCII), st.text(_any_char, max_size=max_size),
        st.sampled_from(_LINESEP_LIKE),
    )
    return st.one_of(
        st.sampled_from(["", "Title", "a b"]),
        frag,
        st.lists(frag, min_size=2, max_size=3).map(" ".join),
        st.lists(frag, min_size=2, max_size=2).map("".join),
    ).map(_strip)


@lru_cache(maxsize=None)
def tag_text():
    """One tag: non-empty, no ASCII space.  The format separates tags at the ASCII space only, so a tag may hold
    other white space (ideographic space, no-break space, tab) *inside* it - typed through an input method."""
    return st.one_of(
        st.sampled_from(["tag", "4k", "Re:Zero", "日本語", "a:b:c", "é", "x_y", "♪"]),
        st.sampled_from(["東方\u3000アレンジ", "ＢＭＳ\u00a0remix", "a\tb", "x\u2003y", "p\u2009q\u3000r", "l\u2028m", "n\u0085o\x0cp"]),
        st.text(_tag_char, min_size=1, max_size=8),
    )


@lru_cache(maxsize=None)
def file_name(allow_empty: bool = False):
    """File name the format can carry: no ',' ':' '"', no surrounding whitespace."""
    base = st.one_of(
        st.sampled_from(["hit.wav", "a b.ogg", "日本.wav", "sb/s1.wav", "kick-2.mp3", "é.wav", "C4.wav"]),
        st.text(_name_char, min_size=1, max_size=10).map(_strip).map(lambda s: s or "x.wav"),
    )
    return st.one_of(st.just(""), st.just(""), base) if allow_empty else base


_U24 = st.integers(0, 2**24 - 1)
_U16 = st.integers(0, 2**16 - 1)
_BOOL = st.booleans()
_FILE_OR_EMPTY = file_name(True)
_FILE = file_name(False)


def _unpack_hitsound(n: int) -> dict:
    return dict(
        hitsound_set=n & 15,
        sample_set=(n >> 4) & 3,
        addition_set=(n >> 6) & 3,
        custom_set=((n >> 8) & 31) % 21,
        volume=((n >> 13) & 127) % 101,
    )


@lru_cache(maxsize=None)
def hitsound_fields():
    """The per-note sample fields (bit-field 0..15, sets 0..3, index 0..20, volume 0..100, file)."""
    return st.tuples(_U24, _FILE_OR_EMPTY).map(lambda p: dict(_unpack_hitsound(p[0]), hitsound_file=p[1]))


_HITSOUND = hitsound_fields()

_FRACS = [0.5, 0.25, 0.75, 0.001, 0.999, 0.9999999, 1.0 - 2.0**-20, 0.1, 0.3333333333333333]
_FRAC = st.one_of(st.sampled_from(_FRACS), st.floats(0.0, 1.0, exclude_max=True, allow_nan=False))
_START = st.one_of(st.sampled_from([0, -5, -1234, 1000, 3]), st.integers(-30000, 30000), st.integers(0, 9_000_000))
_GAP = {
    False: st.one_of(st.integers(1, 4), st.integers(5, 600), st.integers(601, 20_000)),
    True: st.one_of(st.integers(1, 4), st.integers(5, 600), st.integers(601, 100_000)),
}
_LEN_INT = {
    False: st.one_of(st.integers(1, 50), st.integers(1, 5000), st.integers(1, 20_000)),
    True: st.one_of(st.integers(1, 50), st.integers(1, 5000), st.integers(1, 200_000)),
}
_LEN_FLOAT = st.one_of(
    st.integers(1, 5000).map(float),
    st.tuples(st.integers(0, 3000), _FRAC).map(lambda p: max(p[0] + p[1], 2.0**-10)),
)
_CHORD = st.sampled_from([1, 1, 1, 2, 3, 99])
_MODE4 = st.integers(0, 3)
_Y = [192, 192, 0, 384, 100]


@lru_cache(maxsize=None)
def _count(lo: int, hi: int):
    return st.integers(lo, hi)


@lru_cache(maxsize=None)
def _perm(n: int):
    return st.permutations(list(range(n)))


def _note_times(draw, n: int, float_times: bool, big: bool):
    """n strictly increasing times: negative, zero, positive, up to ~1e7; ints or floats."""
    start = draw(_START)
    t = float(start) if float_times else int(start)
    if float_times and draw(_BOOL):
        t += draw(_FRAC)
    out = []
    for _ in range(n):
        out.append(t)
        gap = draw(_GAP[big])
        if float_times:
            g = float(gap)
            mode = draw(_MODE4)
            if mode == 1:
                g += draw(_FRAC)
            elif mode == 2:
                g = max(draw(_FRAC), 2.0**-10)  # closer than 1 ms
            t = t + g
        else:
            t = t + gap
    return out


@st.composite
def notes_strategy(draw, keys: int, max_notes: int, float_times: bool = False, big: bool = False, hints: bool = True):
    """(hits, holds): built by walking forward in time; a column is busy until its hold ends,
    so notes of one column never overlap; chords and hit/hold ties across columns on purpose."""
    n_times = draw(_count(0, max(0, max_notes)))
    times = _note_times(draw, n_times, float_times, big) if n_times else []
    busy_until = [None] * keys
    hits, holds = [], []
    budget = max_notes
    for t in times:
        free = [c for c in range(keys) if busy_until[c] is None or busy_until[c] < t]
        if not free or budget <= 0:
            continue
        k = min(len(free), budget, draw(_CHORD))
        cols = []
        for _ in range(k):
            cols.append(free.pop(draw(_U16) % len(free)))
        for c in sorted(cols):
            budget -= 1
            o = dict(offset=t, column=c)
            o.update(draw(_HITSOUND))
            r = draw(_U24)
            is_hold = r % 10 < 4
            r //= 10
            if is_hold:
                ln = draw(_LEN_FLOAT) if float_times else draw(_LEN_INT[big])
                o["length"] = ln
                busy_until[c] = t + ln
            if hints:
                lo, hi = x_range_of_column(c, keys)
                how = r % 4
                r //= 4
                o["x"] = lo if how == 0 else hi if how == 1 else (lo + hi) // 2 if how == 2 else lo + (r // 10) % (hi - lo + 1)
                o["y"] = _Y[r % 5]
                o["type"] = (128 if is_hold else 1) + (4 if (r // 5) % 2 else 0)
            (holds if is_hold else hits).append(o)
    return hits, holds


_TP_TIME = st.one_of(
    st.sampled_from([0.0, -30.0, 1234.5, 500.0, -0.5]),
    st.integers(-3000, 1_000_000).map(float),
    st.tuples(st.integers(-3000, 1_000_000), st.integers(0, 999)).map(lambda p: p[0] + p[1] / 1000.0),
    st.floats(-5000.0, 1e7, allow_nan=False, allow_infinity=False),
)


def _unpack_tp(n: int) -> dict:
    return dict(sample_set=n & 3, sample_set_index=((n >> 2) & 127) % 100, volume=((n >> 9) & 127) % 101)


_pos_value = st.one_of(
    st.sampled_from([120.0, 150.0, 173.3, 180.0, 200.5, 60.0, 222.22]),
    st.integers(20, 600).map(float),
    st.floats(1.0, 2000.0, allow_nan=False),
    st.floats(1e-3, 1e6, allow_nan=False),
)
_sv_value = st.one_of(
    st.sampled_from([1.0, 0.5, 2.0, 1.3, 0.75, 10.0, 0.01, 0.1]),
    st.floats(0.01, 10.0, allow_nan=False),
    st.floats(1e-4, 1e4, allow_nan=False),
)
_BEAT_LENGTH = st.one_of(
    st.sampled_from([500.0, 333.333333333333, 352.94117647058823, 400.0, 300.0, 1000.0]),
    _pos_value.map(lambda v: 60000.0 / v),
)
_SV_LENGTH = st.one_of(
    st.sampled_from([-100.0, -50.0, -200.0, -133.333333333333, -1000.0, -10.0]),
    _sv_value.map(lambda v: -100.0 / v),
)
_METRONOME = [4, 4, 4, 3, 1, 2, 5, 6, 7, 9]
_SV_METER = [4, 4, 3, 7]


@st.composite
def timing_strategy(draw, max_tempo: int, kind: str = "text", allow_negative: bool = False):
    """(bpms, svs).  kind='text': points carry the file's beat_length and effects field;
    kind='memory': points carry bpm / multiplier values (non-zero, optionally negative)."""
    nb = draw(_count(1, max(1, max_tempo)))
    ns = draw(_count(0, max_tempo))
    bpms, svs = [], []
    for _ in range(nb):
        r = draw(_U24)
        o = dict(offset=draw(_TP_TIME), metronome=_METRONOME[(r >> 16) % len(_METRONOME)])
        o.update(_unpack_tp(r))
        r >>= 20
        if kind == "text":
            o["beat_length"] = draw(_BEAT_LENGTH)
            o["effects"] = r & 15
            o["kiai"] = bool(o["effects"] & 1)
            o["tfmt"] = draw(_MODE4) % 3
        else:
            v = draw(_pos_value)
            if allow_negative and draw(_U16) % 10 == 0:
                v = -v
            o["bpm"] = v
            o["kiai"] = bool(r & 1)
        bpms.append(o)
    for _ in range(ns):
        r = draw(_U24)
        same = (r >> 16) % 3 == 0
        t = bpms[(r >> 18) % len(bpms)]["offset"] if same else draw(_TP_TIME)
        o = dict(offset=t)
        o.update(_unpack_tp(r))
        r >>= 20
        if kind == "text":
            o["beat_length"] = draw(_SV_LENGTH)
            o["effects"] = r & 15
            o["kiai"] = bool(o["effects"] & 1)
            o["meter"] = _SV_METER[draw(_MODE4)]
            o["tfmt"] = draw(_MODE4) % 3
        else:
            v = draw(_sv_value)
            if allow_negative and draw(_U16) % 10 == 0:
                v = -v
            o["multiplier"] = v
            o["kiai"] = bool(r & 1)
        svs.append(o)
    return bpms, svs


_SAMPLE_TIME = st.one_of(st.sampled_from([0, -100, 2500]), st.integers(-2000, 1_000_000))
_FRAC0 = st.one_of(st.just(0.0), _FRAC)


@st.composite
def samples_strategy(draw, max_n: int, float_times: bool = False, hints: bool = True):
    """[Events] sound samples; with hints: layer and quoted/unquoted spelling for the renderer,
    without: the name itself is sometimes held with its quotes (what a read map holds)."""
    out = []
    for _ in range(draw(_count(0, max_n))):
        t = draw(_SAMPLE_TIME)
        if float_times:
            t = float(t) + draw(_FRAC0)
        r = draw(_U16)
        o = dict(offset=t, sample_file=draw(_FILE), volume=(r & 127) % 101)
        if hints:
            o["layer"] = (r >> 7) & 3
            o["quoted"] = bool((r >> 9) & 1)
        elif (r >> 9) & 1:
            o["sample_file"] = '"' + o["sample_file"] + '"'
        out.append(o)
    return out


def _dec(lo: int, hi: int, digits: int):
    """decimal number with `digits` decimals in [lo, hi]"""
    s = 10**digits
    return st.integers(lo * s, hi * s).map(lambda n: n / s)


_LONG_FLOAT = st.floats(0.1, 10.0, allow_nan=False)
_META_RICH = st.fixed_dictionaries(
    dict(
        audio_file_name=st.one_of(st.sampled_from(["audio.mp3", "a b.ogg", "音.mp3"]), meta_text(10)),
        audio_lead_in=st.one_of(st.sampled_from([0, 1000, 999999]), st.integers(0, 999999)),
        preview_time=st.one_of(st.sampled_from([-1, 0, 12345]), st.integers(-1, 10_000_000)),
        countdown=_BOOL,
        sample_set=st.integers(0, 3),
        stack_leniency=st.one_of(st.sampled_from([0.7, 0.0, 1.0, 0.2]), st.floats(0.0, 1.0, allow_nan=False)),
        mode=st.just(3),
        letterbox_in_breaks=_BOOL,
        special_style=_BOOL,
        widescreen_storyboard=_BOOL,
        distance_spacing=st.one_of(st.sampled_from([1.0, 0.8, 4.0, 1.2]), _dec(0, 6, 2), _LONG_FLOAT),
        beat_divisor=st.one_of(st.sampled_from([4, 3, 16]), st.integers(1, 64)),
        grid_size=st.sampled_from([4, 8, 16, 32, 1]),
        timeline_zoom=st.one_of(st.sampled_from([1.0, 0.3, 2.5]), _dec(0, 8, 1), _LONG_FLOAT),
        title=meta_text(),
        title_unicode=meta_text(),
        artist=meta_text(),
        artist_unicode=meta_text(),
        creator=meta_text(8),
        version=meta_text(8),
        source=meta_text(8),
        tags=st.lists(tag_text(), max_size=4),
        beatmap_id=st.one_of(st.just(0), st.integers(0, 5_000_000)),
        beatmap_set_id=st.one_of(st.just(-1), st.integers(-1, 3_000_000)),
        hp_drain_rate=st.one_of(_dec(0, 10, 1), _LONG_FLOAT),
        overall_difficulty=st.one_of(_dec(0, 10, 1), _LONG_FLOAT),
        approach_rate=st.one_of(st.just(5.0), _dec(0, 10, 1)),
        slider_multiplier=st.one_of(st.sampled_from([1.4, 1.0, 1.39999997615814]), _dec(0, 4, 2), _LONG_FLOAT),
        slider_tick_rate=st.sampled_from([1.0, 2.0, 0.5, 4.0, 1.5]),
        background_file_name=st.one_of(st.sampled_from(["bg.jpg", "", "背景 1.png"]), _FILE),
    )
)


@st.composite
def meta_strategy(draw, keys: int, kind: str = "text", style: str = "rich"):
    """Every metadata field.  style='plain' gives fixed unremarkable values (for checks
    that are not about metadata)."""
    if style == "plain":
        m = dict(META_PLAIN)
        m["tags"] = []
        m["circle_size"] = float(keys)
        return m
    got = draw(_META_RICH)
    m = {f: (float(keys) if f == "circle_size" else got[f]) for f in META_FIELDS}
    if kind == "memory":
        # a chart in memory may hold the key count as int, and a (rated) float preview time
        r = draw(_U16)
        if r & 1:
            m["circle_size"] = int(keys)
        if (r >> 1) % 4 == 0:
            m["preview_time"] = float(m["preview_time"]) + draw(_FRAC)
    return m


_KEYS_ANY = st.one_of(st.sampled_from([4, 7, 10]), st.integers(1, 18))
_SIZE_NOTES = st.sampled_from([24, 60, 200])
_SIZE_TEMPO = st.sampled_from([5, 12, 40])


def _keys_strategy(keys):
    if isinstance(keys, int):
        return st.just(keys)
    if keys is not None:
        return st.sampled_from(list(keys))
    return _KEYS_ANY


@st.composite
def chart_strategy(
    draw,
    tier: str = "quick",
    kind: str = "text",
    keys=None,
    max_notes: Optional[int] = None,
    max_tempo: Optional[int] = None,
    max_samples: int = 3,
    meta: str = "rich",
    allow_negative_values: bool = False,
    shuffle: Optional[bool] = None,
):
    """Chart descriptions.

    kind='text'   integer object times, file-only details (x, y, type, effects, ...) for
                  :func:`render`; tempo/SV points carry ``beat_length``.
    kind='memory' float offsets / lengths (fractional, negative, closer than 1 ms), bpm / SV
                  values, lists in arbitrary (unsorted) order; for :func:`build`.
    keys          int | iterable of ints | None (1..18, biased to 4/7/10)
    sizes         quick <= 24 notes / 5 tempo points, thorough <= 200 / 40 unless given.
    meta          'rich' (every field varied, ':' and non-ASCII) | 'plain' (fixed values)
    """
    big = tier == "thorough"
    if max_notes is None:
        max_notes = draw(_SIZE_NOTES) if big else 24
    if max_tempo is None:
        max_tempo = draw(_SIZE_TEMPO) if big else 5
    k = draw(_keys_strategy(keys))
    mem = kind == "memory"
    hits, holds = draw(notes_strategy(k, max_notes, float_times=mem, big=big, hints=not mem))
    bpms, svs = draw(timing_strategy(max_tempo, kind=kind, allow_negative=allow_negative_values))
    samples = draw(samples_strategy(max_samples, float_times=mem, hints=not mem))
    md = draw(meta_strategy(k, kind=kind, style=meta))
    if shuffle is None:
        shuffle = mem
    if shuffle:
        hits, holds, bpms, svs, samples = (
            [lst[i] for i in draw(_perm(len(lst)))] if len(lst) > 1 else lst for lst in (hits, holds, bpms, svs, samples)
        )
    return dict(keys=k, hits=hits, holds=holds, bpms=bpms, svs=svs, samples=samples, meta=md)


_SECTION_PERM = {sec: st.permutations(ks) for sec, ks in SECTION_KEYS.items()}
_SECTION_PICK = {sec: st.sampled_from(ks) for sec, ks in SECTION_KEYS.items()}
_EXTRA_PICK = st.lists(st.integers(0, len(EXTRA_KEYS) - 1), max_size=3, unique=True)
_NOISE_PICK = st.lists(st.integers(0, len(EVENT_NOISE) - 1), max_size=3, unique=True)


@st.composite
def syntax_strategy(draw, chart: Dict):
    """File-level freedoms of the v14 dialect for :func:`render` (all optional there)."""
    order = {}
    omitted = []
    for sec, ks in SECTION_KEYS.items():
        r = draw(_U16)
        ks = list(draw(_SECTION_PERM[sec])) if r & 1 else list(ks)
        if (r >> 1) % 6 == 0:
            drop = draw(_SECTION_PICK[sec])
            if drop not in NEVER_OMIT:
                ks.remove(drop)
                omitted.append(drop)
        order[sec] = ks
    n_tp = len(chart["bpms"]) + len(chart["svs"])
    n_obj = len(chart["hits"]) + len(chart["holds"])
    r = draw(_U24)
    return dict(
        key_order=order,
        omitted=omitted,
        space_mode=r & 3,
        extra_keys=draw(_EXTRA_PICK),
        num_style=(r >> 2) & 1,
        blank=(r >> 3) % 3,
        eol=[0, 0, 1, 2][(r >> 5) & 3],
        colours=bool((r >> 7) & 1),
        comments=bool((r >> 8) & 1),
        event_noise=draw(_NOISE_PICK),
        tp_order=list(draw(_perm(n_tp))) if (r >> 9) & 1 else None,
        obj_order=list(draw(_perm(n_obj))) if (r >> 10) & 1 else None,
    )


@st.composite
def text_case_strategy(draw, tier: str = "quick", **opts):
    """{"chart": text-kind chart description, "syntax": file-level freedoms}."""
    chart = draw(chart_strategy(tier, kind="text", **opts))
    return dict(chart=chart, syntax=draw(syntax_strategy(chart)))


# --------------------------------------------------------------------------- #
# plain data -> what it denotes
# --------------------------------------------------------------------------- #
def _bpm_of(o: dict) -> float:
    return 60000.0 / o["beat_length"] if "beat_length" in o else float(o["bpm"])


def _mult_of(o: dict) -> float:
    return -100.0 / o["beat_length"] if "beat_length" in o else float(o["multiplier"])


_NOTE_DEFAULTS = dict(hitsound_set=0, sample_set=0, addition_set=0, custom_set=0, volume=0, hitsound_file="")
_TP_DEFAULTS = dict(sample_set=0, sample_set_index=0, volume=50, kiai=False)


def canonical(chart: Dict) -> Dict:
    """The chart a description denotes, in exactly the shape of ``ref.osu.parse`` / ``snapshot``
    (file-only details dropped, defaults filled, beat_length turned into bpm / multiplier)."""

    def note(o, hold):
        d = {f: o.get(f, _NOTE_DEFAULTS.get(f)) for f in HIT_FIELDS}
        d["offset"] = float(o["offset"])
        if hold:
            d["length"] = float(o["length"])
        return d

    def tp(o, sv):
        d = dict(offset=float(o["offset"]))
        if sv:
            d["multiplier"] = _mult_of(o)
        else:
            d["bpm"] = _bpm_of(o)
            d["metronome"] = o.get("metronome", 4)
        for f in ("sample_set", "sample_set_index", "volume", "kiai"):
            d[f] = o.get(f, _TP_DEFAULTS[f])
        return d

    meta = dict(chart.get("meta") or {})
    meta.setdefault("circle_size", float(chart["keys"]))
    if "tags" in meta:
        meta["tags"] = list(meta["tags"])
    return dict(
        keys=int(chart["keys"]),
        hits=[note(o, False) for o in chart.get("hits", [])],
        holds=[note(o, True) for o in chart.get("holds", [])],
        bpms=[tp(o, False) for o in chart.get("bpms", [])],
        svs=[tp(o, True) for o in chart.get("svs", [])],
        samples=[
            dict(offset=float(o["offset"]), sample_file=strip_quotes(o["sample_file"]), volume=o.get("volume", 70))
            for o in chart.get("samples", [])
        ],
        meta=meta,
    )


def minimal_chart(keys: int, hits=(), holds=(), bpms=((0.0, 120.0),), svs=(), samples=(), meta: Optional[dict] = None) -> Dict:
    """Hand-made chart description: hits [(offset, column)], holds [(offset, column, length)],
    bpms [(offset, bpm[, metronome])], svs [(offset, multiplier)], samples [(offset, file, volume)]."""
    md = dict(META_PLAIN)
    md["tags"] = []
    md["circle_size"] = float(keys)
    md.update(meta or {})
    return dict(
        keys=keys,
        hits=[dict(offset=o, column=c) for o, c in hits],
        holds=[dict(offset=o, column=c, length=ln) for o, c, ln in holds],
        bpms=[dict(offset=b[0], bpm=b[1], metronome=(b[2] if len(b) > 2 else 4)) for b in bpms],
        svs=[dict(offset=o, multiplier=v) for o, v in svs],
        samples=[dict(offset=o, sample_file=f, volume=v) for o, f, v in samples],
        meta=md,
    )


# --------------------------------------------------------------------------- #
# plain data -> .osu text
# --------------------------------------------------------------------------- #
def _ftext(v: float, style: int = 0) -> str:
    """Decimal text that reads back as exactly v.  style 0: shortest repr ('500.0');
    1: integers without a fraction ('500'); 2: integers with trailing zeros ('500.000')."""
    v = float(v)
    if v == int(v) and abs(v) < 1e15:
        s = repr(v) if style == 0 else (str(int(v)) if style == 1 else f"{int(v)}.000")
        if v == 0 and math.copysign(1.0, v) < 0:
            s = "-" + s.lstrip("-")
    else:
        s = repr(v)
    assert float(s) == v, (s, v)
    return s


def _itext(v) -> str:
    assert float(v) == int(v), f"the file stores this time as an integer: {v!r}"
    return str(int(v))


def _meta_value_text(field: str, kind: str, v, num_style: int) -> str:
    if kind == "str":
        return str(v)
    if kind == "int":
        assert float(v) == int(v), f"{field} is an integer key: {v!r}"
        return str(int(v))
    if kind == "bool":
        return "1" if v else "0"
    if kind == "sampleset":
        return SAMPLE_SET_TEXT[int(v)]
    if kind == "tags":
        return " ".join(v)
    if kind == "float":
        return _ftext(v, 1 if num_style == 0 else 0)
    raise AssertionError(kind)


def note_line(o: dict, keys: int, hold: bool) -> str:
    """One [HitObjects] line of a hit / hold description."""
    if "x" in o:
        x = o["x"]
    else:
        lo, hi = x_range_of_column(o["column"], keys)
        x = (lo + hi) // 2
    typ = o.get("type", 128 if hold else 1)
    g = lambda f: o.get(f, _NOTE_DEFAULTS[f])  # noqa: E731
    extras = f"{g('sample_set')}:{g('addition_set')}:{g('custom_set')}:{g('volume')}:{g('hitsound_file')}"
    if hold:
        assert float(o["offset"] + o["length"]) == int(o["offset"] + o["length"])
        extras = f"{int(o['offset'] + o['length'])}:" + extras
    return f"{x},{o.get('y', 192)},{_itext(o['offset'])},{typ},{g('hitsound_set')},{extras}"


def timing_line(o: dict, sv: bool) -> str:
    """One [TimingPoints] line of a tempo / SV description."""
    if "beat_length" in o:
        bl = float(o["beat_length"])
    else:
        bl = (-100.0 / o["multiplier"]) if sv else (60000.0 / o["bpm"])
    style = o.get("tfmt", 0)
    g = lambda f: o.get(f, _TP_DEFAULTS[f])  # noqa: E731
    eff = o.get("effects", 1 if g("kiai") else 0)
    meter = o.get("meter", 4) if sv else o.get("metronome", 4)
    return (
        f"{_ftext(o['offset'], style)},{_ftext(bl, style)},{int(meter)},{g('sample_set')},"
        f"{g('sample_set_index')},{g('volume')},{0 if sv else 1},{eff}"
    )


def sample_line(o: dict) -> str:
    name = o["sample_file"]
    if o.get("quoted", True) and not (len(name) >= 2 and name[0] == '"' and name[-1] == '"'):
        name = f'"{name}"'
    return f"Sample,{_itext(o['offset'])},{o.get('layer', 0)},{name},{o.get('volume', 70)}"


def render(chart: Dict, syntax: Optional[Dict] = None) -> List[str]:
    """Render a chart description as .osu v14 text, one list item per line (no line
    terminators except the deliberate trailing '\\r' / blanks of ``syntax['eol']``).

    Without ``syntax`` the result is the plain form an editor writes: canonical key order,
    bpm lines then SV lines, objects sorted by time.  Object times (and sample times) must
    be integers - the format stores them so.  The result is meant to be checked with
    ``ref.osu.parse(render(c))`` against ``canonical(c)`` by the caller.
    """
    sx = syntax or {}
    keys = int(chart["keys"])
    meta = dict(META_PLAIN)
    meta["circle_size"] = float(keys)
    meta.update(chart.get("meta") or {})
    order = sx.get("key_order") or SECTION_KEYS
    space_mode = sx.get("space_mode", 0)
    num_style = sx.get("num_style", 0)
    blank = sx.get("blank", 1)
    extra = [EXTRA_KEYS[i] for i in sx.get("extra_keys", [])]
    noise = [EVENT_NOISE[i] for i in sx.get("event_noise", [])]
    comments = sx.get("comments", True)

    out: List[str] = ["osu file format v14"]

    def gap():
        out.extend([""] * blank)

    n = 0
    for sec in ("General", "Editor", "Metadata", "Difficulty"):
        gap()
        out.append(f"[{sec}]")
        rows = []
        for k in order.get(sec, SECTION_KEYS[sec]):
            _, fld, kind = META_KEYS[k]
            rows.append((k, _meta_value_text(fld, kind, meta[fld], num_style)))
        for s, k, v in extra:
            if s == sec:
                rows.insert(len(rows) // 2, (k, v))
        for k, v in rows:
            n += 1
            if space_mode == 0:
                sp = " " if sec in ("General", "Editor") else ""
            elif space_mode == 1:
                sp = " "
            elif space_mode == 2:
                sp = ""
            else:
                sp = " " if n % 2 else ""
            out.append(f"{k}:{sp}{v}")

    gap()
    out.append("[Events]")
    out.append("//Background and Video events")
    out.append(f'0,0,"{meta["background_file_name"]}",0,0')
    out.append("//Break Periods")
    out.extend(t for w, t in noise if w == "break")
    if comments or any(w == "layer0" for w, _ in noise):
        out.append("//Storyboard Layer 0 (Background)")
    out.extend(t for w, t in noise if w == "layer0")
    if comments:
        out.append("//Storyboard Layer 1 (Fail)")
        out.append("//Storyboard Layer 2 (Pass)")
    if comments or any(w == "layer3" for w, _ in noise):
        out.append("//Storyboard Layer 3 (Foreground)")
    out.extend(t for w, t in noise if w == "layer3")
    if comments:
        out.append("//Storyboard Layer 4 (Overlay)")
    out.append("//Storyboard Sound Samples")
    out.extend(sample_line(o) for o in chart.get("samples", []))

    gap()
    out.append("[TimingPoints]")
    tps = [timing_line(o, False) for o in chart.get("bpms", [])] + [timing_line(o, True) for o in chart.get("svs", [])]
    if sx.get("tp_order") is not None:
        tps = [tps[i] for i in sx["tp_order"]]
    out.extend(tps)
    gap()
    if sx.get("colours"):
        out.append("[Colours]")
        out.append("Combo1 : 255,192,0")
        out.append("Combo2 : 0,202,0")
        gap()
    out.append("[HitObjects]")
    objs = [(o["offset"], note_line(o, keys, False)) for o in chart.get("hits", [])] + [
        (o["offset"], note_line(o, keys, True)) for o in chart.get("holds", [])
    ]
    if sx.get("obj_order") is not None:
        objs = [objs[i] for i in sx["obj_order"]]
    elif syntax is None:
        objs.sort(key=lambda p: p[0])
    out.extend(t for _, t in objs)
    out.append("")

    eol = sx.get("eol", 0)
    if eol == 1:
        out = [ln + "\r" for ln in out]
    elif eol == 2:
        out = [ln + ("  " if i % 3 == 0 else "") for i, ln in enumerate(out)]
    return out


# --------------------------------------------------------------------------- #
# plain data <-> reamber objects
# --------------------------------------------------------------------------- #
def build(chart: Dict):
    """In-memory ``OsuMap`` of a chart description, through the public constructors only
    (``OsuMap(**meta)``, ``OsuHit(...)``, ``OsuHitList([...])``, ...).  List order is kept."""
    from reamber.osu.OsuBpm import OsuBpm
    from reamber.osu.OsuHit import OsuHit
    from reamber.osu.OsuHold import OsuHold
    from reamber.osu.OsuMap import OsuMap
    from reamber.osu.OsuSample import OsuSample
    from reamber.osu.OsuSv import OsuSv
    from reamber.osu.lists.OsuBpmList import OsuBpmList
    from reamber.osu.lists.OsuSampleList import OsuSampleList
    from reamber.osu.lists.OsuSvList import OsuSvList
    from reamber.osu.lists.notes.OsuHitList import OsuHitList
    from reamber.osu.lists.notes.OsuHoldList import OsuHoldList

    meta = dict(chart.get("meta") or {})
    meta.setdefault("circle_size", float(chart["keys"]))
    if "tags" in meta:
        meta["tags"] = list(meta["tags"])
    m = OsuMap(**{f: meta[f] for f in META_FIELDS if f in meta})
    pick = lambda o, fields: {f: o[f] for f in fields if f in o}  # noqa: E731
    m.hits = OsuHitList([OsuHit(**pick(o, HIT_FIELDS)) for o in chart.get("hits", [])])
    m.holds = OsuHoldList([OsuHold(**pick(o, HOLD_FIELDS)) for o in chart.get("holds", [])])
    m.bpms = OsuBpmList([OsuBpm(**{**pick(o, BPM_FIELDS), "bpm": _bpm_of(o)}) for o in chart.get("bpms", [])])
    m.svs = OsuSvList([OsuSv(**{**pick(o, SV_FIELDS), "multiplier": _mult_of(o)}) for o in chart.get("svs", [])])
    m.samples = OsuSampleList([OsuSample(**pick(o, SAMPLE_FIELDS)) for o in chart.get("samples", [])])
    return m


def _plain(v):
    """numpy / pandas scalar -> python value, by meaning (2.0 stays a float only if fractional)."""
    if isinstance(v, str):
        return v
    if isinstance(v, bool):
        return v
    if hasattr(v, "item"):
        v = v.item()
    if isinstance(v, float) and math.isfinite(v) and v == int(v):
        return int(v)
    return v


def snapshot(m) -> Dict:
    """Plain-data chart held by an in-memory ``OsuMap`` (same shape as ``ref.osu.parse``).
    Reads the list columns and the metadata attributes; list order = row order."""

    def rows(lst, fields, floats=("offset", "length", "bpm", "multiplier"), bools=("kiai",)):
        df = lst.df
        cols = {f: df[f].tolist() for f in fields if f in df.columns}
        out = []
        for i in range(len(df)):
            d = {}
            for f, vals in cols.items():
                v = vals[i]
                if f in floats:
                    d[f] = float(v)
                elif f in bools:
                    d[f] = bool(v)
                else:
                    d[f] = _plain(v)
            out.append(d)
        return out

    meta = {}
    for f in META_FIELDS:
        v = getattr(m, f)
        if f == "tags":
            v = [] if isinstance(v, str) and not v else ([v] if isinstance(v, str) else [str(t) for t in v])
        elif not isinstance(v, (str, bool)):
            v = _plain(v)
        meta[f] = v
    cs = m.circle_size
    return dict(
        keys=int(cs) if float(cs) == int(cs) else cs,
        hits=rows(m.hits, HIT_FIELDS),
        holds=rows(m.holds, HOLD_FIELDS),
        bpms=rows(m.bpms, BPM_FIELDS),
        svs=rows(m.svs, SV_FIELDS),
        samples=[{**r, "sample_file": strip_quotes(str(r["sample_file"]))} for r in rows(m.samples, SAMPLE_FIELDS)],
        meta=meta,
    )


def describe(chart: Dict) -> Dict[str, bool]:
    """Class labels of a chart description (for evidence counters)."""
    times = [o["offset"] for o in chart["hits"] + chart["holds"]]
    ends = [o["offset"] + o["length"] for o in chart["holds"]]
    allt = times + ends + [o["offset"] for o in chart["bpms"] + chart["svs"] + chart["samples"]]
    strs = [str(chart["meta"].get(f, "")) for f in META_FIELDS if isinstance(chart["meta"].get(f), str)]
    strs += list(chart["meta"].get("tags", []))
    by_time: Dict[float, int] = {}
    for t in times:
        by_time[t] = by_time.get(t, 0) + 1
    return {
        "has-hit": bool(chart["hits"]),
        "has-hold": bool(chart["holds"]),
        "hit+hold": bool(chart["hits"]) and bool(chart["holds"]),
        "empty-notes": not times,
        "chord": any(v > 1 for v in by_time.values()),
        "neg-time": any(t < 0 for t in allt),
        "frac-time": any(float(t) != int(t) for t in allt),
        "big-time": any(abs(t) >= 1e6 for t in allt),
        "keys!=4": chart["keys"] != 4,
        "meta-colon": any(":" in s for s in strs),
        "meta-nonascii": any(not s.isascii() for s in strs),
        "value-with-splitlines-only-separator": any(len(s.splitlines()) > 1 and "\n" not in s and "\r" not in s for s in list(strs) + list(chart["meta"].get("tags", []))),
        "tag-with-inner-whitespace": any(any(ch.isspace() for ch in t) for t in chart["meta"].get("tags", [])),
        "tempo>=2": len(chart["bpms"]) >= 2,
        "sv": bool(chart["svs"]),
        "samples": bool(chart["samples"]),
        "hitsound-file": any(o.get("hitsound_file") for o in chart["hits"] + chart["holds"]),
    }


def nontrivial(chart: Dict) -> bool:
    """DESIGN C01 rule: >=1 hold and >=1 hit, or key count != 4, or a metadata value containing
    ':' / non-ASCII, or a negative / fractional time."""
    d = describe(chart)
    return d["hit+hold"] or d["keys!=4"] or d["meta-colon"] or d["meta-nonascii"] or d["neg-time"] or d["frac-time"]
