"""Generic in-memory charts of all five games from plain data (millisecond space).

Plain-data shapes
-----------------
chart  = {"game": g, "lists": {name: [row, ...]}, "meta": {field: value}}        one Map
mapset = {"game": "sm"|"o2j", "maps": [chart, ...], "meta": {...}}                a MapSet
row    = {"offset": float, "column": int, ...every declared field of the item class}

bytes (BMS samples, titles) are carried as str and encoded latin-1 in ``build``.

Public API
----------
games(), list_names(game), list_class(game, name), item_class(game, name), fields(game, name)
st_chart(game, tier, **opts) / st_mapset(game, tier) / st_any(tier)   Hypothesis strategies -> plain data
build(chart_or_mapset) -> reamber Map / MapSet (through the public constructors)
rows(timed_list) -> [dict]      by-meaning view (python scalars, bytes->str, NaN kept as float nan)
content(map_or_mapset) -> plain data by meaning (lists as row lists, dataclass metadata)
snapshot(obj) -> strict canonical snapshot (class, column order, dtypes, row labels, cell values, metadata)
"""
from __future__ import annotations

import dataclasses
import math
from typing import Any, Dict, List

from hypothesis import strategies as st

_GAME_MAP = {
    "osu": ("reamber.osu.OsuMap", "OsuMap"),
    "qua": ("reamber.quaver.QuaMap", "QuaMap"),
    "sm": ("reamber.sm.SMMap", "SMMap"),
    "bms": ("reamber.bms.BMSMap", "BMSMap"),
    "o2j": ("reamber.o2jam.O2JMap", "O2JMap"),
}
_GAME_SET = {"sm": ("reamber.sm.SMMapSet", "SMMapSet"), "o2j": ("reamber.o2jam.O2JMapSet", "O2JMapSet")}


def games() -> List[str]:
    return list(_GAME_MAP)


def map_class(game: str):
    import importlib

    mod, name = _GAME_MAP[game]
    return getattr(importlib.import_module(mod), name)


def mapset_class(game: str):
    import importlib

    mod, name = _GAME_SET[game]
    return getattr(importlib.import_module(mod), name)


_LISTS_CACHE: Dict[str, Dict[str, Any]] = {}


def _lists(game: str) -> Dict[str, Any]:
    if game not in _LISTS_CACHE:
        m = map_class(game)()
        _LISTS_CACHE[game] = {k: type(v) for k, v in m.objs.items()}
    return _LISTS_CACHE[game]


def list_names(game: str) -> List[str]:
    return list(_lists(game))


def list_class(game: str, name: str):
    return _lists(game)[name]


def item_class(game: str, name: str):
    return list_class(game, name)._item_class()


def fields(game: str, name: str) -> Dict[str, str]:
    """declared field -> dtype string"""
    return {k: v[0] for k, v in item_class(game, name)._props.items()}


def game_of(obj) -> str:
    n = type(obj).__name__
    for g, (_, cls) in _GAME_MAP.items():
        if n == cls:
            return g
    for g, (_, cls) in _GAME_SET.items():
        if n == cls:
            return g
    raise ValueError(n)


KEYS = {"osu": [1, 4, 7, 10, 18], "qua": [4, 7], "sm": [4, 6, 8], "bms": [8], "o2j": [7]}

# ---------------------------------------------------------------------------
# strategies
# ---------------------------------------------------------------------------
_nice_bpm = st.sampled_from([60.0, 90.0, 120.0, 150.0, 174.0, 200.0, 222.22])
bpm_st = st.one_of(_nice_bpm, st.integers(30, 400).map(float), st.floats(1.0, 1000.0, allow_nan=False).map(lambda x: round(x, 3)))
mult_st = st.one_of(st.sampled_from([0.5, 1.0, 1.5, 2.0]), st.floats(0.01, 10.0, allow_nan=False).map(lambda x: round(x, 4)))


@st.composite
def _offset_pool(draw, n, lo=-2000.0, hi=200000.0):
    """A pool of candidate offsets (so duplicates / ties are common)."""
    kinds = draw(st.sampled_from(["grid", "int", "float", "mixed"]))
    pool = []
    for _ in range(max(1, n)):
        k = kinds if kinds != "mixed" else draw(st.sampled_from(["grid", "int", "float"]))
        if k == "grid":
            pool.append(float(draw(st.integers(-8, 400)) * 125))
        elif k == "int":
            pool.append(float(draw(st.integers(int(lo), int(hi)))))
        else:
            pool.append(round(draw(st.floats(lo, hi, allow_nan=False)), 3))
    return pool


def _extra_field_st(game: str, name: str, field: str):
    if field in ("hitsound_set",):
        return st.integers(0, 15)
    if field in ("sample_set", "addition_set"):
        return st.integers(0, 3)
    if field in ("custom_set", "sample_set_index"):
        return st.integers(0, 2)
    if field == "volume":
        return st.integers(0, 100) if game == "osu" else st.integers(0, 15)
    if field == "pan":
        return st.integers(0, 15)
    if field == "hitsound_file":
        return st.sampled_from(["", "", "a.wav", "b.wav"])
    if field == "kiai":
        return st.booleans()
    if field == "keysounds":
        return st.sampled_from([[], [], [{"Sample": 1, "Volume": 100}]])
    if field == "sample":
        return st.sampled_from(["", "a.wav", "b.wav", "c.ogg"])
    if field == "metronome":
        return st.sampled_from([4.0, 4.0, 4.0, 3.0, 5.0, 7.0])
    if field == "bpm":
        return bpm_st
    if field == "multiplier":
        return mult_st
    raise KeyError(field)


@st.composite
def st_rows(draw, game: str, name: str, keys: int, max_rows: int, pool: List[float], min_rows: int = 0):
    flds = fields(game, name)
    n = draw(st.integers(min_rows, max_rows))
    out = []
    for _ in range(n):
        row = {}
        for f in flds:
            if f == "offset":
                row[f] = draw(st.sampled_from(pool))
            elif f == "column":
                row[f] = draw(st.integers(0, keys - 1))
            elif f == "length":
                row[f] = draw(st.one_of(st.sampled_from([125.0, 250.0, 500.0]), st.floats(0.5, 5000.0, allow_nan=False).map(lambda x: round(x, 3))))
            else:
                row[f] = draw(_extra_field_st(game, name, f))
        out.append(row)
    return out


_text = st.text(alphabet="abcXYZ 019_-", min_size=0, max_size=8)


@st.composite
def st_meta(draw, game: str, keys: int):
    if game == "osu":
        return dict(
            title=draw(_text),
            artist=draw(_text),
            creator=draw(_text),
            version=draw(_text),
            circle_size=float(keys),
            preview_time=draw(st.integers(-1, 100000)),
            audio_file_name=draw(st.sampled_from(["audio.mp3", "a.ogg"])),
            tags=draw(st.lists(st.sampled_from(["a", "bb", "c1"]), max_size=3)),
            samples=draw(
                st.lists(
                    st.fixed_dictionaries(
                        dict(offset=st.integers(0, 100000).map(float), sample_file=st.sampled_from(["s.wav", "t.wav"]), volume=st.integers(0, 100))
                    ),
                    max_size=3,
                )
            ),
        )
    if game == "qua":
        return dict(
            title=draw(_text),
            artist=draw(_text),
            creator=draw(_text),
            difficulty_name=draw(_text),
            mode="Keys%d" % keys,
            song_preview_time=draw(st.integers(0, 100000)),
            audio_file="audio.mp3",
            tags=draw(st.lists(st.sampled_from(["a", "bb"]), max_size=2)),
        )
    if game == "sm":
        ct = {4: "dance-single", 6: "dance-solo", 8: "dance-double"}[keys]
        return dict(chart_type=ct, description=draw(_text), difficulty=draw(st.sampled_from(["Easy", "Hard", "Challenge"])), difficulty_val=draw(st.integers(1, 20)))
    if game == "bms":
        return dict(title=draw(_text), artist=draw(_text), version=draw(st.sampled_from(["1", "7", "12"])), samples={"01": "a.wav", "02": "b.wav"})
    return {}


@st.composite
def st_chart(draw, game: str, tier: str = "quick", *, min_bpms: int = 1, max_rows: int = None, empty_ok: bool = True, keys: int = None):
    """One Map of `game` as plain data. Some lists are left empty on purpose."""
    max_rows = max_rows or (24 if tier == "thorough" else 8)
    keys = keys or draw(st.sampled_from(KEYS[game]))
    pool = draw(_offset_pool(max(3, max_rows // 2)))
    lists = {}
    for name in list_names(game):
        if name == "bpms":
            lists[name] = draw(st_rows(game, name, keys, max(1, min(6, max_rows)), pool, min_rows=min_bpms))
        elif name == "stops":
            lists[name] = []
        else:
            cap = max_rows if name in ("hits", "holds") else max(1, max_rows // 3)
            if empty_ok and draw(st.integers(0, 4)) == 0:
                lists[name] = []
            else:
                lists[name] = draw(st_rows(game, name, keys, cap, pool))
    return dict(game=game, keys=keys, lists=lists, meta=draw(st_meta(game, keys)))


@st.composite
def st_mapset(draw, game: str, tier: str = "quick", **kw):
    n = draw(st.integers(1, 3))
    keys = kw.pop("keys", None) or draw(st.sampled_from(KEYS[game]))
    maps = [draw(st_chart(game, tier, keys=keys, **kw)) for _ in range(n)]
    if game == "sm":
        meta = dict(
            title=draw(_text),
            artist=draw(_text),
            credit=draw(_text),
            music="a.ogg",
            offset=draw(st.sampled_from([0.0, 100.0, -250.0, 1234.5])),
            sample_start=float(draw(st.integers(0, 60000))),
            sample_length=float(draw(st.integers(1000, 20000))),
            selectable=draw(st.booleans()),
        )
    else:
        meta = dict(title=draw(_text), artist=draw(_text), creator=draw(_text), bpm=draw(_nice_bpm), level=[draw(st.integers(1, 30)) for _ in range(3)] + [0])
    return dict(game=game, keys=keys, maps=maps, meta=meta)


def st_any(tier: str = "quick", games_=None, **kw):
    """A single Map of any game (not a mapset)."""
    gs = games_ or games()
    return st.sampled_from(gs).flatmap(lambda g: st_chart(g, tier, **kw))


def st_any_container(tier: str = "quick", **kw):
    """Map for osu/qua/bms, MapSet for sm/o2j."""
    return st.one_of(
        st_chart("osu", tier, **kw), st_chart("qua", tier, **kw), st_chart("bms", tier, **kw), st_mapset("sm", tier, **kw), st_mapset("o2j", tier, **kw)
    )


# ---------------------------------------------------------------------------
# building reamber objects
# ---------------------------------------------------------------------------
def _enc(v):
    return v.encode("latin-1") if isinstance(v, str) else v


def _item_kwargs(game, name, row):
    kw = dict(row)
    if game == "bms" and "sample" in kw:
        kw["sample"] = _enc(kw["sample"])
    if "keysounds" in kw:
        kw["keysounds"] = [dict(k) for k in kw["keysounds"]]
    return kw


def build_list(game: str, name: str, rows_: List[dict]):
    lc, ic = list_class(game, name), item_class(game, name)
    return lc([ic(**_item_kwargs(game, name, r)) for r in rows_])


def build(obj: dict):
    if "maps" in obj:
        ms = mapset_class(obj["game"])()
        ms.maps = [build(c) for c in obj["maps"]]
        for k, v in obj.get("meta", {}).items():
            setattr(ms, k, v)
        return ms
    game = obj["game"]
    m = map_class(game)()
    for name, rows_ in obj["lists"].items():
        setattr(m, name, build_list(game, name, rows_))
    for k, v in obj.get("meta", {}).items():
        if game == "osu" and k == "samples":
            from reamber.osu.OsuSample import OsuSample
            from reamber.osu.lists.OsuSampleList import OsuSampleList

            m.samples = OsuSampleList([OsuSample(**s) for s in v])
        elif game == "bms" and k in ("title", "artist", "version"):
            setattr(m, k, _enc(v))
        elif game == "bms" and k == "samples":
            m.samples = {_enc(a): _enc(b) for a, b in v.items()}
        else:
            setattr(m, k, v)
    return m


# ---------------------------------------------------------------------------
# views
# ---------------------------------------------------------------------------
def _py(v):
    """numpy / pandas scalar -> python value, by meaning."""
    import numpy as np

    if isinstance(v, (bytes, bytearray)):
        return bytes(v).decode("latin-1")
    if isinstance(v, (np.bool_,)):
        return bool(v)
    if isinstance(v, np.integer):
        return int(v)
    if isinstance(v, np.floating):
        return float(v)
    if isinstance(v, (list, tuple)):
        return [_py(x) for x in v]
    if isinstance(v, dict):
        return {str(_py(k)): _py(x) for k, x in v.items()}
    return v


def rows(tl) -> List[dict]:
    df = tl.df
    cols = list(df.columns)
    return [{c: _py(v) for c, v in zip(cols, rec)} for rec in df.itertuples(index=False, name=None)]


def same_value(a, b, rel=1e-9) -> bool:
    """By-meaning equality: ints/floats/bools compared numerically, NaN == NaN."""
    if isinstance(a, bool) or isinstance(b, bool):
        if isinstance(a, (int, float, bool)) and isinstance(b, (int, float, bool)):
            return float(a) == float(b)
    if isinstance(a, (int, float)) and isinstance(b, (int, float)):
        fa, fb = float(a), float(b)
        if math.isnan(fa) or math.isnan(fb):
            return math.isnan(fa) and math.isnan(fb)
        return fa == fb or abs(fa - fb) <= rel * max(abs(fa), abs(fb))
    if isinstance(a, (list, tuple)) and isinstance(b, (list, tuple)):
        return len(a) == len(b) and all(same_value(x, y, rel) for x, y in zip(a, b))
    if isinstance(a, dict) and isinstance(b, dict):
        return a.keys() == b.keys() and all(same_value(a[k], b[k], rel) for k in a)
    return a == b


def meta_of(obj) -> dict:
    """dataclass metadata fields (not the lists / maps) by meaning."""
    out = {}
    for f in dataclasses.fields(obj):
        if f.name in ("objs", "maps"):
            continue
        v = getattr(obj, f.name)
        if hasattr(v, "df"):
            v = {"__list__": type(v).__name__, "rows": rows(v)}
        out[f.name] = _py(v)
    return out


def content(obj) -> dict:
    if hasattr(obj, "maps"):
        return dict(kind=type(obj).__name__, meta=meta_of(obj), maps=[content(m) for m in obj.maps])
    return dict(kind=type(obj).__name__, meta=meta_of(obj), lists={k: rows(v) for k, v in obj.objs.items()})


def _cell(v):
    import numpy as np

    if isinstance(v, float) or isinstance(v, np.floating):
        f = float(v)
        return "nan" if math.isnan(f) else repr(f)
    if isinstance(v, (np.integer,)):
        return int(v)
    if isinstance(v, np.bool_):
        return bool(v)
    if isinstance(v, (bytes, bytearray)):
        return "b:" + bytes(v).decode("latin-1")
    if isinstance(v, (list, tuple)):
        return [_cell(x) for x in v]
    if isinstance(v, dict):
        return {str(k): _cell(x) for k, x in v.items()}
    return v


def snapshot_list(tl) -> dict:
    df = tl.df
    return dict(
        cls=type(tl).__name__,
        columns=[str(c) for c in df.columns],
        dtypes=[str(t) for t in df.dtypes],
        index=[_cell(i) for i in df.index],
        cells=[[_cell(v) for v in rec] for rec in df.itertuples(index=False, name=None)],
    )


def snapshot(obj) -> dict:
    """Strict snapshot: values, columns, dtypes, row labels, metadata."""
    if hasattr(obj, "maps"):
        return dict(kind=type(obj).__name__, meta=_snap_meta(obj), maps=[snapshot(m) for m in obj.maps])
    if hasattr(obj, "objs"):
        return dict(kind=type(obj).__name__, meta=_snap_meta(obj), lists={k: snapshot_list(v) for k, v in obj.objs.items()})
    if hasattr(obj, "df"):
        return snapshot_list(obj)
    raise TypeError(type(obj))


def _snap_meta(obj) -> dict:
    out = {}
    for f in dataclasses.fields(obj):
        if f.name in ("objs", "maps"):
            continue
        v = getattr(obj, f.name)
        out[f.name] = snapshot_list(v) if hasattr(v, "df") else _cell(v)
    return out
