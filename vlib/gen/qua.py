"""Quaver generators: plain-data charts, .qua renderer, in-memory builder, snapshot.

The *chart* is the plain-data shape documented in ``vlib/ref/qua.py`` (times in ms)::

    {"keys": 4|7|8|None,
     "hits":  [{"offset", "column", "keysounds"}, ...],
     "holds": [{"offset", "column", "length", "keysounds"}, ...],
     "bpms":  [{"offset", "bpm"}, ...],            # bpm None  = key omitted in the document
     "svs":   [{"offset", "multiplier"}, ...],     # multiplier None = key omitted
     "meta":  {<YAML key>: value, ...}}            # "Tags" is a list of tokens

plus optional *hints* that do not change the meaning and are removed by :func:`canonical`:
``item["_r"] = {"keys": [emitted keys in order], "flow": bool}``, ``chart["style"]`` (document
layout, see :func:`render`), ``chart["build"]`` (how :func:`build` constructs the lists).

Public API (everything is JSON-able plain data in / out, except QuaMap objects):

    chart_strategy(tier, **opts) -> Hypothesis strategy of charts (with hints)
    canonical(chart) -> chart without hints             (what the document / object denotes)
    render(chart) -> str                                .qua YAML text; honours the hints
    build(chart) -> QuaMap                              via public constructors; honours chart["build"]
    snapshot(QuaMap) -> chart                           what an in-memory chart holds
    needs_quoting(s) -> bool                            would the plain YAML scalar not load as s?

Guarantees of the generated charts (relied on by ``ref.qua.chart_diff``): within one list two
entries are either identical copies or their times are >= 2 ms apart (notes: per column, the
gap is measured from the previous note's tail); holds have a tail time > 0 and length >= 1 ms
in documents; a document omits ``StartTime`` only at time 0 and ``KeySounds`` only when empty.
Only reamber-free code runs at import; ``build``/``snapshot`` import reamber lazily.
"""
from __future__ import annotations

import json
import unicodedata
from typing import Any, Dict, List, Optional

import yaml
from hypothesis import strategies as st

from vlib.ref.qua import KEYS_MODE, META_KEYS, SECTIONS

# YAML key -> (QuaMap attribute, kind)
META_ATTR = {
    "AudioFile": ("audio_file", "str"),
    "SongPreviewTime": ("song_preview_time", "int"),
    "BackgroundFile": ("background_file", "str"),
    "BannerFile": ("banner_file", "str"),
    "Genre": ("genre", "str"),
    "BPMDoesNotAffectScrollVelocity": ("bpm_does_not_affect_scroll_velocity", "bool"),
    "InitialScrollVelocity": ("initial_scroll_velocity", "float"),
    "HasScratchKey": ("has_scratch_key", "bool"),
    "MapId": ("map_id", "int"),
    "MapSetId": ("map_set_id", "int"),
    "Mode": ("mode", "mode"),
    "Title": ("title", "str"),
    "Artist": ("artist", "str"),
    "Source": ("source", "str"),
    "Tags": ("tags", "tags"),
    "Creator": ("creator", "str"),
    "DifficultyName": ("difficulty_name", "str"),
    "Description": ("description", "str"),
    "EditorLayers": ("editor_layers", "list"),
    "CustomAudioSamples": ("custom_audio_samples", "list"),
    "SoundEffects": ("sound_effects", "list"),
}
assert tuple(META_ATTR) == META_KEYS
STRING_KEYS = tuple(k for k, (_, kind) in META_ATTR.items() if kind == "str")

# strings that a YAML writer must quote (or that are simply awkward)
SPECIAL_STRINGS = [
    "yes", "no", "on", "Off", "true", "False", "null", "Null", "~", "123", "-7", "0x1F", "0o17", "017", "1_000",
    "1.5", "1e3", "1.0e+3", ".5", ".inf", "-.INF", ".nan", "12:30", "1:2:3", "2001-12-14", "2001-12-14 21:59:43.10 -5",
    "a: b", "a:b", "a :b", "key:", ": x", "#x", "a #b", "a#b", "- y", "-", "- ", "-x", "? x", "?", "[x]", "{x}", "[", "]",
    "{", "}", ",", "a, b", "&a", "*a", "!t", "!!str x", "|", ">", "|-", "%x", "@x", "`x", "'", "''", '"', '""', "it's \"q\"",
    "'q'", '"q"', " lead", "trail ", "  ", " ", "", "a  b", "日本語", "ñandú", "🎵 song", "é", "Ω≈ç√", "multi\nline",
    "nl\n", "\nnl", "tab\there", "\tx", "back\\slash", "\\n", "---", "--- x", "...", "<<", "=", "a b", "a\u0085b",
    "﻿bom", "\x07bell", "\x7f", "\x00", "cr\rlf\r\n", " nbsp", "​zw", "\U0001F600", "a" * 130, "x " * 60,
]
WORDS = ["song", "Artist Name", "v1.2", "Hard", "audio.mp3", "bg.jpg", "A-Z", "map (remix)", "feat. X", "x_y", "100%"]


# --------------------------------------------------------------------------- #
# YAML text for scalars
# --------------------------------------------------------------------------- #
def needs_quoting(s: str) -> bool:
    """True when ``s`` written as a plain YAML scalar would not load back as the string ``s``
    (decided with the trusted loader)."""
    if "\n" in s or "\r" in s:
        return True
    try:
        return yaml.safe_load("K: " + s + "\n") != {"K": s}
    except Exception:  # noqa: BLE001 - any YAML error means "cannot be plain"
        return True


def _printable(c: str) -> bool:
    o = ord(c)
    if 0x20 <= o <= 0x7E:
        return True
    if o < 0xA0 or o in (0x2028, 0x2029, 0xFEFF) or 0xD800 <= o <= 0xDFFF or o >= 0xFFFE and o <= 0xFFFF:
        return False
    return unicodedata.category(c)[0] not in "ZC"


def _double(s: str) -> str:
    out = ['"']
    for c in s:
        o = ord(c)
        if c == "\\":
            out.append("\\\\")
        elif c == '"':
            out.append('\\"')
        elif _printable(c):
            out.append(c)
        elif c == "\n":
            out.append("\\n")
        elif c == "\t":
            out.append("\\t")
        elif o <= 0xFF:
            out.append("\\x%02x" % o)
        elif o <= 0xFFFF:
            out.append("\\u%04x" % o)
        else:
            out.append("\\U%08x" % o)
    out.append('"')
    return "".join(out)


def _str(s: str, style: str = "auto") -> str:
    """YAML text of a string in block context.  style: auto|plain|single|double; a style that
    cannot represent the string falls back to double quotes."""
    if style in ("auto", "plain") and not needs_quoting(s):
        return s
    if style == "single" and all(_printable(c) for c in s):
        return "'" + s.replace("'", "''") + "'"
    return _double(s)


def _float(x: float) -> str:
    r = repr(float(x))
    if "e" in r and "." not in r:  # YAML 1.1 floats need a dot: 1e+22 -> 1.0e+22
        r = r.replace("e", ".0e", 1)
    if "inf" in r or "nan" in r:
        raise ValueError("non-finite number in a chart")
    return r


def _scalar(v, style: str = "auto") -> str:
    if v is None:
        return "null"
    if isinstance(v, bool):
        return "true" if v else "false"
    if isinstance(v, int):
        return str(v)
    if isinstance(v, float):
        return _float(v)
    if isinstance(v, str):
        return _str(v, style)
    raise TypeError(f"not a scalar: {v!r}")


def _flow(v) -> str:
    """Flow-style (JSON-like) YAML; strings always double quoted."""
    if isinstance(v, dict):
        return "{" + ", ".join(f"{k}: {_flow(x)}" for k, x in v.items()) + "}"
    if isinstance(v, (list, tuple)):
        return "[" + ", ".join(_flow(x) for x in v) + "]"
    if isinstance(v, str):
        return _double(v)
    return _scalar(v)


def _is_scalar(v) -> bool:
    return v is None or isinstance(v, (bool, int, float, str))


def _entry(k: str, v, ind: int, seq_ind: int, flow: bool, style: str = "auto") -> List[str]:
    pad = " " * ind
    if _is_scalar(v):
        return [f"{pad}{k}: {_scalar(v, style)}"]
    if not v:
        return [f"{pad}{k}: " + ("[]" if isinstance(v, (list, tuple)) else "{}")]
    if flow:
        return [f"{pad}{k}: {_flow(v)}"]
    if isinstance(v, dict):
        return [f"{pad}{k}:"] + _map(v, ind + 2, seq_ind, False)
    return [f"{pad}{k}:"] + _seq(v, ind + seq_ind, seq_ind, [False] * len(v))


def _map(d: dict, ind: int, seq_ind: int, flow: bool) -> List[str]:
    out: List[str] = []
    for k, v in d.items():
        out += _entry(k, v, ind, seq_ind, flow)
    return out


def _seq(items: list, ind: int, seq_ind: int, flows: List[bool]) -> List[str]:
    pad = " " * ind
    out: List[str] = []
    for it, fl in zip(items, flows):
        if _is_scalar(it):
            out.append(f"{pad}- {_scalar(it)}")
        elif fl or not it or not isinstance(it, dict):
            out.append(f"{pad}- {_flow(it)}")
        else:
            body = _map(it, ind + 2, seq_ind, False)
            out.append(f"{pad}- {body[0][ind + 2:]}")
            out += body[1:]
    return out


# --------------------------------------------------------------------------- #
# chart -> text
# --------------------------------------------------------------------------- #
def canonical(chart: dict) -> dict:
    """The chart without rendering / building hints (what the text or object denotes)."""

    def items(name):
        return [{k: v for k, v in it.items() if k != "_r"} for it in chart.get(name, [])]

    return {
        "keys": chart.get("keys"),
        "hits": items("hits"),
        "holds": items("holds"),
        "bpms": items("bpms"),
        "svs": items("svs"),
        "meta": dict(chart.get("meta", {})),
    }


def _ordered(full: dict, want: Optional[List[str]], optional: Dict[str, bool]) -> dict:
    """Mapping to emit for one item.  ``want`` = keys in order (hint) or None = all keys;
    ``optional[k]`` tells whether k may be left out for this item."""
    if want is None:
        return {k: v for k, v in full.items() if v is not None}
    for k in full:
        if k not in want and not optional.get(k, False):
            raise ValueError(f"render hint omits {k} although the item needs it: {full!r}")
    for k in want:
        if k not in full or full[k] is None:
            raise ValueError(f"render hint emits {k} which the item does not have: {full!r}")
    return {k: full[k] for k in want}


def _end(n: dict):
    return n["offset"] + n["length"]


def render(chart: dict) -> str:
    """Plain-data chart -> ``.qua`` YAML text.

    Without hints: all sections and keys are written (``StartTime``, ``KeySounds`` always;
    ``Bpm``/``Multiplier`` unless ``None``), metadata in format order, hits before holds,
    ``Mode`` added from ``chart["keys"]`` when the metadata does not carry one.

    Hints: ``item["_r"]["keys"]`` = keys to emit, in that order (may leave out ``StartTime``
    at time 0, ``KeySounds`` when empty); ``item["_r"]["flow"]`` = ``{...}`` one-line item.
    ``chart["style"]``: ``order`` (top-level key order), ``merge`` (string of ``h``/``l``:
    interleaving of hits and holds in ``HitObjects``), ``seq_indent`` 0|2, ``eol``,
    ``docstart``, ``comments``, ``quote`` {meta key: plain|single|double},
    ``tags_sep``, ``nested_flow`` (metadata lists as flow), ``final_newline``.
    Raises ValueError for inconsistent hints.  ``ref.qua.parse(render(c)) == canonical(c)``.
    """
    style = chart.get("style", {})
    seq_ind = int(style.get("seq_indent", 0))
    quote = style.get("quote", {})
    meta = dict(chart.get("meta", {}))
    if "Mode" not in meta and chart.get("keys") is not None:
        meta["Mode"] = KEYS_MODE[chart["keys"]]

    # --- sections as lists of (mapping, flow) --------------------------------
    def hit_map(n):
        full = {"StartTime": n["offset"], "Lane": n["column"] + 1, "KeySounds": n["keysounds"]}
        opt = {"StartTime": n["offset"] == 0, "KeySounds": n["keysounds"] == []}
        if "length" in n:
            full["EndTime"] = _end(n)
        return _ordered(full, n.get("_r", {}).get("keys"), opt), bool(n.get("_r", {}).get("flow"))

    hits = [hit_map(n) for n in chart.get("hits", [])]
    holds = [hit_map(n) for n in chart.get("holds", [])]
    merge = style.get("merge")
    if merge is None:
        merge = "h" * len(hits) + "l" * len(holds)
    if merge.count("h") != len(hits) or merge.count("l") != len(holds):
        raise ValueError("style.merge does not match the number of hits/holds")
    ih, il = iter(hits), iter(holds)
    objects = [next(ih) if c == "h" else next(il) for c in merge]

    def point_map(p, ykey, field):
        full = {"StartTime": p["offset"], ykey: p[field]}
        opt = {"StartTime": p["offset"] == 0, ykey: p[field] is None}
        want = p.get("_r", {}).get("keys")
        if want is None and p[field] is None:
            want = ["StartTime"]
        return _ordered(full, want, opt), bool(p.get("_r", {}).get("flow"))

    sections = {
        "HitObjects": objects,
        "TimingPoints": [point_map(p, "Bpm", "bpm") for p in chart.get("bpms", [])],
        "SliderVelocities": [point_map(p, "Multiplier", "multiplier") for p in chart.get("svs", [])],
    }

    # --- top level -----------------------------------------------------------
    default_order = [k for k in META_KEYS if k in meta] + [k for k in meta if k not in META_KEYS] + list(SECTIONS)
    order = style.get("order") or default_order
    if sorted(order) != sorted(default_order):
        raise ValueError("style.order must be a permutation of the metadata keys present + the three sections")
    lines: List[str] = []
    if style.get("docstart"):
        lines.append("---")
    for i, k in enumerate(order):
        if style.get("comments") and i % 3 == 1:
            lines.append(f"# {k} follows: not a key")
            lines.append("")
        if k in sections:
            items = sections[k]
            if not items:
                lines.append(f"{k}: []")
                continue
            lines.append(f"{k}:")
            lines += _seq([m for m, _ in items], seq_ind, seq_ind, [f or not m for m, f in items])
        elif k == "Tags" and isinstance(meta[k], list):
            lines.append(f"Tags: {_str(style.get('tags_sep', ' ').join(meta[k]), quote.get(k, 'auto'))}")
        else:
            lines += _entry(k, meta[k], 0, seq_ind, bool(style.get("nested_flow")), quote.get(k, "auto"))
    eol = style.get("eol", "\n")
    text = eol.join(lines)
    return text + eol if style.get("final_newline", True) else text


# --------------------------------------------------------------------------- #
# strategies
# --------------------------------------------------------------------------- #
_text_chars = st.characters(codec="utf-8", exclude_categories=["Cs"])
meta_text = st.one_of(
    st.sampled_from(SPECIAL_STRINGS),
    st.sampled_from(WORDS),
    st.text(alphabet="ab XY01-_.:#'\"!&*?|>%@`,[]{}~=\\/", max_size=10),
    st.text(alphabet=_text_chars, max_size=10),
)
_tag_chars = st.characters(codec="utf-8", categories=["L", "N", "P", "S"])
tag_token = st.one_of(
    st.sampled_from(["a", "tag", "123", "yes", "null", "#x", "a:b", "-", "日本", "é", "'", '"', "1.5", "[x]", "~"]),
    # tags are separated at the ASCII space only: other white space may sit inside a tag
    st.sampled_from(["東方\u3000アレンジ", "ＢＭＳ\u00a0remix", "x\u2003y"]),
    st.text(alphabet=_tag_chars, min_size=1, max_size=6),
)
keysounds_st = st.one_of(
    st.just([]),
    st.just([]),
    st.lists(
        st.fixed_dictionaries({"Sample": st.integers(1, 12), "Volume": st.integers(0, 100)}), min_size=1, max_size=2
    ),
)
bpm_value = st.one_of(
    st.sampled_from([120, 120.0, 175.0, 133.33, 60, 222.222, 90.5]),
    st.integers(1, 1000),
    st.floats(0.01, 1e5, allow_nan=False, allow_infinity=False),
    st.sampled_from([0.0, -120.0, 0.001, 1e7]),
)
sv_value = st.one_of(
    st.sampled_from([1.0, 0.5, 2, 1.01999998, 0, 0.0, -1.0, 1e-05, 10000.0, 1]),
    st.floats(-1e4, 1e4, allow_nan=False, allow_infinity=False),
)
_gap = st.one_of(st.sampled_from([2, 3, 10, 125, 250, 500, 1000]), st.integers(2, 5000))
_dyadic = st.sampled_from([0.0, 0.5, 0.25, 0.125, 0.875])
_anyfrac = st.one_of(
    st.sampled_from([0.0, 0.5, 0.999999, 0.000001, 0.49999, 0.9]), st.floats(0, 1, exclude_max=True, allow_nan=False)
)


def _frac(draw, mode: str):
    if mode == "int":
        return 0
    return draw(_dyadic if mode == "dyadic" else _anyfrac)


@st.composite
def _meta_value(draw, key: str, keys: Optional[int]):
    kind = META_ATTR[key][1]
    if kind == "str":
        return draw(meta_text)
    if kind == "int":
        return draw(st.one_of(st.sampled_from([-1, 0, 1]), st.integers(-1, 10**7)))
    if kind == "bool":
        return draw(st.booleans())
    if kind == "float":
        return draw(st.one_of(st.sampled_from([1.0, 0, 2.5]), st.floats(0, 100, allow_nan=False)))
    if kind == "mode":
        return KEYS_MODE[keys]
    if kind == "tags":
        return draw(st.lists(tag_token, max_size=4))
    if key == "EditorLayers":
        item = st.fixed_dictionaries(
            {"Name": meta_text, "Hidden": st.booleans(), "ColorRgb": st.sampled_from(["255,255,255", "0,128,7"])}
        )
    elif key == "CustomAudioSamples":
        item = st.fixed_dictionaries({"Path": meta_text, "UnaffectedByRate": st.booleans()})
    else:
        item = st.fixed_dictionaries(
            {"StartTime": st.integers(0, 10**5), "Sample": st.integers(1, 9), "Volume": st.integers(0, 100)}
        )
    return draw(st.lists(item, max_size=2))


def _walk_points(draw, n: int, frac_mode: str, value_st, field: str, allow_none: bool, big: bool):
    out = []
    t = draw(st.one_of(st.sampled_from([0, 0, 0, -500, 100, 1000]), st.integers(-2000, 10**7 if big else 10**5)))
    if t != 0:
        t = t + _frac(draw, frac_mode)
    for _ in range(n):
        v = None if (allow_none and draw(st.integers(0, 5)) == 0) else draw(value_st)
        out.append({"offset": t, field: v})
        t = t + draw(_gap) + _frac(draw, frac_mode)
    return out


@st.composite
def chart_strategy(
    draw,
    tier: str = "quick",
    *,
    document: bool = True,
    keys: Optional[int] = None,
    kinds: Optional[str] = None,
    times: Optional[str] = None,
    max_notes: Optional[int] = None,
    max_points: Optional[int] = None,
    meta: str = "rich",
    omit: bool = True,
    layout: bool = True,
    duplicates: bool = True,
    default_rows: bool = True,
):
    """Plain-data Quaver charts.

    tier        "quick" (<= 24 notes, <= 5 timing points / 6 SVs) or "thorough" (<= 120 / 40 / 60)
    document    True: a chart to be *rendered* – carries hints that exercise the freedom of the
                format (omitted StartTime at time 0, omitted KeySounds, omitted Bpm/Multiplier
                (value None), omitted metadata keys incl. occasionally Mode (then keys=None),
                key order, flow items, section order, quoting styles, CRLF, comments ...).
                False: a chart to be *built* in memory – no None values, every note has all
                fields, ``chart["build"]`` says how (constructors / empty(n) rows / DataFrame),
                metadata never contains "Mode" (the builder derives it from ``keys``).
    keys        fix the key count (4, 7, 8); default drawn
    kinds       "both" | "hits" | "holds" | "none"; default drawn (all four occur)
    times       "int" | "dyadic" (multiples of 1/8 ms) | "any" (arbitrary float ms); default:
                drawn from int/dyadic for documents (text round-trips exactly), int/any in memory
    max_notes, max_points   size caps
    meta        "rich" (strings needing quoting, unicode, nested lists) | "plain" | "none"
    omit        allow omitted keys (documents only)
    layout      allow layout variation (documents only); False = canonical layout
    duplicates  allow identical copies of an entry inside a list
    default_rows  in-memory only: sometimes all-default charts built from ``empty(n)``
    Lists are shuffled (unsorted) on purpose.
    """
    big = tier == "thorough"
    k = keys or draw(st.sampled_from([4, 7, 8]))
    lanes = k + 1 if (k < 8 and draw(st.integers(0, 9)) == 0) else k  # 7K+1 style scratch lane
    if not document and default_rows and draw(st.integers(0, 9)) == 0:
        return _default_rows_chart(draw, k)
    kinds = kinds or draw(st.sampled_from(["both", "both", "both", "hits", "holds", "none"]))
    note_mode = times or draw(st.sampled_from(["int", "int", "int", "dyadic"] if document else ["int", "any", "any"]))
    point_mode = times or draw(st.sampled_from(["int", "dyadic"] if document else ["int", "any", "any"]))

    # ---- notes: walk forward in each column --------------------------------
    cap = max_notes if max_notes is not None else (120 if big else 24)
    n = 0 if kinds == "none" else draw(st.integers(0 if kinds == "both" else 1, cap))
    # "chord0": at most one note per column, all at time 0 (every StartTime can be omitted)
    chord0 = kinds != "none" and draw(st.integers(0, 5)) == 0
    ks_all_empty = draw(st.integers(0, 2)) == 0
    per_col: Dict[int, int] = {}
    if chord0:
        per_col = {c: 1 for c in list(draw(st.permutations(list(range(lanes)))))[: max(1, min(n, lanes))]}
    else:
        for _ in range(n):
            c = draw(st.integers(0, lanes - 1))
            per_col[c] = per_col.get(c, 0) + 1
    hits: List[dict] = []
    holds: List[dict] = []
    for c in sorted(per_col):
        t = 0 if chord0 else draw(
            st.one_of(st.sampled_from([0, 0, 0, 1, 5, 1000, -500]), st.integers(-2000, 10**7 if big else 10**5))
        )
        if t != 0:
            t = t + _frac(draw, note_mode)
        for _ in range(per_col[c]):
            ks = [] if ks_all_empty else draw(keysounds_st)
            is_hold = kinds == "holds" or (kinds == "both" and draw(st.integers(0, 2)) == 0)
            if is_hold:
                length = draw(st.one_of(st.sampled_from([1, 2, 100, 250]), st.integers(1, 3000)))
                if document:
                    length = length + _frac(draw, note_mode)
                    if t + length <= 0:
                        length = length - t  # tail strictly after time 0 (EndTime > 0)
                else:
                    length = draw(st.sampled_from([0, length, length])) + _frac(draw, note_mode)
                holds.append({"offset": t, "column": c, "length": length, "keysounds": ks})
                t = t + length
            else:
                hits.append({"offset": t, "column": c, "keysounds": ks})
            t = t + draw(_gap) + _frac(draw, note_mode)

    # ---- timing points / svs -------------------------------------------------
    pcap = max_points if max_points is not None else (40 if big else 5)
    allow_none = document and omit
    bpms = _walk_points(draw, draw(st.integers(0, pcap)), point_mode, bpm_value, "bpm", allow_none, big)
    svs = _walk_points(draw, draw(st.integers(0, pcap + 1 if not big else 60)), point_mode, sv_value, "multiplier", allow_none, big)

    if duplicates:
        for lst in (hits, bpms, svs):
            if lst and draw(st.integers(0, 7)) == 0:
                src = lst[draw(st.integers(0, len(lst) - 1))]
                lst.append(json.loads(json.dumps(src)))
    hits = list(draw(st.permutations(hits)))
    holds = list(draw(st.permutations(holds)))
    bpms = list(draw(st.permutations(bpms)))
    svs = list(draw(st.permutations(svs)))

    # ---- metadata ------------------------------------------------------------
    md: Dict[str, Any] = {}
    if meta != "none":
        for key in META_KEYS:
            if key == "Mode":
                if document and (not omit or draw(st.integers(0, 11)) != 0):
                    md[key] = KEYS_MODE[k]
                continue
            present = draw(st.integers(0, 3)) != 0 if (omit or not document) else True
            if not present:
                continue
            if meta == "plain":
                kind = META_ATTR[key][1]
                md[key] = {"str": "x", "int": 1, "bool": False, "float": 1.5, "tags": ["a", "b"], "list": []}[kind]
            else:
                md[key] = draw(_meta_value(key, k))
    elif document:
        md["Mode"] = KEYS_MODE[k]
    chart: Dict[str, Any] = {
        "keys": k if (not document or "Mode" in md) else None,
        "hits": hits,
        "holds": holds,
        "bpms": bpms,
        "svs": svs,
        "meta": md,
    }
    if document:
        _add_document_hints(draw, chart, omit, layout)
    else:
        chart["build"] = {
            "hits": draw(st.sampled_from(["ctor", "ctor", "empty", "df"])),
            "holds": draw(st.sampled_from(["ctor", "ctor", "empty", "df"])),
            "bpms": draw(st.sampled_from(["ctor", "ctor", "empty", "df"])),
            "svs": draw(st.sampled_from(["ctor", "ctor", "empty", "df"])),
            "meta": draw(st.sampled_from(["ctor", "attrs"])),
        }
    return chart


def _default_rows_chart(draw, k: int) -> dict:
    """In-memory chart made only of ``XList.empty(n)`` default rows (documented defaults:
    offset 0, column 0, keysounds [], length 0, bpm 0, multiplier 1)."""
    cnt = st.integers(0, 3)
    return {
        "keys": k,
        "hits": [{"offset": 0, "column": 0, "keysounds": []} for _ in range(draw(cnt))],
        "holds": [{"offset": 0, "column": 0, "length": 0, "keysounds": []} for _ in range(draw(cnt))],
        "bpms": [{"offset": 0, "bpm": 0} for _ in range(draw(cnt))],
        "svs": [{"offset": 0, "multiplier": 1.0} for _ in range(draw(cnt))],
        "meta": {},
        "build": {"hits": "empty", "holds": "empty", "bpms": "empty", "svs": "empty", "meta": "attrs", "default_rows": True},
    }


def _add_document_hints(draw, chart: dict, omit: bool, layout: bool) -> None:
    # one policy per chart and key, so that "all items omit it" is as frequent as "some do"
    def policy():
        return draw(st.sampled_from(["all", "some", "none"])) if omit else "none"

    def decide(pol):
        return pol == "all" or (pol == "some" and draw(st.booleans()))

    pol_start, pol_ks = policy(), policy()
    flow_pol = draw(st.sampled_from(["none", "none", "some", "all"])) if layout else "none"
    reorder = layout and draw(st.booleans())
    for name in ("hits", "holds"):
        for n in chart[name]:
            ks = ["StartTime", "Lane"] + (["EndTime"] if name == "holds" else []) + ["KeySounds"]
            if n["offset"] == 0 and decide(pol_start):
                ks.remove("StartTime")
            if n["keysounds"] == [] and decide(pol_ks):
                ks.remove("KeySounds")
            if reorder:
                ks = list(draw(st.permutations(ks)))
            n["_r"] = {"keys": ks, "flow": decide(flow_pol)}
    for name, ykey, field in (("bpms", "Bpm", "bpm"), ("svs", "Multiplier", "multiplier")):
        pol = policy()
        for p in chart[name]:
            ks = ["StartTime"] + ([ykey] if p[field] is not None else [])
            if p["offset"] == 0 and len(ks) > 0 and decide(pol):
                ks.remove("StartTime")
            if reorder:
                ks = list(draw(st.permutations(ks)))
            p["_r"] = {"keys": ks, "flow": decide(flow_pol)}
    style: Dict[str, Any] = {}
    merge = ["h"] * len(chart["hits"]) + ["l"] * len(chart["holds"])
    style["merge"] = "".join(draw(st.permutations(merge)))
    if layout:
        top = list(chart["meta"]) + list(SECTIONS)
        if draw(st.booleans()):
            top = list(draw(st.permutations(top)))
        style["order"] = top
        style["seq_indent"] = draw(st.sampled_from([0, 0, 2]))
        style["eol"] = draw(st.sampled_from(["\n", "\n", "\n", "\r\n"]))
        style["docstart"] = draw(st.integers(0, 5)) == 0
        style["comments"] = draw(st.integers(0, 5)) == 0
        style["nested_flow"] = draw(st.booleans())
        style["final_newline"] = draw(st.integers(0, 5)) != 0
        style["tags_sep"] = draw(st.sampled_from([" ", " ", "  "]))
        style["quote"] = {
            key: draw(st.sampled_from(["plain", "plain", "single", "double"]))
            for key in chart["meta"]
            if key in STRING_KEYS or key == "Tags"
        }
    chart["style"] = style


# --------------------------------------------------------------------------- #
# plain data <-> in-memory QuaMap
# --------------------------------------------------------------------------- #
_DEFAULTS = {"offset": 0, "column": 0, "keysounds": [], "length": 0, "bpm": 0, "multiplier": 1}


def build(chart: dict, how: Optional[dict] = None):
    """Plain-data chart -> ``QuaMap`` through public constructors only.

    ``how`` (default ``chart["build"]``, default all ``"ctor"``) chooses per list
    ``"ctor"``  ``QuaHitList([QuaHit(offset, column, keysounds), ...])`` in the given order,
    ``"empty"`` ``QuaHitList.empty(n)`` and column assignment through the list properties for
                every field that differs from the documented default row,
    ``"df"``    ``QuaHitList(pd.DataFrame({...}))`` with every column of the item class;
    and for the metadata ``"ctor"`` (``QuaMap(title=..., ...)``) or ``"attrs"`` (assignment).
    ``mode`` is ``meta["Mode"]`` if given, else ``QuaMapMode.get_mode(chart["keys"])`` (what the
    converters do).  ``bpm``/``multiplier`` must not be None.
    """
    import pandas as pd
    from reamber.quaver.QuaBpm import QuaBpm
    from reamber.quaver.QuaHit import QuaHit
    from reamber.quaver.QuaHold import QuaHold
    from reamber.quaver.QuaMap import QuaMap
    from reamber.quaver.QuaMapMeta import QuaMapMode
    from reamber.quaver.QuaSv import QuaSv
    from reamber.quaver.lists.QuaBpmList import QuaBpmList
    from reamber.quaver.lists.QuaSvList import QuaSvList
    from reamber.quaver.lists.notes.QuaHitList import QuaHitList
    from reamber.quaver.lists.notes.QuaHoldList import QuaHoldList

    how = {"hits": "ctor", "holds": "ctor", "bpms": "ctor", "svs": "ctor", "meta": "ctor", **chart.get("build", {}), **(how or {})}
    c = canonical(chart)
    for p in c["bpms"]:
        if p["bpm"] is None:
            raise ValueError("build() needs a bpm for every timing point")
    for p in c["svs"]:
        if p["multiplier"] is None:
            raise ValueError("build() needs a multiplier for every SV")

    def make(name, list_cls, item_cls, fields):
        items = c[name]
        mode = how[name]
        if mode == "ctor":
            return list_cls([item_cls(**{f: _copy(it[f]) for f in fields}) for it in items])
        if mode == "df":
            if not items:
                return list_cls([])
            cols = {}
            for f in fields:
                vals = [_copy(it[f]) for it in items]
                cols[f] = pd.Series(vals, dtype=object) if f == "keysounds" else vals
            if name == "bpms":
                cols["metronome"] = [4.0] * len(items)  # a complete frame: every column of the item class
            return list_cls(pd.DataFrame(cols))
        if mode == "empty":
            lst = list_cls.empty(len(items))
            for f in fields:
                vals = [_copy(it[f]) for it in items]
                if all(v == _DEFAULTS[f] for v in vals):
                    continue  # keep the default row's value
                setattr(lst, f, pd.Series(vals, dtype=object) if f == "keysounds" else vals)
            return lst
        raise ValueError(f"unknown build mode {mode!r}")

    kwargs = {}
    for key, v in c["meta"].items():
        if key not in META_ATTR:
            raise ValueError(f"metadata key {key!r} has no QuaMap attribute")
        kwargs[META_ATTR[key][0]] = _copy(v)
    if "mode" not in kwargs and c["keys"] is not None:
        kwargs["mode"] = QuaMapMode.get_mode(c["keys"])
    if how["meta"] == "ctor":
        m = QuaMap(**kwargs)
    else:
        m = QuaMap()
        for a, v in kwargs.items():
            setattr(m, a, v)
    m.hits = make("hits", QuaHitList, QuaHit, ("offset", "column", "keysounds"))
    m.holds = make("holds", QuaHoldList, QuaHold, ("offset", "column", "length", "keysounds"))
    m.bpms = make("bpms", QuaBpmList, QuaBpm, ("offset", "bpm"))
    m.svs = make("svs", QuaSvList, QuaSv, ("offset", "multiplier"))
    return m


def _copy(v):
    return json.loads(json.dumps(v)) if isinstance(v, (list, dict)) else v


def _py(v):
    """numpy scalar -> python scalar; integral column floats -> int is left to the caller."""
    return v.item() if hasattr(v, "item") and not isinstance(v, (list, dict, str)) else v


def _colnum(v):
    v = _py(v)
    if isinstance(v, float) and v == v and v not in (float("inf"), float("-inf")) and v == int(v):
        return int(v)
    return v


def snapshot(m) -> dict:
    """What an in-memory ``QuaMap`` holds, as a plain-data chart (same shape as
    ``ref.qua.parse``).  Values are passed through as found (a NaN stays a NaN) so that the
    caller's comparison, not this function, decides; rows keep the list order.
    ``keys`` = ``QuaMapMode.get_keys(m.mode)`` (None when reamber answers -1);
    ``meta`` has every QuaMapMeta field under its YAML key, ``Tags`` as the list."""
    from reamber.quaver.QuaMapMeta import QuaMapMode

    def rows(lst, fields):
        cols = [getattr(lst, f).tolist() for f in fields]
        return [dict(zip(fields, vals)) for vals in zip(*cols)]

    hits = [
        {"offset": _py(r["offset"]), "column": _colnum(r["column"]), "keysounds": r["keysounds"]}
        for r in rows(m.hits, ("offset", "column", "keysounds"))
    ]
    holds = [
        {"offset": _py(r["offset"]), "column": _colnum(r["column"]), "length": _py(r["length"]), "keysounds": r["keysounds"]}
        for r in rows(m.holds, ("offset", "column", "length", "keysounds"))
    ]
    bpms = [{"offset": _py(r["offset"]), "bpm": _py(r["bpm"])} for r in rows(m.bpms, ("offset", "bpm"))]
    svs = [{"offset": _py(r["offset"]), "multiplier": _py(r["multiplier"])} for r in rows(m.svs, ("offset", "multiplier"))]
    meta = {}
    for key, (attr, kind) in META_ATTR.items():
        v = getattr(m, attr)
        meta[key] = list(v) if kind in ("tags", "list") and isinstance(v, (list, tuple)) else v
    keys = QuaMapMode.get_keys(m.mode)
    return {"keys": keys if keys != -1 else None, "hits": hits, "holds": holds, "bpms": bpms, "svs": svs, "meta": meta}
