"""Reference interpretation of a Quaver ``.qua`` document, independent of reamber.

A ``.qua`` file is one YAML mapping.  PyYAML ``safe_load`` is the trusted YAML
reader; everything after it (what the loaded mapping *means* as a chart) is
written here from the format description, not from reamber's code:

* ``HitObjects`` – list of mappings ``StartTime`` (ms, default 0), ``Lane``
  (1-based), optional ``EndTime`` (ms; an object that has one is a hold of
  duration ``EndTime - StartTime``), optional ``KeySounds`` (list, default
  ``[]``).
* ``TimingPoints`` – ``StartTime`` (default 0), ``Bpm``.
* ``SliderVelocities`` – ``StartTime`` (default 0), ``Multiplier``.
* every other top-level key is metadata; ``Mode`` (``Keys4``/``Keys7``/``Keys8``)
  gives the key count, ``Tags`` is one string of space separated tags.

The plain-data *chart* produced by :func:`parse` / :func:`interpret` (and by
``vlib.gen.qua.snapshot`` for an in-memory chart)::

    {"keys":  4 | 7 | 8 | None,                      # from Mode (None: absent/unknown)
     "hits":  [{"offset": float, "column": int, "keysounds": list}, ...],
     "holds": [{"offset": float, "column": int, "length": float, "keysounds": list}, ...],
     "bpms":  [{"offset": float, "bpm": float | None}, ...],          # None = key omitted
     "svs":   [{"offset": float, "multiplier": float | None}, ...],   # None = key omitted
     "meta":  {<YAML key>: value, ...}}              # declared keys only; "Tags" -> list[str]

Lists keep document order.  Public API:

    load(text) -> dict                       safe_load + "is a mapping" check
    interpret(doc) -> chart                  meaning of a loaded document
    parse(text) -> chart                     interpret(load(text))
    document_problems(doc, ...) -> [(kind, msg)]   format conformance of a *written* document
    chart_diff(got, exp, time_lt=None, ...) -> [(kind, msg)]   compare two charts by meaning
    same_value(a, b) -> bool                 deep, type-aware equality used for metadata/keysounds
"""
from __future__ import annotations

import json
import math
from typing import Any, Dict, Iterable, List, Optional, Tuple

import yaml

SECTIONS = ("TimingPoints", "SliderVelocities", "HitObjects")

# Metadata keys of the format that reamber's QuaMapMeta models (copied by hand from the
# format / QuaMapMeta._write_meta; kept as a literal so that this module stays independent).
META_KEYS = (
    "AudioFile",
    "SongPreviewTime",
    "BackgroundFile",
    "BannerFile",
    "Genre",
    "BPMDoesNotAffectScrollVelocity",
    "InitialScrollVelocity",
    "HasScratchKey",
    "MapId",
    "MapSetId",
    "Mode",
    "Title",
    "Artist",
    "Source",
    "Tags",
    "Creator",
    "DifficultyName",
    "Description",
    "EditorLayers",
    "CustomAudioSamples",
    "SoundEffects",
)
TOP_LEVEL_KEYS = META_KEYS + SECTIONS
HIT_OBJECT_KEYS = ("StartTime", "Lane", "EndTime", "KeySounds")
TIMING_POINT_KEYS = ("StartTime", "Bpm")
SLIDER_VELOCITY_KEYS = ("StartTime", "Multiplier")

MODE_KEYS = {"Keys4": 4, "Keys7": 7, "Keys8": 8}
KEYS_MODE = {v: k for k, v in MODE_KEYS.items()}


# --------------------------------------------------------------------------- #
# reading
# --------------------------------------------------------------------------- #
def load(text: str) -> dict:
    """``yaml.safe_load`` of a .qua text; raises ValueError if it is not a mapping."""
    doc = yaml.safe_load(text)
    if not isinstance(doc, dict):
        raise ValueError(f"a .qua document is a YAML mapping, got {type(doc).__name__}")
    return doc


def _num(x) -> float:
    if isinstance(x, bool) or not isinstance(x, (int, float)):
        raise ValueError(f"not a number: {x!r}")
    return float(x)


def split_tags(s: str) -> List[str]:
    """``Tags`` is one string; tags are its non-empty space separated tokens."""
    return [t for t in s.split(" ") if t]


def interpret(doc: dict) -> dict:
    """Meaning of a loaded .qua mapping as a plain-data chart (see module doc)."""
    hits: List[dict] = []
    holds: List[dict] = []
    for o in doc["HitObjects"]:
        start = _num(o.get("StartTime", 0))
        lane = o["Lane"]
        if isinstance(lane, bool) or not isinstance(lane, int):
            raise ValueError(f"Lane is not an integer: {lane!r}")
        ks = o.get("KeySounds", [])
        if "EndTime" in o:
            holds.append(
                {"offset": start, "column": lane - 1, "length": _num(o["EndTime"]) - start, "keysounds": ks}
            )
        else:
            hits.append({"offset": start, "column": lane - 1, "keysounds": ks})
    bpms = [
        {"offset": _num(t.get("StartTime", 0)), "bpm": _num(t["Bpm"]) if "Bpm" in t else None}
        for t in doc["TimingPoints"]
    ]
    svs = [
        {"offset": _num(s.get("StartTime", 0)), "multiplier": _num(s["Multiplier"]) if "Multiplier" in s else None}
        for s in doc["SliderVelocities"]
    ]
    meta: Dict[str, Any] = {}
    for k, v in doc.items():
        if k in SECTIONS:
            continue
        if k == "Tags" and isinstance(v, str):
            v = split_tags(v)
        meta[k] = v
    return {
        "keys": MODE_KEYS.get(doc.get("Mode")) if isinstance(doc.get("Mode"), str) else None,
        "hits": hits,
        "holds": holds,
        "bpms": bpms,
        "svs": svs,
        "meta": meta,
    }


def parse(text: str) -> dict:
    """Text of a .qua file -> plain-data chart."""
    return interpret(load(text))


# --------------------------------------------------------------------------- #
# format conformance of a written document
# --------------------------------------------------------------------------- #
def _is_num(x) -> bool:
    return isinstance(x, (int, float)) and not isinstance(x, bool)


def _bad_floats(x, path="") -> Iterable[str]:
    """Paths of NaN / infinite floats anywhere in a loaded document."""
    if isinstance(x, float):
        if math.isnan(x) or math.isinf(x):
            yield f"{path}={x!r}"
    elif isinstance(x, dict):
        for k, v in x.items():
            yield from _bad_floats(k, f"{path}.<key>")
            yield from _bad_floats(v, f"{path}.{k}")
    elif isinstance(x, (list, tuple)):
        for i, v in enumerate(x):
            yield from _bad_floats(v, f"{path}[{i}]")


def document_problems(
    doc,
    extra_hit_keys: Iterable[str] = (),
    extra_timing_keys: Iterable[str] = (),
    extra_sv_keys: Iterable[str] = (),
) -> List[Tuple[str, str]]:
    """Does a loaded document use only the keys and value types of the format?

    Returns ``[(kind, message)]`` (empty = conforming).  ``extra_*_keys`` are item keys that
    were present on the input the chart was read from and may therefore be carried through.

    Checked: top level is a mapping with keys within ``TOP_LEVEL_KEYS``; the three sections
    are lists of mappings; ``HitObjects`` items use only StartTime/Lane/EndTime/KeySounds with
    numeric finite times, an integer ``Lane`` >= 1 and a list ``KeySounds``; ``TimingPoints``
    only StartTime/Bpm, ``SliderVelocities`` only StartTime/Multiplier, numeric and finite;
    no NaN/inf anywhere in the document.
    """
    out: List[Tuple[str, str]] = []
    if not isinstance(doc, dict):
        return [("doc-not-mapping", f"top level is {type(doc).__name__}")]
    unknown = [k for k in doc if k not in TOP_LEVEL_KEYS]
    if unknown:
        out.append(("top-level-key", f"keys outside the Quaver key set: {unknown!r}"))
    specs = (
        ("HitObjects", set(HIT_OBJECT_KEYS) | set(extra_hit_keys), ("StartTime", "EndTime")),
        ("TimingPoints", set(TIMING_POINT_KEYS) | set(extra_timing_keys), ("StartTime", "Bpm")),
        ("SliderVelocities", set(SLIDER_VELOCITY_KEYS) | set(extra_sv_keys), ("StartTime", "Multiplier")),
    )
    for sec, allowed, numeric in specs:
        if sec not in doc:
            out.append(("section-missing", f"{sec} is missing"))
            continue
        items = doc[sec]
        if not isinstance(items, list):
            out.append(("section-not-list", f"{sec} is {type(items).__name__}"))
            continue
        for i, it in enumerate(items):
            if not isinstance(it, dict):
                out.append(("item-not-mapping", f"{sec}[{i}] is {type(it).__name__}"))
                continue
            bad = [k for k in it if k not in allowed]
            if bad:
                out.append((f"item-key:{sec}", f"{sec}[{i}] has keys {bad!r}; allowed {sorted(allowed)}"))
            for k in numeric:
                if k in it and not (_is_num(it[k]) and math.isfinite(it[k])):
                    out.append((f"item-type:{sec}.{k}", f"{sec}[{i}].{k}={it[k]!r} is not a finite number"))
            if sec == "HitObjects":
                if "Lane" in it and not (isinstance(it["Lane"], int) and not isinstance(it["Lane"], bool) and it["Lane"] >= 1):
                    out.append(("item-type:HitObjects.Lane", f"HitObjects[{i}].Lane={it['Lane']!r} is not an integer >= 1"))
                if "Lane" not in it:
                    out.append(("item-key:HitObjects", f"HitObjects[{i}] has no Lane"))
                if "KeySounds" in it and not isinstance(it["KeySounds"], list):
                    out.append(("item-type:HitObjects.KeySounds", f"HitObjects[{i}].KeySounds={it['KeySounds']!r} is not a list"))
    nan = list(_bad_floats(doc))
    if nan:
        out.append(("nan", f"non-finite numbers in the document: {nan[:5]}"))
    return out


# --------------------------------------------------------------------------- #
# comparing two charts by meaning
# --------------------------------------------------------------------------- #
def same_value(a, b, rel: float = 1e-9) -> bool:
    """Deep equality by meaning: bool only equals bool, numbers compare numerically
    (floats with relative tolerance ``rel``; NaN equals nothing), str/None exactly, lists
    element-wise, dicts key-wise."""
    if isinstance(a, bool) or isinstance(b, bool):
        return isinstance(a, bool) and isinstance(b, bool) and a == b
    if _is_num(a) and _is_num(b):
        if isinstance(a, int) and isinstance(b, int):
            return a == b
        fa, fb = float(a), float(b)
        if math.isnan(fa) or math.isnan(fb):
            return False
        if math.isinf(fa) or math.isinf(fb):
            return fa == fb
        return abs(fa - fb) <= rel * max(1.0, abs(fa), abs(fb))
    if isinstance(a, (list, tuple)) and isinstance(b, (list, tuple)):
        return len(a) == len(b) and all(same_value(x, y, rel) for x, y in zip(a, b))
    if isinstance(a, dict) and isinstance(b, dict):
        return set(a) == set(b) and all(same_value(a[k], b[k], rel) for k in a)
    if type(a) is not type(b):
        return False
    return a == b


def _sortnum(x) -> float:
    try:
        f = float(x)
    except (TypeError, ValueError):
        return math.inf
    return math.inf if math.isnan(f) else f


def _canon(x) -> str:
    try:
        return json.dumps(x, sort_keys=True, default=repr)
    except (TypeError, ValueError):
        return repr(x)


def _time_ok(g, e, time_lt: Optional[float]) -> bool:
    if not (_is_num(g) and _is_num(e)):
        return False
    g, e = float(g), float(e)
    if not (math.isfinite(g) and math.isfinite(e)):
        return False
    if time_lt is None:
        return abs(g - e) <= 1e-6 * max(1.0, abs(e))
    return abs(g - e) < time_lt


def _col_ok(g, e) -> bool:
    return _is_num(g) and _is_num(e) and float(g) == float(e)


#: What an omitted key may be read as.  Quaver's serializer leaves out members that hold their type's default, so the
#: format's own reading of an omitted ``Multiplier`` / ``Bpm`` is 0; reamber documents 1.0 for the multiplier (an SV that
#: changes nothing) and 120 for the bpm.  Either is accepted (the format's default cannot be confirmed offline), any other
#: number is a defect (seeded/C06-adv5: 120 for a multiplier).
OMITTED_DEFAULTS = {"multiplier": (0.0, 1.0), "bpm": (0.0, 120.0)}


def chart_diff(
    got: dict,
    exp: dict,
    time_lt: Optional[float] = None,
    value_rel: float = 1e-9,
    meta_keys: Optional[Iterable[str]] = None,
    parts: Iterable[str] = ("keys", "hits", "holds", "bpms", "svs", "meta"),
) -> List[Tuple[str, str]]:
    """Differences between two plain-data charts, as ``[(kind, message)]`` (empty = same chart).

    * lists are compared as multisets: both sides are sorted by (column, time, ...) resp.
      (time, value) and compared pairwise.  This is sound when the entries of one list that
      are not identical are >= 2*time_lt apart (generators guarantee 2 ms);
    * ``time_lt=None``: times equal up to 1e-6*max(1,|t|); ``time_lt=1.0``: every time (note
      head, hold *tail* = offset+length, timing point, SV) moved by strictly less than 1 ms;
    * ``bpm`` / ``multiplier`` relative ``value_rel``; an expected value of ``None`` (key
      omitted in the document) is not compared – only required to be a finite number;
    * ``keys`` compared when both sides know it;
    * metadata: every key of ``exp["meta"]`` (or ``meta_keys``) must be present and equal in
      ``got["meta"]`` (:func:`same_value`); keys only ``got`` has are ignored (defaults).
    """
    out: List[Tuple[str, str]] = []
    parts = tuple(parts)

    if "keys" in parts and got.get("keys") is not None and exp.get("keys") is not None:
        if got["keys"] != exp["keys"]:
            out.append(("keys", f"got={got['keys']!r} expected={exp['keys']!r}"))

    def notes(name: str, with_tail: bool):
        g, e = got[name], exp[name]
        if len(g) != len(e):
            out.append((f"{name}-count", f"got {len(g)} expected {len(e)}: got={_brief(g)} expected={_brief(e)}"))
            return

        def key(n):
            return (
                _sortnum(n.get("column")),
                _sortnum(n.get("offset")),
                _sortnum(n.get("length")) if with_tail else 0.0,
                _canon(n.get("keysounds")),
            )

        for a, b in zip(sorted(g, key=key), sorted(e, key=key)):
            if not _col_ok(a.get("column"), b.get("column")):
                out.append((f"{name}-column", f"got={a!r} expected={b!r}"))
                continue
            if not _time_ok(a.get("offset"), b.get("offset"), time_lt):
                out.append((f"{name}-time", f"got={a!r} expected={b!r}"))
            if with_tail:
                try:
                    ta = a["offset"] + a["length"]
                    tb = b["offset"] + b["length"]
                except (TypeError, KeyError):
                    ta = tb = None
                if not _time_ok(ta, tb, time_lt):
                    out.append((f"{name}-tail", f"got={a!r} expected={b!r}"))
            if not same_value(a.get("keysounds"), b.get("keysounds")):
                out.append((f"{name}-keysounds", f"got={a!r} expected={b!r}"))

    def points(name: str, field: str):
        g, e = got[name], exp[name]
        if len(g) != len(e):
            out.append((f"{name}-count", f"got {len(g)} expected {len(e)}: got={_brief(g)} expected={_brief(e)}"))
            return
        # entries whose expected value is None sort by time only; generators never put two
        # different points at one time when one of them omits its value
        ge = sorted(g, key=lambda p: (_sortnum(p.get("offset")), _sortnum(p.get(field))))
        ee = sorted(e, key=lambda p: (_sortnum(p.get("offset")), _sortnum(p.get(field)) if p.get(field) is not None else -math.inf))
        for a, b in zip(ge, ee):
            if not _time_ok(a.get("offset"), b.get("offset"), time_lt):
                out.append((f"{name}-time", f"got={a!r} expected={b!r}"))
            v = a.get(field)
            if b.get(field) is None:
                if not (_is_num(v) and math.isfinite(v)):
                    out.append((f"{name}-value-not-finite", f"got={a!r} (key omitted in the document)"))
                elif float(v) not in OMITTED_DEFAULTS[field]:
                    out.append((f"{name}-omitted-default", f"got={a!r}: key omitted in the document, accepted defaults {OMITTED_DEFAULTS[field]}"))
            elif not (_is_num(v) and same_value(float(v), float(b[field]), value_rel)):
                out.append((f"{name}-value", f"got={a!r} expected={b!r}"))

    if "hits" in parts:
        notes("hits", False)
    if "holds" in parts:
        notes("holds", True)
    if "bpms" in parts:
        points("bpms", "bpm")
    if "svs" in parts:
        points("svs", "multiplier")
    if "meta" in parts:
        gm, em = got.get("meta", {}), exp.get("meta", {})
        for k in meta_keys if meta_keys is not None else em:
            if k not in em:
                continue
            if k not in gm:
                out.append((f"meta:{k}", f"missing; expected={em[k]!r}"))
            elif not same_value(gm[k], em[k]):
                out.append((f"meta:{k}", f"got={gm[k]!r} expected={em[k]!r}"))
    return out


def _brief(lst, n: int = 6) -> str:
    s = repr(lst[:n])
    return s if len(lst) <= n else s[:-1] + ", ...]"
