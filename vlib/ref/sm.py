"""Independent StepMania (.sm) interpreter -> plain data.  Does NOT import reamber.

The format, as StepMania reads it:

* ``// ...`` to the end of the line is a comment;
* a file is a sequence of ``#TAG:param:param...;`` values (MSD); everything
  between values must be whitespace;
* ``#OFFSET`` (seconds) : beat 0 sounds at ``-OFFSET`` seconds;
  ``#BPMS`` : ``beat=bpm`` pairs separated by ``,``; ``#STOPS`` : ``beat=seconds``;
* ``#NOTES`` has six parameters: chart type, description, difficulty, meter,
  groove radar, note data.  Note data = measures separated by ``,``; a measure is
  ``n`` rows (one line each), row ``r`` of measure ``m`` sits at beat
  ``4*m + 4*r/n``; a row has one symbol per column:
  ``0`` nothing, ``1`` tap, ``2`` hold head, ``4`` roll head, ``3`` tail of the
  open hold/roll of that column, ``M`` mine, ``L`` lift, ``F`` fake, ``K`` keysound.

Public API (used by C02, C03 and later by C08/C09/C13/C15)::

    parse(text) -> {
      "meta":      {title, subtitle, artist, title_translit, subtitle_translit, artist_translit, genre,
                    credit, banner, background, lyrics_path, cd_title, music, display_bpm, bg_changes,
                    fg_changes : str ; sample_start, sample_length : ms float ; selectable : bool}
                   (only the tags present in the file),
      "tags":      [[NAME, [param, ...]], ...]        raw, in file order (NAME upper-case, no '#')
      "offset_ms": float                              ms of beat 0 (= -#OFFSET*1000)
      "bpms":      [["n/d", bpm], ...]                sorted by beat, beat = the exact decimal literal
      "bpms_ms":   [ms, ...]                          ms of every #BPMS entry (same order as "bpms")
      "has_stops_tag": bool, "stops": [["n/d", seconds], ...]
      "charts":    [{"chart_type","description","difficulty","difficulty_val":int,"groove_radar":[float],
                     "keys": int|None (row width), "row_widths":[int] (distinct widths, sorted),
                     "rows_per_measure":[int],
                     "hits"|"mines"|"lifts"|"fakes"|"keysounds": [{"offset":ms,"column":c,"beat":"n/d"}],
                     "holds"|"rolls": [{"offset":ms,"column":c,"length":ms,"beat":"n/d","length_beats":"n/d"}]}],
      "problems":  [[code, message], ...]             syntactic problems; empty for a well-formed file
    }

``parse`` raises ``SMRefError`` only when no timeline can be built at all
(missing/unreadable ``#OFFSET``/``#BPMS``, first tempo not at beat 0, bpm <= 0).
Object lists are sorted by (beat, column).  Milliseconds come from
``vlib.ref.timing.BeatTimeline`` started at ``offset_ms``.
"""
from __future__ import annotations

import re
from fractions import Fraction
from typing import Dict, List, Optional, Sequence, Tuple

from vlib.ref.timing import BeatTimeline

TAP_KINDS = {"1": "hits", "M": "mines", "L": "lifts", "F": "fakes", "K": "keysounds"}
HEAD_KINDS = {"2": "holds", "4": "rolls"}
TAIL = "3"
ALPHABET = "01234MLFK"
POINT_KINDS = ("hits", "mines", "lifts", "fakes", "keysounds")
LONG_KINDS = ("holds", "rolls")
KINDS = POINT_KINDS + LONG_KINDS
SYMBOL_OF = {"hits": "1", "mines": "M", "lifts": "L", "fakes": "F", "keysounds": "K", "holds": "2", "rolls": "4"}

#: header tag -> (field name, converter kind)
HEADER_FIELDS = {
    "TITLE": ("title", "s"),
    "SUBTITLE": ("subtitle", "s"),
    "ARTIST": ("artist", "s"),
    "TITLETRANSLIT": ("title_translit", "s"),
    "SUBTITLETRANSLIT": ("subtitle_translit", "s"),
    "ARTISTTRANSLIT": ("artist_translit", "s"),
    "GENRE": ("genre", "s"),
    "CREDIT": ("credit", "s"),
    "BANNER": ("banner", "s"),
    "BACKGROUND": ("background", "s"),
    "LYRICSPATH": ("lyrics_path", "s"),
    "CDTITLE": ("cd_title", "s"),
    "MUSIC": ("music", "s"),
    "SAMPLESTART": ("sample_start", "sec"),
    "SAMPLELENGTH": ("sample_length", "sec"),
    "DISPLAYBPM": ("display_bpm", "s"),
    "SELECTABLE": ("selectable", "yn"),
    "BGCHANGES": ("bg_changes", "s"),
    "FGCHANGES": ("fg_changes", "s"),
}
STRING_FIELDS = tuple(f for f, k in HEADER_FIELDS.values() if k == "s")

#: the denominators reamber documents for its snapping grid (DEFAULT_DIVISIONS)
SNAP_DIVISIONS = (1, 2, 3, 4, 5, 6, 7, 8, 9, 12, 16, 32, 64, 96)


class SMRefError(Exception):
    """The text cannot be interpreted as a StepMania chart at all."""


def _frs(x: Fraction) -> str:
    return f"{x.numerator}/{x.denominator}"


# --------------------------------------------------------------------------- #
# tokeniser
# --------------------------------------------------------------------------- #
def strip_comments(text: str) -> str:
    """Remove ``//`` comments (up to, not including, the end of line)."""
    return re.sub(r"//[^\n]*", "", text)


def tokenize(text: str) -> Tuple[List[Tuple[str, List[str]]], List[List[str]]]:
    """MSD tokeniser.  Returns ([(TAG, [params])], problems)."""
    text = strip_comments(text.replace("\r\n", "\n").replace("\r", "\n"))
    tags: List[Tuple[str, List[str]]] = []
    problems: List[List[str]] = []
    i, n = 0, len(text)
    while i < n:
        ch = text[i]
        if ch.isspace() or ch == "﻿":
            i += 1
            continue
        if ch != "#":
            j = i
            while j < n and text[j] != "#":
                j += 1
            problems.append(["junk-outside-tag", repr(text[i:j].strip()[:60])])
            i = j
            continue
        end = text.find(";", i)
        if end < 0:
            problems.append(["unterminated-tag", repr(text[i : i + 40])])
            end = n
        body = text[i + 1 : end]
        # a '#' at the start of a line inside a value means the previous value was never closed
        m = re.search(r"\n[ \t]*#", body)
        if m:
            problems.append(["unterminated-tag", repr(body[:40])])
            end = i + 1 + m.start()
            body = text[i + 1 : end]
            i = end
        else:
            i = end + 1
        parts = body.split(":")
        if len(parts) < 2:
            problems.append(["tag-without-colon", repr(body[:40])])
        tags.append((parts[0].strip().upper(), parts[1:]))
    return tags, problems


# --------------------------------------------------------------------------- #
# interpretation
# --------------------------------------------------------------------------- #
def _pairs(s: str, what: str) -> List[Tuple[Fraction, str]]:
    out = []
    for item in s.split(","):
        item = item.strip()
        if not item:
            continue
        if item.count("=") != 1:
            raise SMRefError(f"bad {what} entry {item!r}")
        b, v = item.split("=")
        try:
            out.append((Fraction(b.strip()), v.strip()))
        except (ValueError, ZeroDivisionError) as e:
            raise SMRefError(f"bad {what} beat {b!r}") from e
    return out


def parse_notes(data: str, problems: Optional[list] = None, where: str = "") -> dict:
    """Note data (comments already stripped) -> beat-space objects.

    Returns {"keys", "row_widths", "rows_per_measure", kind: [(beat, column[, tail_beat])]}.
    """
    problems = problems if problems is not None else []
    out: Dict[str, list] = {k: [] for k in KINDS}
    open_head: Dict[int, Tuple[str, Fraction]] = {}
    widths: Dict[int, int] = {}
    rows_per_measure: List[int] = []
    first_width = None
    measures = data.split(",")
    for m, meas in enumerate(measures):
        rows = [r.strip() for r in meas.split("\n") if r.strip()]
        n = len(rows)
        rows_per_measure.append(n)
        if n == 0:
            if len(measures) > 1:
                problems.append(["empty-measure", f"{where}measure {m} has no rows"])
            continue
        if n % 4:
            problems.append(["rows-not-multiple-of-4", f"{where}measure {m} has {n} rows"])
        for r, row in enumerate(rows):
            widths[len(row)] = widths.get(len(row), 0) + 1
            if first_width is None:
                first_width = len(row)
            beat = Fraction(4 * m) + Fraction(4 * r, n)
            for c, ch in enumerate(row):
                if ch == "0":
                    continue
                if ch in TAP_KINDS:
                    out[TAP_KINDS[ch]].append((beat, c))
                elif ch in HEAD_KINDS:
                    if c in open_head:
                        problems.append(["head-while-open", f"{where}measure {m} row {r} column {c}"])
                    open_head[c] = (HEAD_KINDS[ch], beat)
                elif ch == TAIL:
                    if c not in open_head:
                        problems.append(["tail-without-head", f"{where}measure {m} row {r} column {c}"])
                        continue
                    kind, b0 = open_head.pop(c)
                    out[kind].append((b0, c, beat))
                else:
                    problems.append(["bad-symbol", f"{where}measure {m} row {r} column {c}: {ch!r}"])
    for c, (kind, b0) in sorted(open_head.items()):
        problems.append(["unclosed-head", f"{where}column {c} {kind} opened at beat {b0}"])
    if len(widths) > 1:
        problems.append(["row-width-mixed", f"{where}row widths {sorted(widths)}"])
    for k in KINDS:
        out[k].sort(key=lambda t: (t[0], t[1]))
    # the chart's width: the most frequent one (ties: the first seen)
    keys = None
    if widths:
        best = max(widths.values())
        keys = first_width if widths.get(first_width) == best else min(w for w, c in widths.items() if c == best)
    out["keys"] = keys
    out["row_widths"] = sorted(widths)
    out["rows_per_measure"] = rows_per_measure
    return out


def parse(text: str) -> dict:
    """Interpret a .sm text by the StepMania rules (see module docstring)."""
    tags, problems = tokenize(text)
    meta: Dict[str, object] = {}
    raw: Dict[str, List[str]] = {}
    charts_raw: List[List[str]] = []
    for name, params in tags:
        if name == "NOTES":
            charts_raw.append(params)
            continue
        raw[name] = params
        if name in HEADER_FIELDS:
            field, kind = HEADER_FIELDS[name]
            val = ":".join(params).strip()
            if kind == "s":
                meta[field] = val
            elif kind == "sec":
                try:
                    meta[field] = float(val) * 1000.0
                except ValueError:
                    problems.append(["bad-number", f"#{name}:{val!r}"])
            elif kind == "yn":
                if val.upper() not in ("YES", "NO"):
                    problems.append(["bad-yes-no", f"#{name}:{val!r}"])
                meta[field] = val.upper() == "YES"

    if "OFFSET" not in raw or "BPMS" not in raw:
        raise SMRefError("no #OFFSET or no #BPMS")
    try:
        offset_ms = -(float(":".join(raw["OFFSET"]).strip()) * 1000.0)
    except ValueError as e:
        raise SMRefError("bad #OFFSET") from e
    bp = []
    for b, v in _pairs(":".join(raw["BPMS"]), "#BPMS"):
        try:
            bp.append((b, float(v)))
        except ValueError as e:
            raise SMRefError(f"bad bpm {v!r}") from e
    bp.sort(key=lambda t: t[0])
    if not bp or bp[0][0] != 0:
        raise SMRefError("first #BPMS entry is not at beat 0")
    if any(not (v > 0) for _, v in bp):
        raise SMRefError("non-positive bpm")
    tl = BeatTimeline(offset_ms, bp)
    stops = []
    if "STOPS" in raw:
        for b, v in _pairs(":".join(raw["STOPS"]), "#STOPS"):
            stops.append([_frs(b), float(v)])

    charts = []
    for ci, params in enumerate(charts_raw):
        where = f"chart {ci}: "
        if len(params) != 6:
            problems.append(["notes-param-count", f"{where}{len(params)} parameters"])
            if len(params) < 6:
                continue
        ctype, desc, diff, meter, radar = [p.strip() for p in params[:5]]
        data = ":".join(params[5:])
        try:
            meter_i = int(meter)
        except ValueError:
            problems.append(["bad-number", f"{where}meter {meter!r}"])
            meter_i = None
        try:
            radar_f = [float(x) for x in radar.split(",")] if radar.strip() else []
        except ValueError:
            problems.append(["bad-number", f"{where}radar {radar!r}"])
            radar_f = None
        nd = parse_notes(data, problems, where)
        chart = dict(
            chart_type=ctype,
            description=desc,
            difficulty=diff,
            difficulty_val=meter_i,
            groove_radar=radar_f,
            keys=nd["keys"],
            row_widths=nd["row_widths"],
            rows_per_measure=nd["rows_per_measure"],
        )
        for k in POINT_KINDS:
            chart[k] = [dict(offset=tl.ms(b), column=c, beat=_frs(b)) for b, c in nd[k]]
        for k in LONG_KINDS:
            chart[k] = [
                dict(offset=tl.ms(b), column=c, length=tl.ms(t) - tl.ms(b), beat=_frs(b), length_beats=_frs(t - b))
                for b, c, t in nd[k]
            ]
        charts.append(chart)

    return dict(
        meta=meta,
        tags=[[n, list(p)] for n, p in tags],
        offset_ms=offset_ms,
        bpms=[[_frs(b), v] for b, v in bp],
        bpms_ms=[tl.ms(b) for b, _ in bp],
        has_stops_tag="STOPS" in raw,
        stops=stops,
        charts=charts,
        problems=problems,
    )


# --------------------------------------------------------------------------- #
# helpers shared by the checks
# --------------------------------------------------------------------------- #
def timeline(parsed: dict) -> BeatTimeline:
    """The file's own beat -> ms map."""
    return BeatTimeline(parsed["offset_ms"], [(Fraction(b), v) for b, v in parsed["bpms"]])


def timeline_from_ms(points: Sequence[Sequence[float]]) -> BeatTimeline:
    """Beat <-> ms map of an in-memory tempo list [(offset_ms, bpm), ...]: beat 0 is the first point,
    beats accumulate as (t[i+1]-t[i])*bpm[i]/60000 (the exact Fraction of that float)."""
    pts = sorted((float(t), float(v)) for t, v in points)
    beats = [Fraction(0)]
    for (t0, v0), (t1, _) in zip(pts[:-1], pts[1:]):
        beats.append(beats[-1] + Fraction((t1 - t0) * v0 / 60000.0))
    # BeatTimeline sorts by beat; equal offsets would give equal beats, which is fine
    return BeatTimeline(pts[0][0], [(b, v) for b, (_, v) in zip(beats, pts)])


def snap_grid_distance(x: float) -> float:
    """Distance (in beats) from x to the nearest point of the documented snapping grid
    {k/d : d in SNAP_DIVISIONS} (+ integers)."""
    fracpart = x - (x // 1)
    best = min(fracpart, 1.0 - fracpart)
    for d in SNAP_DIVISIONS:
        k = round(fracpart * d)
        best = min(best, abs(fracpart - k / d))
    return best


def objects(chart: dict, kind: str) -> List[tuple]:
    """Sorted (column, offset[, length]) tuples of one kind – a canonical multiset."""
    if kind in LONG_KINDS:
        return sorted((int(o["column"]), float(o["offset"]), float(o["length"])) for o in chart[kind])
    return sorted((int(o["column"]), float(o["offset"])) for o in chart[kind])
