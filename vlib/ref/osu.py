"""Reference reader of the .osu v14 osu!mania dialect -> plain-data chart.

Independent of reamber (never imports it).  Written from the file-format
description (osu! wiki "osu (file format)"), not from the library:

* a file is a version line followed by ``[Section]`` blocks; lines are trimmed,
  blank lines and ``//`` comments carry no content;
* ``[General] [Editor] [Metadata] [Difficulty]`` hold ``key:value`` pairs, split
  at the FIRST ``:``, key and value trimmed;
* ``[Events]``: ``0,0,"file",x,y`` is the background, ``Sample,time,layer,
  "file",volume`` a storyboard sound sample; everything else (videos, breaks,
  sprites, storyboard commands) is not chart content here;
* ``[TimingPoints]``: ``time,beatLength,meter,sampleSet,sampleIndex,volume,
  uninherited,effects``; uninherited=1 -> tempo point with bpm = 60000 /
  beatLength, uninherited=0 -> scroll-velocity point with multiplier = -100 /
  beatLength; kiai = effects bit 0;
* ``[HitObjects]``: ``x,y,time,type,hitSound,extras``; type bit 0 = hit with
  extras ``normalSet:additionSet:index:volume:file``; type bit 7 = mania hold with
  extras ``endTime:normalSet:additionSet:index:volume:file``;
  column = floor(x * keys / 512) clamped to [0, keys-1], keys = CircleSize.

The chart shape returned by :func:`parse` (and by ``vlib.gen.osu.snapshot`` for an
in-memory map) is::

    {"keys": int,
     "hits":    [{"offset", "column", "hitsound_set", "sample_set", "addition_set",
                  "custom_set", "volume", "hitsound_file"}],
     "holds":   [{... same as hits ..., "length"}],
     "bpms":    [{"offset", "bpm", "metronome", "sample_set", "sample_set_index",
                  "volume", "kiai"}],
     "svs":     [{"offset", "multiplier", "sample_set", "sample_set_index",
                  "volume", "kiai"}],
     "samples": [{"offset", "sample_file", "volume"}],      # file name without quotes
     # file-only details are kept next to the chart fields and ignored by comparisons:
     #   objects "x", "type"; timing points "effects"; samples "layer"
     "meta":    {<META_FIELDS>: value},                    # every field, defaults filled
     "meta_present": [field names that the text actually defines],
     "extra":   {"Section/Key": raw value},                 # keys that are not chart content
     "syntax":  {"version", "sections", "objects_sorted", "timing_sorted",
                 "n_lines", "problems"}}

Lists are in file order.  ``problems`` lists every deviation from the strict v14
mania form; ``parse(..., strict=True)`` raises :class:`OsuFormatError` when it is
not empty.
"""
from __future__ import annotations

import math
import re
from typing import Dict, Iterable, List, Union

__all__ = [
    "parse",
    "OsuFormatError",
    "column_of_x",
    "x_range_of_column",
    "META_FIELDS",
    "META_KEYS",
    "META_DEFAULTS",
    "SECTION_ORDER",
    "SAMPLE_SET_NAMES",
    "strip_quotes",
]

SECTION_ORDER = ["General", "Editor", "Metadata", "Difficulty", "Events", "TimingPoints", "Colours", "HitObjects"]
REQUIRED_SECTIONS = ["General", "Metadata", "Difficulty", "Events", "TimingPoints", "HitObjects"]
SAMPLE_SET_NAMES = {"None": 0, "Normal": 1, "Soft": 2, "Drum": 3}

# file key -> (section, chart field, kind)
#   kind: str | int | float | bool (0/1) | sampleset (name) | tags (space separated)
META_KEYS = {
    "AudioFilename": ("General", "audio_file_name", "str"),
    "AudioLeadIn": ("General", "audio_lead_in", "int"),
    "PreviewTime": ("General", "preview_time", "int"),
    "Countdown": ("General", "countdown", "bool"),
    "SampleSet": ("General", "sample_set", "sampleset"),
    "StackLeniency": ("General", "stack_leniency", "float"),
    "Mode": ("General", "mode", "int"),
    "LetterboxInBreaks": ("General", "letterbox_in_breaks", "bool"),
    "SpecialStyle": ("General", "special_style", "bool"),
    "WidescreenStoryboard": ("General", "widescreen_storyboard", "bool"),
    "DistanceSpacing": ("Editor", "distance_spacing", "float"),
    "BeatDivisor": ("Editor", "beat_divisor", "int"),
    "GridSize": ("Editor", "grid_size", "int"),
    "TimelineZoom": ("Editor", "timeline_zoom", "float"),
    "Title": ("Metadata", "title", "str"),
    "TitleUnicode": ("Metadata", "title_unicode", "str"),
    "Artist": ("Metadata", "artist", "str"),
    "ArtistUnicode": ("Metadata", "artist_unicode", "str"),
    "Creator": ("Metadata", "creator", "str"),
    "Version": ("Metadata", "version", "str"),
    "Source": ("Metadata", "source", "str"),
    "Tags": ("Metadata", "tags", "tags"),
    "BeatmapID": ("Metadata", "beatmap_id", "int"),
    "BeatmapSetID": ("Metadata", "beatmap_set_id", "int"),
    "HPDrainRate": ("Difficulty", "hp_drain_rate", "float"),
    "CircleSize": ("Difficulty", "circle_size", "float"),
    "OverallDifficulty": ("Difficulty", "overall_difficulty", "float"),
    "ApproachRate": ("Difficulty", "approach_rate", "float"),
    "SliderMultiplier": ("Difficulty", "slider_multiplier", "float"),
    "SliderTickRate": ("Difficulty", "slider_tick_rate", "float"),
}
# chart field names, in file order, plus the one [Events] field
META_FIELDS = [v[1] for v in META_KEYS.values()] + ["background_file_name"]
FIELD_TO_KEY = {v[1]: k for k, v in META_KEYS.items()}

# what the format says a missing key means (osu! wiki); None = no documented default
META_DEFAULTS = {
    "audio_file_name": "",
    "audio_lead_in": 0,
    "preview_time": -1,
    "countdown": True,
    "sample_set": 1,
    "stack_leniency": 0.7,
    "mode": 0,
    "letterbox_in_breaks": False,
    "special_style": False,
    "widescreen_storyboard": False,
    "distance_spacing": None,
    "beat_divisor": None,
    "grid_size": None,
    "timeline_zoom": None,
    "title": "",
    "title_unicode": "",
    "artist": "",
    "artist_unicode": "",
    "creator": "",
    "version": "",
    "source": "",
    "tags": [],
    "beatmap_id": 0,
    "beatmap_set_id": -1,
    "hp_drain_rate": 5.0,
    "circle_size": 5.0,
    "overall_difficulty": 5.0,
    "approach_rate": 5.0,
    "slider_multiplier": 1.4,
    "slider_tick_rate": 1.0,
    "background_file_name": "",
}

_INT_RE = re.compile(r"[+-]?[0-9]+\Z")
_FLOAT_RE = re.compile(r"[+-]?([0-9]+\.?[0-9]*|\.[0-9]+)([eE][+-]?[0-9]+)?\Z")


class OsuFormatError(ValueError):
    """The text is not a well-formed v14 osu!mania file; ``problems`` says why."""

    def __init__(self, problems: List[str]):
        super().__init__("; ".join(problems[:8]) + (" ..." if len(problems) > 8 else ""))
        self.problems = list(problems)


# --------------------------------------------------------------------------- #
# the finite x <-> column map
# --------------------------------------------------------------------------- #
def column_of_x(x: int, keys: int) -> int:
    """Column (0-based) that an object at horizontal position ``x`` belongs to."""
    c = (int(x) * int(keys)) // 512  # exact integer floor
    return max(0, min(int(keys) - 1, c))


def x_range_of_column(column: int, keys: int):
    """Inclusive integer range ``(lo, hi)`` of x values inside [0, 511] that denote ``column``."""
    lo = -((-512 * column) // keys)  # ceil(512 c / k)
    hi = -((-512 * (column + 1)) // keys) - 1  # ceil(512 (c+1) / k) - 1
    return max(0, lo), min(511, hi)


def strip_quotes(name: str) -> str:
    """File names in [Events] may be written with or without surrounding double quotes."""
    name = name.strip()
    if len(name) >= 2 and name[0] == '"' and name[-1] == '"':
        return name[1:-1]
    return name


# --------------------------------------------------------------------------- #
class _P:
    """number parsing that records problems instead of raising"""

    def __init__(self):
        self.problems: List[str] = []

    def bad(self, msg: str):
        if len(self.problems) < 200:
            self.problems.append(msg)

    def int(self, s: str, what: str, default=0) -> int:
        s = s.strip()
        if _INT_RE.match(s):
            return int(s)
        if _FLOAT_RE.match(s):
            v = float(s)
            self.bad(f"{what}: integer expected, got {s!r}")
            if math.isfinite(v):
                return int(v)
            return default
        self.bad(f"{what}: integer expected, got {s!r}")
        return default

    def float(self, s: str, what: str, default=0.0) -> float:
        s = s.strip()
        if _FLOAT_RE.match(s):
            v = float(s)
            if not math.isfinite(v):
                self.bad(f"{what}: finite number expected, got {s!r}")
            return v
        self.bad(f"{what}: number expected, got {s!r}")
        return default


def _lines_of(src: Union[str, Iterable[str]]) -> List[str]:
    """Accepts a whole text or a list of lines (items may themselves contain newlines,
    as in what ``OsuMap.write()`` returns: the file is their ``"\\n".join``)."""
    text = src if isinstance(src, str) else "\n".join(src)
    text = text.replace("\r\n", "\n").replace("\r", "\n")
    return text.split("\n")


def parse(src: Union[str, Iterable[str]], strict: bool = False) -> Dict:
    """Parse a .osu v14 mania text (str, or list of lines) into the plain-data chart
    described in the module docstring.

    ``strict=True`` additionally demands the well-formed shape an editor-written v14
    mania file has (version line first, known sections in canonical order, 8-field timing
    points, 6-field objects whose ``type`` matches the shape of their extras, integer
    fields written as integers, finite numbers) and raises :class:`OsuFormatError`
    otherwise.  With ``strict=False`` the same problems are only listed in
    ``result["syntax"]["problems"]`` and the offending line is skipped or defaulted.
    """
    p = _P()
    raw = _lines_of(src)
    lines = [ln.strip() for ln in raw]
    if lines and lines[0].startswith("\ufeff"):
        lines[0] = lines[0][1:].strip()

    version = None
    first_ix = next((i for i, ln in enumerate(lines) if ln), None)
    first = lines[first_ix] if first_ix is not None else None
    m = re.match(r"osu file format v([0-9]+)\Z", first or "")
    if m:
        version = int(m.group(1))
        lines[first_ix] = ""
        if version != 14:
            p.bad(f"file format version {version}, expected 14")
    else:
        p.bad(f"first line is not a version line: {first!r}")

    meta = dict(META_DEFAULTS)
    meta["tags"] = []
    present: List[str] = []
    extra: Dict[str, str] = {}
    sections: List[str] = []
    tp_rows: List[List[str]] = []
    obj_rows: List[List[str]] = []
    samples: List[dict] = []
    bg_seen = False

    section = None
    for ln in lines:
        if not ln:
            continue
        if ln.startswith("//"):
            continue
        if ln.startswith("[") and ln.endswith("]"):
            section = ln[1:-1]
            if section in sections:
                p.bad(f"section [{section}] appears twice")
            sections.append(section)
            if section not in SECTION_ORDER:
                p.bad(f"unknown section [{section}]")
            continue
        if section is None:
            p.bad(f"content before the first section: {ln!r}")
            continue

        if section in ("General", "Editor", "Metadata", "Difficulty"):
            if ":" not in ln:
                p.bad(f"[{section}] line without ':': {ln!r}")
                continue
            k, v = ln.split(":", 1)
            k, v = k.strip(), v.strip()
            spec = META_KEYS.get(k)
            if spec is None:
                extra[f"{section}/{k}"] = v
                continue
            sec, fld, kind = spec
            if sec != section:
                p.bad(f"key {k} in [{section}], belongs to [{sec}]")
            if fld in present:
                p.bad(f"key {k} appears twice")
            else:
                present.append(fld)
            if kind == "str":
                meta[fld] = v
            elif kind == "int":
                meta[fld] = p.int(v, k)
            elif kind == "float":
                meta[fld] = p.float(v, k)
            elif kind == "bool":
                n = p.int(v, k)
                if n not in (0, 1):
                    p.bad(f"{k}: 0 or 1 expected, got {v!r}")
                meta[fld] = bool(n)
            elif kind == "sampleset":
                if v in SAMPLE_SET_NAMES:
                    meta[fld] = SAMPLE_SET_NAMES[v]
                else:
                    p.bad(f"{k}: unknown sample set {v!r}")
                    meta[fld] = -1
            elif kind == "tags":
                meta[fld] = [t for t in v.split(" ") if t.strip()]
                meta[fld] = [t.strip() for t in meta[fld]]

        elif section == "Events":
            f = ln.split(",")
            head = f[0].strip()
            if head in ("0", "Background"):
                if len(f) < 3:
                    p.bad(f"background event with fewer than 3 fields: {ln!r}")
                    continue
                if not bg_seen:
                    bg_seen = True
                    meta["background_file_name"] = strip_quotes(f[2])
                    present.append("background_file_name")
            elif head in ("Sample", "5"):
                if len(f) < 4:
                    p.bad(f"sample event with fewer than 4 fields: {ln!r}")
                    continue
                if len(f) > 5:
                    p.bad(f"sample event with more than 5 fields: {ln!r}")
                samples.append(
                    dict(
                        offset=float(p.int(f[1], "Sample time")),
                        sample_file=strip_quotes(f[3]),
                        volume=p.int(f[4], "Sample volume") if len(f) > 4 else 100,
                        layer=p.int(f[2], "Sample layer"),
                    )
                )
            # anything else: video, break, sprite, storyboard command -> no chart content

        elif section == "TimingPoints":
            tp_rows.append(ln.split(","))
        elif section == "HitObjects":
            obj_rows.append(ln.split(","))
        elif section == "Colours":
            pass
        # unknown sections are skipped

    # ---- structure --------------------------------------------------------
    for s in REQUIRED_SECTIONS:
        if s not in sections:
            p.bad(f"section [{s}] missing")
    known = [s for s in sections if s in SECTION_ORDER]
    if known != sorted(known, key=SECTION_ORDER.index):
        p.bad(f"sections out of order: {sections}")

    keys_f = meta["circle_size"]
    keys = int(keys_f) if math.isfinite(keys_f) else 0
    if "circle_size" not in present:
        p.bad("CircleSize missing (key count undefined)")
    if keys != keys_f or not 1 <= keys <= 18:
        p.bad(f"CircleSize {keys_f!r} is not a key count 1..18")
        keys = max(1, keys)
    if "mode" in present and meta["mode"] != 3:
        p.bad(f"Mode {meta['mode']} is not osu!mania (3)")

    # ---- timing points ----------------------------------------------------
    bpms: List[dict] = []
    svs: List[dict] = []
    tp_times: List[float] = []
    for f in tp_rows:
        what = ",".join(f)
        if len(f) != 8:
            p.bad(f"timing point with {len(f)} fields (8 expected): {what!r}")
            if len(f) < 2:
                continue
            f = f + ["4", "0", "0", "100", "1", "0"][len(f) - 2 :] if len(f) < 8 else f[:8]
        t = p.float(f[0], "timing point time")
        bl = p.float(f[1], "beatLength")
        meter = p.int(f[2], "meter", 4)
        sset = p.int(f[3], "sampleSet")
        sidx = p.int(f[4], "sampleIndex")
        vol = p.int(f[5], "volume", 100)
        unin = p.int(f[6], "uninherited", 1)
        eff = p.int(f[7], "effects")
        if unin not in (0, 1):
            p.bad(f"uninherited must be 0 or 1: {what!r}")
        if bl == 0:
            p.bad(f"beatLength 0: {what!r}")
            continue
        tp_times.append(t)
        common = dict(sample_set=sset, sample_set_index=sidx, volume=vol, kiai=bool(eff & 1))
        if unin:
            bpms.append(dict(offset=t, bpm=60000.0 / bl, metronome=meter, **common, effects=eff))
        else:
            svs.append(dict(offset=t, multiplier=-100.0 / bl, **common, effects=eff))

    # ---- hit objects ------------------------------------------------------
    hits: List[dict] = []
    holds: List[dict] = []
    obj_times: List[float] = []
    for f in obj_rows:
        what = ",".join(f)
        if len(f) != 6:
            p.bad(f"hit object with {len(f)} fields (6 expected): {what!r}")
            if len(f) < 5:
                continue
            f = (f + ["0:0:0:0:"])[:6] if len(f) == 5 else f[:5] + [",".join(f[5:])]
        x = p.int(f[0], "x")
        p.int(f[1], "y")
        t = float(p.int(f[2], "object time"))
        typ = p.int(f[3], "type")
        hs = p.int(f[4], "hitSound")
        if not 0 <= x <= 511:
            p.bad(f"x={x} outside 0..511: {what!r}")
        is_hold = bool(typ & 128)
        is_hit = bool(typ & 1)
        if is_hold == is_hit or typ & (2 | 8):
            p.bad(f"type {typ} is neither a mania hit (bit 0) nor a mania hold (bit 7): {what!r}")
            if not (is_hold or is_hit):
                continue
        ex = f[5].split(":", 5 if is_hold else 4)
        need = 6 if is_hold else 5
        if len(ex) != need:
            p.bad(f"type {typ} needs {need} ':'-separated extras, got {len(ex)}: {what!r}")
            continue
        if is_hold:
            end = float(p.int(ex[0], "hold endTime"))
            ex = ex[1:]
        if ":" in ex[4]:
            p.bad(f"extras do not match type {typ}: {what!r}")
        d = dict(
            offset=t,
            column=column_of_x(x, keys),
            hitsound_set=hs,
            sample_set=p.int(ex[0], "normalSet"),
            addition_set=p.int(ex[1], "additionSet"),
            custom_set=p.int(ex[2], "index"),
            volume=p.int(ex[3], "volume"),
            hitsound_file=ex[4],
            x=x,
            type=typ,
        )
        obj_times.append(t)
        if is_hold:
            d["length"] = end - t
            holds.append(d)
        else:
            hits.append(d)

    syntax = dict(
        version=version,
        sections=sections,
        objects_sorted=all(a <= b for a, b in zip(obj_times, obj_times[1:])),
        timing_sorted=all(a <= b for a, b in zip(tp_times, tp_times[1:])),
        n_lines=len(raw),
        problems=p.problems,
    )
    if strict and p.problems:
        raise OsuFormatError(p.problems)
    return dict(
        keys=keys,
        hits=hits,
        holds=holds,
        bpms=bpms,
        svs=svs,
        samples=samples,
        meta=meta,
        meta_present=present,
        extra=extra,
        syntax=syntax,
    )


# --------------------------------------------------------------------------- #
# comparing two plain-data charts (pure functions, shared by several checks)
# --------------------------------------------------------------------------- #
NOTE_EXACT = ["column", "hitsound_set", "sample_set", "addition_set", "custom_set", "volume", "hitsound_file"]
LIST_SPECS = {
    # list -> (time fields, value fields (relative tolerance), exact fields)
    "hits": (["offset"], [], NOTE_EXACT),
    "holds": (["offset", "tail"], [], NOTE_EXACT),
    "bpms": (["offset"], ["bpm"], ["metronome", "sample_set", "sample_set_index", "volume", "kiai"]),
    "svs": (["offset"], ["multiplier"], ["sample_set", "sample_set_index", "volume", "kiai"]),
    "samples": (["offset"], [], ["sample_file", "volume"]),
}
G6_FIELDS = [
    # written with six significant digits by the library ('%g')
    "distance_spacing",
    "timeline_zoom",
    "hp_drain_rate",
    "overall_difficulty",
    "approach_rate",
    "slider_multiplier",
    "slider_tick_rate",
]


def time_exact(src: float, dst: float) -> bool:
    return src == dst


def time_within_1ms(src: float, dst: float) -> bool:
    return abs(dst - src) < 1.0


def time_truncated(src: float, dst: float) -> bool:
    """dst is src moved by < 1 ms toward zero, or not at all (float slack 1e-6*max(1,|src|))."""
    if src == dst:
        return True
    tol = 1e-6 * max(1.0, abs(src))
    if not abs(dst - src) < 1.0:
        return False
    if abs(dst) > abs(src) + tol:
        return False
    if dst != 0 and (dst > 0) != (src > 0) and abs(src) > tol:
        return False
    return True


TIME_RULES = {"exact": time_exact, "ms": time_within_1ms, "trunc": time_truncated}


def _rel_close(a: float, b: float, rel: float) -> bool:
    if a == b:
        return True
    try:
        return abs(a - b) <= rel * max(abs(a), abs(b))
    except TypeError:
        return False


def _view(name: str, o: dict) -> dict:
    v = dict(o)
    if name == "holds":
        v["tail"] = o["offset"] + o["length"]
    if name == "samples":
        v["sample_file"] = strip_quotes(str(o["sample_file"]))
    return v


def _bad_fields(name: str, src: dict, dst: dict, trule, rel: float, exact_time: bool) -> List[str]:
    tf, vf, ef = LIST_SPECS[name]
    bad = []
    for f in ef:
        if not (f in src and f in dst and src[f] == dst[f]):
            bad.append(f)
    for f in vf:
        if not (f in src and f in dst and _rel_close(src[f], dst[f], rel)):
            bad.append(f)
    for f in tf:
        try:
            ok = trule(src[f], dst[f])
        except (TypeError, KeyError):
            ok = False
        if not ok:
            bad.append(f)
    if name == "holds" and exact_time and not bad and src["length"] != dst["length"]:
        bad.append("length")
    return bad


def match_objects(name: str, src: List[dict], dst: List[dict], time: str = "exact", rel: float = 1e-9):
    """Multiset comparison of one object list.  ``src`` is the original, ``dst`` what it became
    (the time rules 'trunc' is directional).  Returns a list of (kind, message); empty = same."""
    trule = TIME_RULES[time]
    exact_time = time == "exact"
    S = [_view(name, o) for o in src]
    D = [_view(name, o) for o in dst]
    out = []
    if len(S) != len(D):
        out.append((f"{name}:count", f"{len(D)} objects, expected {len(S)}"))
    tf, vf, ef = LIST_SPECS[name]

    def key(o):
        return tuple(repr(o.get(f)) for f in ef if f != "hitsound_file") + (o.get("offset", 0.0),)

    # fast path: same order after sorting
    if len(S) == len(D):
        s2 = sorted(S, key=key)
        d2 = sorted(D, key=key)
        if all(not _bad_fields(name, a, b, trule, rel, exact_time) for a, b in zip(s2, d2)):
            return out
    # general: bipartite matching (Kuhn)
    n, m = len(S), len(D)
    adj = [[j for j in range(m) if not _bad_fields(name, S[i], D[j], trule, rel, exact_time)] for i in range(n)]
    match_d = [-1] * m

    def try_(i, seen):
        for j in adj[i]:
            if j in seen:
                continue
            seen.add(j)
            if match_d[j] == -1 or try_(match_d[j], seen):
                match_d[j] = i
                return True
        return False

    un_s = [i for i in range(n) if not try_(i, set())]
    un_d = [j for j in range(m) if match_d[j] == -1]
    for i in un_s[:5]:
        # nearest unmatched counterpart names the clause that failed
        best = None
        for j in un_d:
            bad = _bad_fields(name, S[i], D[j], trule, rel, exact_time)
            dist = (len(bad), abs(D[j].get("offset", 0.0) - S[i].get("offset", 0.0)))
            if best is None or dist < best[0]:
                best = (dist, j, bad)
        if best is None:
            out.append((f"{name}:missing", f"no counterpart for {src[i]!r}"))
        else:
            _, j, bad = best
            out.append((f"{name}:{bad[0]}", f"expected {src[i]!r} ; nearest {dst[j]!r} ; differing {bad}"))
    if not un_s:
        for j in un_d[:5]:
            out.append((f"{name}:unexpected", f"unexpected object {dst[j]!r}"))
    return out


def diff_meta(src: dict, dst: dict, fields=None, rules: dict = None) -> List:
    """Compare metadata dicts field by field.  rules[field] in {'exact' (default), 'g6' (six
    significant digits), 'trunc' | 'ms' (a time), 'skip'}.  Returns [(kind, message)]."""
    rules = rules or {}
    out = []
    for f in fields if fields is not None else META_FIELDS:
        r = rules.get(f, "exact")
        if r == "skip":
            continue
        if f not in src or f not in dst:
            out.append((f"meta:{f}", f"field missing: src has={f in src} dst has={f in dst}"))
            continue
        a, b = src[f], dst[f]
        try:
            if r == "exact":
                ok = a == b and isinstance(a, str) == isinstance(b, str)
            elif r == "g6":
                ok = _rel_close(float(a), float(b), 5.0001e-6)
            else:
                ok = TIME_RULES[r](a, b)
        except (TypeError, ValueError):
            ok = False
        if not ok:
            out.append((f"meta:{f}", f"{f}: got {b!r}, expected {a!r} (rule {r})"))
    return out


def diff_charts(src: dict, dst: dict, time: str = "exact", rel: float = 1e-9, meta_fields=None, meta_rules=None,
                lists=("hits", "holds", "bpms", "svs", "samples")) -> List:
    """All differences between chart ``src`` (original) and ``dst`` (what it became) as
    [(kind, message)].  Object lists are multisets; ``time`` in {'exact','ms','trunc'} is the rule
    for every time (offsets, hold tails); bpm / SV values within relative ``rel``."""
    out = []
    if src.get("keys") != dst.get("keys"):
        out.append(("keys", f"key count {dst.get('keys')!r}, expected {src.get('keys')!r}"))
    for name in lists:
        out.extend(match_objects(name, src[name], dst[name], time, rel))
    out.extend(diff_meta(src["meta"], dst["meta"], meta_fields, meta_rules))
    return out
