"""Reference OJN (O2Jam note file) codec, independent of reamber (``struct`` only).

File layout (little endian)
---------------------------
* 300-byte header, 23 fields, see ``HEADER_LAYOUT`` (name, struct format).
  ``package_count[d]`` is the number of event packages of difficulty ``d``,
  ``note_offset[d]`` the byte at which its packages start (the three blocks are
  contiguous from byte 300), ``cover_offset``/``cover_size`` describe the cover
  image stored after the last block.
* a package is ``measure:int32, channel:int16, n:int16`` followed by ``n``
  4-byte events ("slots").  Slot ``i`` of ``n`` sits at measure position
  ``measure + i/n``; a measure is 4 beats.
    - channel 0      measure fraction (one float32)  -> not supported here
    - channel 1      tempo: float32 bpm, **0.0 = empty slot**
    - channel 2..8   notes of column ``channel - 2``:
                     ``value:int16, volume_pan:uint8, type:uint8``;
                     **value 0 = empty slot**; type 0 hit, 2 long-note head,
                     3 long-note tail; volume = high nibble, pan = low nibble
    - channel >= 9   auto-play samples, same event layout, not part of the chart

Plain-data *skeleton* (what ``encode`` takes, what ``vlib.gen.ojn`` produces;
JSON-able)::

    {"header": {<free header fields>, [<derived header fields>]},
     "charts": [ {"packages": [ {"measure": int, "channel": int, "slots": int,
                                 "events": [event, ...]}, ... ],     # file order
                  ["expect": ...]},                                  # ignored here
                 x3 ],
     "cover": "<hex>"}                                               # optional

    tempo event (channel 1)   [slot, bpm]                 bpm a float32 value > 0
    note event  (channel >=2) [slot, value, volume_pan, type]
    slots not mentioned are empty (4 zero bytes).

Header strings are ``str`` (ASCII, written NUL-padded; ``old_genre`` too).
The *derived* fields ``event_count note_count measure_count package_count
cover_size note_offset cover_offset`` are computed from the body by
``fill_header`` when the skeleton does not give them.

Public functions
----------------
``encode(skeleton) -> bytes``
``fill_header(skeleton) -> dict``          all 23 fields, as a correct reader decodes them
``decode_header(b) -> dict``               23 fields from the first 300 bytes
``decode_raw(b) -> skeleton-like dict``    header + packages, no interpretation
``interpret(packages, header_bpm) -> chart dict``   pairing + timing of one difficulty
``decode(b) -> {"meta": header, "charts": [chart x3]}``

A decoded *chart* is::

    {"hits":  [{"offset": ms, "column": c, "measure": Fraction, "volume", "pan", "value"}],
     "holds": [{"offset": ms, "column": c, "length": ms, "measure": Fraction,
                "tail_measure": Fraction, "volume", "pan", "value"}],
     "bpms":  [{"offset": ms, "bpm": v, "measure": Fraction}]}      # [0] = header bpm at 0 ms

``hits``/``holds`` are sorted by (measure, column); ``bpms`` is the header
tempo followed by the tempo events in position order (file order on ties, i.e.
the later one in the file is the one in force afterwards).  Milliseconds come
from ``vlib.ref.timing.BeatTimeline`` (time 0 = measure 0, 4 beats per measure).
"""
from __future__ import annotations

import struct
from fractions import Fraction
from typing import Dict, List, Sequence, Tuple

from vlib.ref.timing import BeatTimeline

HEADER_SIZE = 300
BEATS_PER_MEASURE = 4

# (field, struct format).  "Ns" = char[N]; "kX" = array of k.
HEADER_LAYOUT: List[Tuple[str, str]] = [
    ("song_id", "i"),
    ("signature", "4s"),
    ("encode_version", "f"),
    ("genre", "i"),
    ("bpm", "f"),
    ("level", "4h"),
    ("event_count", "3i"),
    ("note_count", "3i"),
    ("measure_count", "3i"),
    ("package_count", "3i"),
    ("old_encode_version", "h"),
    ("old_song_id", "h"),
    ("old_genre", "20s"),
    ("bmp_size", "i"),
    ("old_file_version", "i"),
    ("title", "64s"),
    ("artist", "32s"),
    ("creator", "32s"),
    ("ojm_file", "32s"),
    ("cover_size", "i"),
    ("duration", "3i"),
    ("note_offset", "3i"),
    ("cover_offset", "i"),
]
HEADER_FIELDS = [n for n, _ in HEADER_LAYOUT]
STRING_FIELDS = ("signature", "title", "artist", "creator", "ojm_file")  # decoded to str
BYTES_FIELDS = ("old_genre",)  # kept as the raw char[20]
FLOAT_FIELDS = ("encode_version", "bpm")
DERIVED_FIELDS = (
    "event_count",
    "note_count",
    "measure_count",
    "package_count",
    "cover_size",
    "note_offset",
    "cover_offset",
)
assert struct.calcsize("<" + "".join(f for _, f in HEADER_LAYOUT)) == HEADER_SIZE

CH_MEASURE_FRACTION = 0
CH_TEMPO = 1
CH_NOTE_FIRST, CH_NOTE_LAST = 2, 8
T_HIT, T_HEAD, T_TAIL = 0, 2, 3


class OJNError(ValueError):
    """The bytes are not an OJN file this reference understands."""


def f32(x: float) -> float:
    """Nearest float32 value, as a Python float (what a reader gets back)."""
    return struct.unpack("<f", struct.pack("<f", float(x)))[0]


def is_note_channel(ch: int) -> bool:
    return CH_NOTE_FIRST <= ch <= CH_NOTE_LAST


# --------------------------------------------------------------------------- #
# encoder
# --------------------------------------------------------------------------- #
def encode_package(pkg: dict) -> bytes:
    """One package -> bytes.  Empty slots are 4 zero bytes."""
    n = int(pkg["slots"])
    ch = int(pkg["channel"])
    slots = [b"\x00\x00\x00\x00"] * n
    for ev in pkg["events"]:
        i = int(ev[0])
        if not 0 <= i < n:
            raise OJNError(f"slot {i} outside package of {n} slots")
        if slots[i] != b"\x00\x00\x00\x00":
            raise OJNError(f"slot {i} used twice")
        if ch == CH_TEMPO:
            raw = struct.pack("<f", float(ev[1]))
        elif ch == CH_MEASURE_FRACTION:
            raise OJNError("measure-fraction packages are not supported")
        else:
            raw = struct.pack("<hBB", int(ev[1]), int(ev[2]), int(ev[3]))
        if raw == b"\x00\x00\x00\x00":
            raise OJNError("an enabled event may not encode as an empty slot")
        slots[i] = raw
    return struct.pack("<ihh", int(pkg["measure"]), ch, n) + b"".join(slots)


def _blocks(skel: dict) -> List[bytes]:
    charts = skel["charts"]
    if len(charts) != 3:
        raise OJNError("an OJN file has exactly three difficulties")
    return [b"".join(encode_package(p) for p in c["packages"]) for c in charts]


def _cover(skel: dict) -> bytes:
    return bytes.fromhex(skel.get("cover", "") or "")


def fill_header(skel: dict) -> dict:
    """The complete 23-field header of ``skel`` as a correct reader decodes it.

    Free fields are taken from ``skel["header"]`` (floats rounded to float32,
    ``old_genre`` turned into the NUL-padded ``bytes`` of the char[20]); derived
    fields are taken from the header if present, else computed from the body:
    package_count = number of packages, note_offset = start byte of each block,
    cover_offset = end of the last block, cover_size = len(cover),
    note_count = enabled note-channel events, event_count = all enabled events,
    measure_count = largest measure number.
    """
    h = dict(skel["header"])
    blocks = _blocks(skel)
    cover = _cover(skel)
    derived: Dict[str, object] = {}
    derived["package_count"] = [len(c["packages"]) for c in skel["charts"]]
    offs, pos = [], HEADER_SIZE
    for blk in blocks:
        offs.append(pos)
        pos += len(blk)
    derived["note_offset"] = offs
    derived["cover_offset"] = pos
    derived["cover_size"] = len(cover)
    derived["note_count"] = [
        sum(len(p["events"]) for p in c["packages"] if is_note_channel(p["channel"])) for c in skel["charts"]
    ]
    derived["event_count"] = [sum(len(p["events"]) for p in c["packages"]) for c in skel["charts"]]
    derived["measure_count"] = [max([p["measure"] for p in c["packages"]] or [0]) for c in skel["charts"]]
    out = {}
    for name, fmt in HEADER_LAYOUT:
        v = h[name] if name in h else derived[name] if name in derived else None
        if v is None:
            raise OJNError(f"header field {name} missing")
        if name in FLOAT_FIELDS:
            v = f32(v)
        elif name in BYTES_FIELDS:
            v = _pad(v, struct.calcsize(fmt), name)
        elif name in STRING_FIELDS:
            _pad(v, struct.calcsize(fmt), name)  # validates
        elif len(fmt) > 1:
            v = [int(x) for x in v]
            if len(v) != int(fmt[:-1]):
                raise OJNError(f"header field {name} needs {fmt[:-1]} values")
        else:
            v = int(v)
        out[name] = v
    return out


def _pad(s, size: int, name: str) -> bytes:
    raw = s if isinstance(s, bytes) else str(s).encode("ascii")
    if len(raw) > size:
        raise OJNError(f"header field {name} longer than {size} bytes")
    return raw.ljust(size, b"\x00")


def encode_header(header: dict) -> bytes:
    """Complete header dict (as from ``fill_header``) -> 300 bytes."""
    out = []
    for name, fmt in HEADER_LAYOUT:
        v = header[name]
        if fmt.endswith("s"):
            out.append(_pad(v, struct.calcsize(fmt), name))
        elif len(fmt) > 1:
            out.append(struct.pack("<" + fmt, *v))
        else:
            out.append(struct.pack("<" + fmt, v))
    raw = b"".join(out)
    assert len(raw) == HEADER_SIZE
    return raw


def encode(skel: dict) -> bytes:
    """Skeleton -> OJN bytes: header, three contiguous package blocks, cover."""
    return encode_header(fill_header(skel)) + b"".join(_blocks(skel)) + _cover(skel)


# --------------------------------------------------------------------------- #
# decoder
# --------------------------------------------------------------------------- #
def _cstr(raw: bytes) -> str:
    """char[N] -> str: up to the first NUL."""
    return raw.split(b"\x00", 1)[0].decode("latin-1")


def decode_header(b: bytes) -> dict:
    """First 300 bytes -> dict of the 23 fields (arrays as lists, char[] as str,
    ``old_genre`` as raw bytes)."""
    if len(b) < HEADER_SIZE:
        raise OJNError("shorter than the 300-byte header")
    out = {}
    pos = 0
    for name, fmt in HEADER_LAYOUT:
        size = struct.calcsize("<" + fmt)
        vals = struct.unpack("<" + fmt, b[pos : pos + size])
        pos += size
        if name in STRING_FIELDS:
            out[name] = _cstr(vals[0])
        elif name in BYTES_FIELDS:
            out[name] = vals[0]
        elif len(fmt) > 1:
            out[name] = list(vals)
        else:
            out[name] = vals[0]
    return out


def decode_packages(b: bytes, start: int, count: int) -> Tuple[List[dict], int]:
    """``count`` packages starting at byte ``start`` -> (packages, end byte).

    A package is returned in skeleton form (only enabled slots listed)."""
    pos = start
    pkgs = []
    for _ in range(count):
        if pos + 8 > len(b):
            raise OJNError("package header beyond end of file")
        measure, channel, n = struct.unpack("<ihh", b[pos : pos + 8])
        pos += 8
        if n < 0 or pos + 4 * n > len(b):
            raise OJNError("package events beyond end of file")
        events = []
        for i in range(n):
            raw = b[pos + 4 * i : pos + 4 * i + 4]
            if channel == CH_TEMPO:
                (v,) = struct.unpack("<f", raw)
                if v != 0.0:
                    events.append([i, v])
            elif channel == CH_MEASURE_FRACTION:
                (v,) = struct.unpack("<f", raw)
                events.append([i, v])
            else:
                value, vp, typ = struct.unpack("<hBB", raw)
                if value != 0:
                    events.append([i, value, vp, typ])
        pos += 4 * n
        pkgs.append(dict(measure=measure, channel=channel, slots=n, events=events))
    return pkgs, pos


def decode_raw(b: bytes, check_layout: bool = True) -> dict:
    """Bytes -> ``{"header", "charts": [{"packages": [...]}, x3], "cover": hex}``.

    Difficulty ``d`` is read at ``note_offset[d]`` for ``package_count[d]``
    packages.  With ``check_layout`` the blocks must be contiguous from byte
    300 and end at ``cover_offset`` (every file of the property's domain)."""
    h = decode_header(b)
    charts = []
    expect_start = HEADER_SIZE
    for d in range(3):
        start = h["note_offset"][d]
        if check_layout and start != expect_start:
            raise OJNError(f"difficulty {d} starts at {start}, previous block ended at {expect_start}")
        pkgs, end = decode_packages(b, start, h["package_count"][d])
        charts.append(dict(packages=pkgs))
        expect_start = end
    if check_layout and h["cover_offset"] != expect_start:
        raise OJNError(f"cover_offset {h['cover_offset']} != end of note data {expect_start}")
    cover = b[h["cover_offset"] : h["cover_offset"] + h["cover_size"]] if h["cover_offset"] >= HEADER_SIZE else b""
    return dict(header=h, charts=charts, cover=cover.hex())


def position(measure: int, slot: int, slots: int) -> Fraction:
    """Exact measure position of slot ``slot`` of ``slots`` in ``measure``."""
    return Fraction(measure) + Fraction(slot, slots)


def timeline(header_bpm: float, tempo: Sequence[Tuple[Fraction, float]]) -> BeatTimeline:
    """Tempo map of one difficulty: header bpm from 0 ms / measure 0, then the
    events ``(measure position, bpm)`` (stable on ties: later one wins)."""
    changes = [(Fraction(0), float(header_bpm))]
    changes += [(Fraction(p) * BEATS_PER_MEASURE, float(v)) for p, v in tempo]
    return BeatTimeline(0.0, changes)


def interpret(packages: Sequence[dict], header_bpm: float) -> dict:
    """Packages of one difficulty -> chart dict (see module doc).

    Long notes are paired per column in position order: a head (type 2) is
    closed by the next tail (type 3) of the same column.  Raises ``OJNError``
    for measure-fraction packages, unpaired heads/tails, unknown note types."""
    tempo: List[Tuple[Fraction, float]] = []
    per_col: Dict[int, list] = {}
    order = 0
    for p in packages:
        ch, n = p["channel"], p["slots"]
        if ch == CH_MEASURE_FRACTION:
            raise OJNError("measure-fraction package (channel 0)")
        if ch == CH_TEMPO:
            for i, v in p["events"]:
                tempo.append((position(p["measure"], i, n), float(v)))
        elif is_note_channel(ch):
            for i, value, vp, typ in p["events"]:
                order += 1
                per_col.setdefault(ch - CH_NOTE_FIRST, []).append((position(p["measure"], i, n), order, value, vp, typ))
    tempo.sort(key=lambda t: t[0])  # stable
    tl = timeline(header_bpm, tempo)

    def ms(pos: Fraction) -> float:
        return tl.ms(pos * BEATS_PER_MEASURE)

    hits, holds = [], []
    for col in sorted(per_col):
        pending = None
        for pos, _, value, vp, typ in sorted(per_col[col], key=lambda t: (t[0], t[1])):
            extra = dict(volume=vp // 16, pan=vp % 16, value=value)
            if typ == T_HIT:
                hits.append(dict(offset=ms(pos), column=col, measure=pos, **extra))
            elif typ == T_HEAD:
                if pending is not None:
                    raise OJNError(f"column {col}: head at {pos} while a long note is open")
                pending = (pos, extra)
            elif typ == T_TAIL:
                if pending is None:
                    raise OJNError(f"column {col}: tail at {pos} without head")
                hpos, hextra = pending
                pending = None
                start = ms(hpos)
                holds.append(
                    dict(offset=start, column=col, length=ms(pos) - start, measure=hpos, tail_measure=pos, **hextra)
                )
            else:
                raise OJNError(f"column {col}: note type {typ}")
        if pending is not None:
            raise OJNError(f"column {col}: head at {pending[0]} never closed")
    hits.sort(key=lambda x: (x["measure"], x["column"]))
    holds.sort(key=lambda x: (x["measure"], x["column"]))
    bpms = [dict(offset=0.0, bpm=float(header_bpm), measure=Fraction(0))]
    # tl.times[k] belongs to the k-th change in position order = header, then `tempo`
    for (pos, v), t in zip(tempo, tl.times[1:]):
        bpms.append(dict(offset=t, bpm=v, measure=pos))
    return dict(hits=hits, holds=holds, bpms=bpms)


def decode(b: bytes, check_layout: bool = True) -> dict:
    """OJN bytes -> ``{"meta": <23 header fields>, "charts": [chart x3]}``."""
    raw = decode_raw(b, check_layout=check_layout)
    bpm = raw["header"]["bpm"]
    return dict(meta=raw["header"], charts=[interpret(c["packages"], bpm) for c in raw["charts"]])
