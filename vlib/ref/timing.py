"""Reference tempo integration, independent of reamber.

Two views:

* ``BeatTimeline`` – tempo changes at cumulative beat positions (Fractions);
  ms(beat) is the piecewise-linear integral of 60000/bpm.
* ``MeasureTimeline`` – tempo changes given as (bpm, metronome, measure, beat);
  a position (measure, beat) is converted under the change that is active at
  that position.
"""
from __future__ import annotations

from bisect import bisect_right
from fractions import Fraction
from typing import List, Sequence, Tuple

MIN_TO_MS = 60000.0


class BeatTimeline:
    def __init__(self, init_ms: float, changes: Sequence[Tuple[Fraction, float]]):
        ch = sorted(((Fraction(b), float(v)) for b, v in changes), key=lambda t: t[0])
        assert ch and ch[0][0] == 0, "first tempo change must sit at beat 0"
        self.beats: List[Fraction] = [c[0] for c in ch]
        self.bpms: List[float] = [c[1] for c in ch]
        self.times: List[float] = [float(init_ms)]
        for i in range(1, len(ch)):
            self.times.append(
                self.times[-1] + float(self.beats[i] - self.beats[i - 1]) * MIN_TO_MS / self.bpms[i - 1]
            )

    def seg_of_beat(self, beat) -> int:
        return max(0, bisect_right(self.beats, Fraction(beat)) - 1)

    def ms(self, beat) -> float:
        beat = Fraction(beat)
        i = self.seg_of_beat(beat)
        return self.times[i] + float(beat - self.beats[i]) * MIN_TO_MS / self.bpms[i]

    def seg_of_ms(self, ms: float, eps: float = 1e-6) -> int:
        return max(0, bisect_right(self.times, ms + eps) - 1)

    def beat_of(self, ms: float) -> float:
        """Inverse (float beats)."""
        i = self.seg_of_ms(ms)
        return float(self.beats[i]) + (ms - self.times[i]) * self.bpms[i] / MIN_TO_MS

    def bpm_at_ms(self, ms: float) -> float:
        return self.bpms[self.seg_of_ms(ms)]


class MeasureTimeline:
    """changes: list of (bpm, metronome, measure:int, beat:Fraction), first at (0, 0)."""

    def __init__(self, init_ms: float, changes):
        ch = sorted(changes, key=lambda c: (c[2], Fraction(c[3])))
        assert ch[0][2] == 0 and Fraction(ch[0][3]) == 0
        self.ch = [(float(b), Fraction(m), int(me), Fraction(be)) for b, m, me, be in ch]
        self.times = [float(init_ms)]
        for a, b in zip(self.ch[:-1], self.ch[1:]):
            beats = (b[2] - a[2]) * a[1] + (b[3] - a[3])
            self.times.append(self.times[-1] + float(beats) * MIN_TO_MS / a[0])

    def active(self, measure: int, beat) -> int:
        q = (int(measure), Fraction(beat))
        act = 0
        for i, c in enumerate(self.ch):
            if (c[2], c[3]) <= q:
                act = i
        return act

    def ms(self, measure: int, beat) -> float:
        i = self.active(measure, beat)
        c = self.ch[i]
        beats = (int(measure) - c[2]) * c[1] + (Fraction(beat) - c[3])
        return self.times[i] + float(beats) * MIN_TO_MS / c[0]
