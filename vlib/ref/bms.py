"""Reference BMS interpreter, independent of reamber (never import it here).

    parse(text_or_bytes, layout_name) -> plain data

The interpreter implements the BMS rules the properties C04/C05 (and later the
conversion / rate / row-order checks) talk about, for 4/4 charts:

* a line ``#mmmcc:d0d1...d(n-1)`` puts object ``d_i`` (two base-36 characters,
  ``00`` = nothing) of channel ``cc`` at measure position ``mmm + i/n``;
  several lines for one (measure, channel) add up; line order is irrelevant;
* a measure has 4 beats; channel 03 objects are tempo changes whose id is the
  bpm in hexadecimal, channel 08 objects are tempo changes whose bpm is the
  header value ``#BPM<id>``; the tempo before the first change is ``#BPM``;
  milliseconds are the integral of 60000/bpm over beats from time 0
  (``vlib.ref.timing.BeatTimeline``);
* channels of the chosen layout are lanes (column numbers below); per lane the
  objects are ordered by position and an object whose id is the ``#LNOBJ``
  header closes the preceding object of that lane into a hold (head = that
  object, sample = sample of the head); every other object is a hit;
* the sample of an object is ``#WAV<id>`` ('' when that header is missing);
* all other channels (BGM 01, BGA 04/06/07, lanes that are not part of the
  layout, ...) do not produce notes.

``parse`` is total: it never raises on malformed input, it *reports*:

    "comments"   lines that do not start with '#'
    "bad_lines"  '#' lines that match neither ``#KEY [value]`` nor ``#mmmcc:data``
                 with even-length base-36 data (and 03 objects that are not hex)
    "conflicts"  inputs outside the domain of the properties (sorted list of tags):
                 'lowercase-id', 'time-signature' (channel 02), 'stop' (09),
                 'no-bpm', 'unknown-exbpm', 'tempo-same-position',
                 'lane-same-position', 'lnobj-without-head', 'lnobj-as-note'
                 (cannot be told apart, reported only through the former two),
                 'duplicate-header'

Returned dict (all JSON-able; Fractions as "n/d" strings):

    layout, header {KEY: value}   every header except #WAVxx / #BPMxx (keys upper-cased,
                                  includes TITLE, ARTIST, PLAYLEVEL, BPM, LNOBJ when present)
    title, artist, version        '' when absent (version = #PLAYLEVEL)
    bpm0                          float(#BPM) or None
    lnobj                         '#LNOBJ' id or None
    exbpms {id: float}, samples {id: str}
    tempo  [[beat, bpm], ...]     effective tempo list, first entry at beat "0/1"
                                  (a change at position 0 replaces #BPM)
    hits   [{offset, column, sample, beat, id}]                      sorted by (column, beat)
    holds  [{offset, column, length, sample, beat, tail_beat, id}]   sorted by (column, beat)
    lines_per_key {"mmmcc": number of lines}, objects (count of non-00 objects),
    ignored (count of objects in channels that are neither tempo nor lanes)

``offset``/``length`` are ms (None when the tempo list cannot be built).
"""
from __future__ import annotations

import re
from fractions import Fraction
from typing import Dict, List, Optional, Tuple, Union

from vlib.ref.timing import BeatTimeline

BEATS_PER_MEASURE = 4
ENCODING = "shift_jis"

# channel -> column, written down from the BMS/BME/PMS key conventions
# (11-19 = player 1, 21-29 = player 2; BME: 16 scratch, 18/19 keys 6/7;
#  PMS: 11-15 + 22-25; 5-button PMS: 13-15 + 22-23)
LAYOUTS: Dict[str, Dict[str, int]] = {
    "BMS": {"11": 0, "12": 1, "13": 2, "14": 3, "15": 4, "16": 5, "17": 6,
            "21": 7, "22": 8, "23": 9, "24": 10, "25": 11, "26": 12, "27": 13},
    "BME": {"16": 0, "11": 1, "12": 2, "13": 3, "14": 4, "15": 5, "18": 6, "19": 7,
            "21": 8, "22": 9, "23": 10, "24": 11, "25": 12, "28": 13, "29": 14, "26": 15},
    "PMS": {"11": 0, "12": 1, "13": 2, "14": 3, "15": 4, "22": 5, "23": 6, "24": 7, "25": 8},
    "PMS_BME": {"11": 0, "12": 1, "13": 2, "14": 3, "15": 4, "18": 5, "19": 6, "16": 7, "17": 8,
                "21": 9, "22": 10, "23": 11, "24": 12, "25": 13, "28": 14, "29": 15, "26": 16, "27": 17},
    "PMS_5B": {"13": 0, "14": 1, "15": 2, "22": 3, "23": 4},
}
LAYOUT_NAMES = list(LAYOUTS)

CH_TIME_SIG = "02"
CH_BPM = "03"
CH_EXBPM = "08"
CH_STOP = "09"

B36 = "0123456789ABCDEFGHIJKLMNOPQRSTUVWXYZ"

_DATA_RE = re.compile(r"#(\d{3})([0-9A-Za-z]{2}):(\S*)\Z")
_HEAD_RE = re.compile(r"#([A-Za-z][0-9A-Za-z_]*)(?:[ \t]+(.*))?\Z", re.S)
_IDS_RE = re.compile(r"(?:[0-9A-Za-z]{2})+\Z")


def b36(n: int) -> str:
    """0..1295 -> two upper-case base-36 characters."""
    assert 0 <= n < 36 * 36
    return B36[n // 36] + B36[n % 36]


def columns_of(layout: str) -> List[int]:
    return sorted(LAYOUTS[layout].values())


def channel_of(layout: str, column: int) -> str:
    for ch, col in LAYOUTS[layout].items():
        if col == column:
            return ch
    raise KeyError((layout, column))


def _frs(x: Fraction) -> str:
    return f"{x.numerator}/{x.denominator}"


def split_lines(data: Union[str, bytes]) -> List[str]:
    """Text or shift_jis bytes -> stripped lines (CRLF / LF / CR)."""
    if isinstance(data, (bytes, bytearray)):
        data = bytes(data).decode(ENCODING, errors="replace")
    return [ln.strip() for ln in re.split(r"\r\n|\n|\r", data)]


def parse(data: Union[str, bytes, List[str]], layout: str = "BME", ids_as_spelled: bool = False) -> dict:
    """Interpret a BMS text (str, shift_jis bytes, or list of lines). See module doc.

    ids_as_spelled=False (default): object / #WAV / #BPMxx / #LNOBJ ids are upper-cased and any lower-case spelling is
    reported as the 'lowercase-id' conflict (outside the domain).  True: ids are taken exactly as spelled (a text that
    spells every id the same way in its headers and its data denotes the same chart under either reading); channel-03
    hexadecimal values are case-insensitive in both modes."""
    lay = LAYOUTS[layout]
    lines = [ln.strip() for ln in data] if isinstance(data, list) else split_lines(data)

    header: Dict[str, str] = {}
    samples: Dict[str, str] = {}
    exbpms: Dict[str, float] = {}
    comments: List[str] = []
    bad: List[str] = []
    conflicts = set()
    objs: List[Tuple[Fraction, str, str, int]] = []  # (measure position, channel, id, file order)
    lines_per_key: Dict[str, int] = {}

    for ln in lines:
        if not ln:
            continue
        if not ln.startswith("#"):
            comments.append(ln)
            continue
        m = _DATA_RE.match(ln)
        if m:
            meas, ch, seq = int(m.group(1)), m.group(2), m.group(3)
            if not seq or not _IDS_RE.match(seq):
                bad.append(ln)
                continue
            if ids_as_spelled:
                ch = ch.upper()
            elif ch != ch.upper() or seq != seq.upper():
                conflicts.add("lowercase-id")
                ch, seq = ch.upper(), seq.upper()
            key = f"{meas:03d}{ch}"
            lines_per_key[key] = lines_per_key.get(key, 0) + 1
            if ch == CH_TIME_SIG:
                conflicts.add("time-signature")
                continue
            n = len(seq) // 2
            for i in range(n):
                p = seq[2 * i : 2 * i + 2]
                if p == "00":
                    continue
                if ch == CH_BPM and not re.fullmatch(r"[0-9A-F]{2}", p):
                    bad.append(ln)
                    continue
                objs.append((Fraction(meas) + Fraction(i, n), ch, p, len(objs)))
            continue
        m = _HEAD_RE.match(ln)
        if not m:
            bad.append(ln)
            continue
        raw_key, val = m.group(1), (m.group(2) or "")
        key = raw_key.upper()
        if len(key) == 5 and key.startswith("WAV"):
            kid = raw_key[3:] if ids_as_spelled else key[3:]
            if raw_key[3:] != raw_key[3:].upper() and not ids_as_spelled:
                conflicts.add("lowercase-id")
            if kid in samples:
                conflicts.add("duplicate-header")
            samples[kid] = val
        elif len(key) == 5 and key.startswith("BPM"):
            kid = raw_key[3:] if ids_as_spelled else key[3:]
            if raw_key[3:] != raw_key[3:].upper() and not ids_as_spelled:
                conflicts.add("lowercase-id")
            if kid in exbpms:
                conflicts.add("duplicate-header")
            try:
                exbpms[kid] = float(val)
            except ValueError:
                bad.append(ln)
        else:
            if key in header:
                conflicts.add("duplicate-header")
            header[key] = val

    bpm0: Optional[float] = None
    if "BPM" in header:
        try:
            bpm0 = float(header["BPM"])
        except ValueError:
            bpm0 = None
    if bpm0 is None:
        conflicts.add("no-bpm")
    lnobj = header.get("LNOBJ") or None
    if lnobj is not None and lnobj != lnobj.upper() and not ids_as_spelled:
        conflicts.add("lowercase-id")
        lnobj = lnobj.upper()

    # ---- tempo ------------------------------------------------------------
    changes: Dict[Fraction, float] = {}
    for pos, ch, p, _ in objs:
        if ch == CH_STOP:
            conflicts.add("stop")
        if ch not in (CH_BPM, CH_EXBPM):
            continue
        if ch == CH_BPM:
            v = float(int(p, 16))
        elif p in exbpms:
            v = exbpms[p]
        else:
            conflicts.add("unknown-exbpm")
            continue
        beat = pos * BEATS_PER_MEASURE
        if beat in changes:
            conflicts.add("tempo-same-position")
        changes[beat] = v
    tempo: List[Tuple[Fraction, float]] = sorted(changes.items())
    if not tempo or tempo[0][0] != 0:
        tempo.insert(0, (Fraction(0), bpm0))
    timeline = None
    if all(v is not None and v > 0 for _, v in tempo):
        timeline = BeatTimeline(0.0, tempo)

    def ms(beat: Fraction) -> Optional[float]:
        return None if timeline is None else timeline.ms(beat)

    # ---- lanes ------------------------------------------------------------
    per_col: Dict[int, List[Tuple[Fraction, int, str]]] = {}
    ignored = 0
    for pos, ch, p, order in objs:
        if ch in lay:
            per_col.setdefault(lay[ch], []).append((pos * BEATS_PER_MEASURE, order, p))
        elif ch not in (CH_BPM, CH_EXBPM):
            ignored += 1
    hits: List[dict] = []
    holds: List[dict] = []
    for col in sorted(per_col):
        lst = sorted(per_col[col])
        for a, b in zip(lst, lst[1:]):
            if a[0] == b[0]:
                conflicts.add("lane-same-position")
        prev: Optional[Tuple[Fraction, str]] = None  # the preceding object if it is still an open hit
        for beat, _, p in lst:
            if lnobj is not None and p == lnobj:
                if prev is None:
                    conflicts.add("lnobj-without-head")
                    continue
                hb, hid = prev
                t0, t1 = ms(hb), ms(beat)
                holds.append(
                    dict(
                        offset=t0,
                        column=col,
                        length=None if t0 is None else t1 - t0,
                        sample=samples.get(hid, ""),
                        beat=_frs(hb),
                        tail_beat=_frs(beat),
                        id=hid,
                    )
                )
                hits.pop()
                prev = None
            else:
                hits.append(dict(offset=ms(beat), column=col, sample=samples.get(p, ""), beat=_frs(beat), id=p))
                prev = (beat, p)

    key = lambda d: (d["column"], Fraction(d["beat"]))  # noqa: E731
    hits.sort(key=key)
    holds.sort(key=key)
    return dict(
        layout=layout,
        header=header,
        title=header.get("TITLE", ""),
        artist=header.get("ARTIST", ""),
        version=header.get("PLAYLEVEL", ""),
        bpm0=bpm0,
        lnobj=lnobj,
        exbpms=exbpms,
        samples=samples,
        tempo=[[_frs(b), v] for b, v in tempo],
        hits=hits,
        holds=holds,
        comments=comments,
        bad_lines=bad,
        conflicts=sorted(conflicts),
        lines_per_key=lines_per_key,
        objects=len(objs),
        ignored=ignored,
    )
