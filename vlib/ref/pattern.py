"""Reference model for reamber.algorithms.pattern (C20).  Must not import reamber.

A *note* is a triple ``(column:int, offset:float, kind:str)`` where ``kind`` is a class name
(``Hit``, ``Hold``, ``HoldTail``, ``OsuHit``, ``OsuHold``).  A *group* is a list of notes, a
*sequence* a tuple of notes (one per consecutive group).

Everything here is written from the docstrings of ``Pattern.group``, ``PtnCombo.combinations`` and the
three ``Option`` classes in ``filters/PtnFilter.py`` – not from the numpy code.

Where a docstring admits more than one reading the functions return a *verdict* in {True, False, None}
(None = readings disagree, leave unasserted) and the expected result is a pair of multisets
``must <= got <= may``.
"""
from __future__ import annotations

from collections import Counter
from itertools import permutations, product
from typing import Dict, Iterable, List, Optional, Sequence, Tuple

Note = Tuple[int, float, str]

# documented class hierarchy (name -> names it is a subclass of)
ANCESTORS: Dict[str, frozenset] = {
    "Hit": frozenset({"Hit", "Note", "object"}),
    "Hold": frozenset({"Hold", "Note", "object"}),
    "HoldTail": frozenset({"HoldTail", "Note", "object"}),
    "OsuHit": frozenset({"OsuHit", "Hit", "Note", "object"}),
    "OsuHold": frozenset({"OsuHold", "Hold", "Note", "object"}),
}
NOTE_KINDS = ["Hit", "Hold", "HoldTail", "OsuHit", "OsuHold"]
FILTER_KINDS = ["Hit", "Hold", "HoldTail", "OsuHit", "OsuHold", "Note", "object"]


def is_sub(kind: str, cls: str) -> bool:
    return cls in ANCESTORS[kind]


# --------------------------------------------------------------------------- #
# grouping: validity predicate (no expected grouping – maximality is not asserted)
# --------------------------------------------------------------------------- #
def group_violations(notes: Sequence[Note], groups: Sequence[Sequence[Note]], v, h: Optional[int], avoid_jack: bool):
    """Yield (kind, message) for every clause of the grouping statement that does not hold."""
    out = []
    want = Counter(notes)
    got = Counter(n for g in groups for n in g)
    if got != want:
        missing = want - got
        extra = got - want
        if missing:
            out.append(("note-missing", f"not in any group: {sorted(missing.elements())[:6]}"))
        if extra:
            out.append(("note-twice-or-foreign", f"more often in groups than in the input: {sorted(extra.elements())[:6]}"))
    for gi, g in enumerate(groups):
        if len(g) == 0:
            out.append(("empty-group", f"group {gi} is empty"))
            continue
        c0, t0, _ = g[0]
        hi = t0 + v
        for c, t, k in g:
            if not (t0 <= t <= hi):
                out.append(("v-window", f"group {gi}: first=({c0},{t0}) v={v}: note ({c},{t},{k}) outside [{t0},{hi}]"))
                break
        if h is not None:
            for c, t, k in g:
                if abs(c - c0) > h:
                    out.append(("h-window", f"group {gi}: first column {c0} h={h}: note ({c},{t},{k})"))
                    break
        if avoid_jack:
            cols = [c for c, _, _ in g]
            if len(set(cols)) != len(cols):
                out.append(("jack-in-group", f"group {gi} repeats a column: {list(g)[:8]}"))
    return out


# --------------------------------------------------------------------------- #
# option expansion, from the Option docstrings
# --------------------------------------------------------------------------- #
COMBO_REPEAT, COMBO_HMIRROR, COMBO_VMIRROR = 1, 2, 4
CHORD_ANY_ORDER, CHORD_AND_LOWER, CHORD_AND_HIGHER = 1, 2, 4
TYPE_ANY_ORDER, TYPE_MIRROR = 1, 2


def combo_allowed(bases: Iterable[Sequence[int]], keys: int, opt: int) -> set:
    """Column sequences accepted by a PtnFilterCombo.

    REPEAT  : every horizontal translation of the base that stays inside columns 0..keys-1
              ([0][1] -> [0][1],[1][2],[2][3] for keys=4)
    HMIRROR : c -> keys-1-c      ([0][1] -> [0][1],[2][3] for keys=4)
    VMIRROR : reversed sequence  ([0][1] -> [0][1],[1][0])
    The three operations commute as set operations, so the closure does not depend on an order.
    """
    s = {tuple(int(c) for c in b) for b in bases}
    if opt & COMBO_REPEAT:
        t = set()
        for b in s:
            for d in range(-keys, keys + 1):
                sh = tuple(c + d for c in b)
                if all(0 <= c < keys for c in sh):
                    t.add(sh)
        s |= t
    if opt & COMBO_HMIRROR:
        s |= {tuple(keys - 1 - c for c in b) for b in s}
    if opt & COMBO_VMIRROR:
        s |= {tuple(reversed(b)) for b in s}
    return s


def chord_ambiguous_config(bases: Sequence[Sequence[int]], opt: int) -> bool:
    """Configurations whose meaning the docstring does not pin down for every size tuple."""
    nb = len({tuple(b) for b in bases})
    lo, hi = bool(opt & CHORD_AND_LOWER), bool(opt & CHORD_AND_HIGHER)
    return (lo and hi) or ((lo or hi) and nb > 1)


def chord_verdict(sizes: Sequence[int], bases: Sequence[Sequence[int]], keys: int, opt: int, exclude: bool):
    """True / False / None(ambiguous) : does a window with these group sizes pass the chord filter?

    ANY_ORDER  : every permutation of a base            ([2][2][1] -> [2][2][1],[1][2][2],[2][1][2])
    AND_LOWER  : every sequence elementwise in 1..base  ([2][2][1] -> +[1][2][1],[2][1][1],[1][1][1])
    AND_HIGHER : "the opposite": elementwise in base..keys
    Unambiguous part (``must``): the union over the bases of each option applied to that base; ANY_ORDER
    commutes with the elementwise options for one base.
    Left open (``may``): (a) several bases with AND_LOWER/AND_HIGHER – the bound could be taken over all
    bases together; (b) AND_LOWER together with AND_HIGHER – one could be applied to the result of the
    other; (c) AND_HIGHER for sizes above ``keys`` (only reachable with jacks inside a group).
    """
    s = tuple(int(x) for x in sizes)
    bs = {tuple(int(x) for x in b) for b in bases}
    if opt & CHORD_ANY_ORDER:
        bs = {p for b in bs for p in permutations(b)}
    lo, hi = bool(opt & CHORD_AND_LOWER), bool(opt & CHORD_AND_HIGHER)
    in_must = s in bs
    if not in_must and lo:
        in_must = any(all(1 <= x <= b for x, b in zip(s, p)) for p in bs)
    if not in_must and hi:
        in_must = any(all(b <= x <= keys for x, b in zip(s, p)) for p in bs)
    in_may = in_must
    if not in_may:
        if lo and hi:
            in_may = True
        else:
            flat = [x for b in bs for x in b]
            if lo and len(bs) > 1 and all(1 <= x <= max(flat) for x in s):
                in_may = True
            if hi and len(bs) > 1 and all(x >= min(flat) for x in s):
                in_may = True
            if hi and any(x > keys for x in s) and any(all(b <= x for x, b in zip(s, p)) for p in bs):
                in_may = True
    if exclude:
        pass_must, pass_may = (not in_may), (not in_must)
    else:
        pass_must, pass_may = in_must, in_may
    if pass_must:
        return True
    if not pass_may:
        return False
    return None


def type_rows(bases: Iterable[Sequence[str]], opt: int) -> set:
    """ANY_ORDER: all permutations; MIRROR: plus the flipped copy (a permutation, so both = ANY_ORDER)."""
    rows = {tuple(b) for b in bases}
    if opt & TYPE_ANY_ORDER:
        rows = {p for b in rows for p in permutations(b)}
    if opt & TYPE_MIRROR:
        rows |= {tuple(reversed(b)) for b in rows}
    return rows


def type_match(kinds: Sequence[str], rows: Iterable[Sequence[str]]) -> bool:
    """A sequence matches when it is, position by position, a subclass of some row."""
    return any(all(is_sub(k, c) for k, c in zip(kinds, row)) for row in rows)


# --------------------------------------------------------------------------- #
# expected combinations
# --------------------------------------------------------------------------- #
def expected_sequences(groups: Sequence[Sequence[Note]], size: int, chord=None, combo=None, typ=None, keys: int = 4):
    """(must, may, info): Counters of sequences, from itertools.product over consecutive groups.

    chord/combo/typ are None or dict(base=[[..]], opt=int, excl=bool).  Filters combine with AND.
    """
    must: Counter = Counter()
    may: Counter = Counter()
    info = dict(windows=0, win_pass=0, win_fail=0, win_amb=0, seq_total=0, seq_rej_combo=0, seq_rej_type=0)
    allowed = combo_allowed(combo["base"], keys, combo["opt"]) if combo else None
    rows = type_rows(typ["base"], typ["opt"]) if typ else None
    for i in range(0, len(groups) - size + 1):
        chunk = groups[i : i + size]
        info["windows"] += 1
        verdict = True
        if chord:
            verdict = chord_verdict([len(g) for g in chunk], chord["base"], keys, chord["opt"], chord["excl"])
        if verdict is False:
            info["win_fail"] += 1
            continue
        info["win_pass" if verdict else "win_amb"] += 1
        for seq in product(*chunk):
            info["seq_total"] += 1
            if allowed is not None:
                ok = tuple(n[0] for n in seq) in allowed
                if ok == bool(combo["excl"]):
                    info["seq_rej_combo"] += 1
                    continue
            if rows is not None:
                ok = type_match([n[2] for n in seq], rows)
                if ok == bool(typ["excl"]):
                    info["seq_rej_type"] += 1
                    continue
            may[seq] += 1
            if verdict:
                must[seq] += 1
    return must, may, info


def fold_pairs(c: Counter) -> Counter:
    """make_size2: every sequence contributes its consecutive pairs."""
    out: Counter = Counter()
    for seq, k in c.items():
        for a, b in zip(seq, seq[1:]):
            out[(a, b)] += k
    return out


# --------------------------------------------------------------------------- #
# templates, from their docstrings
# --------------------------------------------------------------------------- #
def expected_jacks(groups, minimum_length: int):
    """template_jacks: 'all jacks that last at least minimum_length notes' as pairs.

    must: same-column runs over minimum_length consecutive groups with no HoldTail in them;
    may : also the runs that contain a HoldTail (the docstring does not say whether a release counts).
    Returned as *sets* of pairs (multiplicity of a highlighted pair is not documented).
    """
    must, may = set(), set()
    n = minimum_length
    for i in range(0, len(groups) - n + 1):
        for seq in product(*groups[i : i + n]):
            if len({x[0] for x in seq}) != 1:
                continue
            pairs = set(zip(seq, seq[1:]))
            may |= pairs
            if all(x[2] != "HoldTail" for x in seq):
                must |= pairs
    return must, may


def expected_chord_stream(groups, primary: int, secondary: int, and_lower: bool, include_jack: bool):
    """template_chord_stream: pairs from two consecutive chords of sizes (primary, secondary).

    must: sizes == (primary, secondary) [and_lower: elementwise <=], no shared column unless include_jack,
          no HoldTail in the pair;
    may : additionally the swapped order (secondary, primary) and pairs containing a HoldTail – the
          docstring is silent on both.
    """
    must, may = set(), set()
    for a, b in zip(groups, groups[1:]):
        la, lb = len(a), len(b)
        if and_lower:
            ordered = la <= primary and lb <= secondary
            swapped = la <= secondary and lb <= primary
        else:
            ordered = (la, lb) == (primary, secondary)
            swapped = (la, lb) == (secondary, primary)
        if not (ordered or swapped):
            continue
        for x, y in product(a, b):
            if not include_jack and x[0] == y[0]:
                continue
            may.add((x, y))
            if ordered and x[2] != "HoldTail" and y[2] != "HoldTail":
                must.add((x, y))
    return must, may
