"""CLI:  python -m vlib.run <Cxx> [--tier quick|thorough] [--replay FILE] [--sub NAME] [--scale F]"""
from __future__ import annotations

import argparse
import importlib
import logging
import os
import sys
import warnings


def main(argv=None) -> int:
    ap = argparse.ArgumentParser()
    ap.add_argument("prop")
    ap.add_argument("--tier", default=os.environ.get("VERIF_TIER") or "quick", choices=["quick", "thorough"])
    ap.add_argument("--replay")
    ap.add_argument("--sub")
    ap.add_argument("--scale", type=float, default=float(os.environ.get("VERIF_SCALE", "1")))
    args = ap.parse_args(argv)

    warnings.filterwarnings("ignore")
    logging.disable(logging.CRITICAL)

    repo = os.path.realpath(os.environ.get("VERIF_REPO", "/repo"))
    try:
        import reamber
    except Exception as e:  # noqa: BLE001
        print(f"HARNESS-ERROR cannot import reamber: {e!r}")
        return 2
    here = os.path.realpath(os.path.dirname(reamber.__file__))
    if not here.startswith(repo + os.sep):
        print(f"HARNESS-ERROR reamber imported from {here}, expected under {repo}")
        return 2

    from vlib import core

    try:
        seed = int(os.environ.get("VERIF_SEED", "1") or "1")
    except ValueError:
        seed = 1
    try:
        mod = importlib.import_module(f"vlib.props.{args.prop}")
    except Exception as e:  # noqa: BLE001
        import traceback

        traceback.print_exc()
        print(f"HARNESS-ERROR cannot import property module {args.prop}: {e!r}")
        return 2
    try:
        if args.replay:
            return core.replay(mod, args.replay, args.tier)
        return core.run_property(mod, args.tier, seed, only_sub=args.sub, scale=args.scale)
    except core.HarnessError as e:
        print(f"HARNESS-ERROR property={args.prop}: {e}")
        return 2


if __name__ == "__main__":
    sys.exit(main())
