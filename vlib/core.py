"""Harness shared by every property check.

A property module (vlib/props/Cxx.py) exposes

    PROPERTY_ID = "Cxx"
    RULE        = "<how cases are generated, what makes one non-trivial>"
    ASSUMPTIONS = [...]
    SUBS        = [Sub(...), ...]
    KNOWN_PREDICATES = {"name": lambda case, failure: bool}      (optional)

A *case* is plain JSON-able data.  ``Sub.check(case, ctx)`` runs the code under
test and the oracle, and reports through ``ctx``:

    ctx.call(what, fn, *a)   run reamber code; an exception is a failure
                             ``exc:<what>:<Type>`` and ends the case
    ctx.fail(kind, msg)      oracle mismatch (bucket = sub/kind)
    ctx.label(name)          class counter
    ctx.nt(cond)             mark the case non-trivial
    ctx.exclude(reason)      case is outside the property's domain; counted

Phase A collects failures in buckets and keeps going; phase B shrinks one
representative per new bucket with Hypothesis and writes the replay file.
Exit codes: 0 held (known findings only reported), 1 new violation,
2 harness error.
"""
from __future__ import annotations

import hashlib
import json
import math
import multiprocessing as mp
import os
import re
import sys
import time
import traceback
from dataclasses import dataclass, field
from fractions import Fraction
from typing import Any, Callable, Dict, Iterable, List, Optional

VERIF_DIR = os.path.dirname(os.path.dirname(os.path.abspath(__file__)))
OUT_DIR = os.environ.get("VERIF_OUT") or VERIF_DIR  # evidence/ and replays/ live here


# --------------------------------------------------------------------------- #
# small helpers shared by property modules
# --------------------------------------------------------------------------- #
def fr(x) -> Fraction:
    """'n/d' | int | Fraction -> Fraction."""
    if isinstance(x, Fraction):
        return x
    if isinstance(x, str):
        return Fraction(x)
    return Fraction(x)


def frs(x: Fraction) -> str:
    x = Fraction(x)
    return f"{x.numerator}/{x.denominator}"


def close(a: float, b: float, rel: float = 1e-6, abs_: float = 1e-6) -> bool:
    if a is None or b is None:
        return a is b
    a = float(a)
    b = float(b)
    if math.isnan(a) or math.isnan(b):
        return math.isnan(a) and math.isnan(b)
    if math.isinf(a) or math.isinf(b):
        return a == b
    return abs(a - b) <= max(abs_, rel * max(abs(a), abs(b)))


def canon(case) -> str:
    return json.dumps(case, sort_keys=True, separators=(",", ":"), default=str)


def sha(case) -> str:
    return hashlib.sha1(canon(case).encode()).hexdigest()


def derive_seed(*parts) -> int:
    h = hashlib.sha256("|".join(str(p) for p in parts).encode()).digest()
    return int.from_bytes(h[:8], "big") % (2**63)


class HarnessError(Exception):
    pass


class _StopCase(Exception):
    pass


class _BucketHit(AssertionError):
    pass


# --------------------------------------------------------------------------- #
@dataclass
class Failure:
    sub: str
    kind: str
    msg: str

    @property
    def bucket(self) -> str:
        return f"{self.sub}/{self.kind}"


class Ctx:
    """Per-case recorder handed to Sub.check."""

    def __init__(self, sub: str, tier: str):
        self.sub = sub
        self.tier = tier
        self.failures: List[Failure] = []
        self.labels: List[str] = []
        self.nontrivial = False
        self.excluded: Optional[str] = None
        self.touched = False

    # -- reporting ---------------------------------------------------------
    def fail(self, kind: str, msg: str = "") -> None:
        if len(self.failures) < 50:
            self.failures.append(Failure(self.sub, kind, str(msg)[:2000]))

    def label(self, name: str, cond: bool = True) -> None:
        if cond:
            self.labels.append(name)

    def nt(self, cond: bool = True) -> None:
        if cond:
            self.nontrivial = True

    def exclude(self, reason: str) -> None:
        self.excluded = reason
        raise _StopCase()

    def stop(self) -> None:
        raise _StopCase()

    def harness(self, cond: bool, msg: str) -> None:
        if not cond:
            raise HarnessError(f"{self.sub}: {msg}")

    # -- running the code under test ---------------------------------------
    def call(self, what: str, fn: Callable, *a, **k):
        """Run code under test.  Any exception is a failure of the case."""
        self.touched = True
        try:
            return fn(*a, **k)
        except (_StopCase, HarnessError):
            raise
        except Exception as e:  # noqa: BLE001 - the contract is "yields a result"
            if isinstance(e, CaseTimeout):
                _disarm()
            self.fail(f"exc:{what}:{type(e).__name__}", _short_tb(e))
            raise _StopCase()

    def raises(self, what: str, exc_types, fn: Callable, *a, **k) -> bool:
        """Documented rejection: fn must raise one of exc_types."""
        self.touched = True
        try:
            fn(*a, **k)
        except exc_types:
            return True
        except Exception as e:  # noqa: BLE001
            self.fail(f"wrong-exc:{what}:{type(e).__name__}", _short_tb(e))
            return False
        self.fail(f"no-exc:{what}", "expected a documented rejection")
        return False

    def eq(self, kind: str, got, exp, msg: str = "") -> bool:
        if got != exp:
            self.fail(kind, f"{msg} got={got!r} expected={exp!r}")
            return False
        return True

    def near(self, kind: str, got, exp, rel=1e-6, abs_=1e-6, msg: str = "") -> bool:
        try:
            ok = close(got, exp, rel, abs_)
        except (TypeError, ValueError):
            ok = False
        if not ok:
            self.fail(kind, f"{msg} got={got!r} expected={exp!r}")
        return ok


def _short_tb(e: BaseException) -> str:
    tb = traceback.extract_tb(e.__traceback__)
    frames = [f"{os.path.basename(f.filename)}:{f.lineno}:{f.name}" for f in tb[-4:]]
    return f"{type(e).__name__}: {str(e)[:300]} @ {' < '.join(reversed(frames))}"


# --------------------------------------------------------------------------- #
@dataclass
class Sub:
    """One executable sub-check of a property."""

    name: str
    check: Callable[[Any, Ctx], None]
    strategy: Optional[Callable[[str], Any]] = None  # tier -> SearchStrategy
    enumerate: Optional[Callable[[str], Iterable[Any]]] = None  # tier -> cases
    examples: Dict[str, int] = field(default_factory=lambda: {"quick": 300, "thorough": 3000})
    shards: Dict[str, int] = field(default_factory=lambda: {"quick": 2, "thorough": 16})
    exhaustive: bool = False
    doc: str = ""
    fuzz: Optional[Dict[str, float]] = None  # tier -> seconds of atheris campaign per fuzz process (None = no campaign)
    fuzz_procs: int = 4


class CaseTimeout(Exception):
    """The code under test did not return within VERIF_CASE_TIMEOUT_S (default 300 s, i.e. 10^3..10^5 times the normal
    cost of a case): a hang detector, not a performance check.  Raised inside the case by SIGALRM, so it is recorded
    like any other exception of the call that was running (failure kind exc:<what>:CaseTimeout, with a replay)."""


def _alarm(signum, frame):
    raise CaseTimeout("no result within the per-case watchdog limit")


def _disarm():
    """Stop the re-firing watchdog (called as soon as a CaseTimeout has been caught by the harness)."""
    try:
        import signal

        signal.setitimer(signal.ITIMER_REAL, 0)
    except (ValueError, AttributeError):
        pass


def run_case(sub: Sub, case, tier: str) -> Ctx:
    import signal

    limit = float(os.environ.get("VERIF_CASE_TIMEOUT_S", "300"))
    armed = False
    try:
        old = signal.signal(signal.SIGALRM, _alarm)
        signal.setitimer(signal.ITIMER_REAL, limit, 2.0)  # re-fires: an alarm swallowed inside a gc callback or __del__ is not lost
        armed = True
    except (ValueError, AttributeError):  # not the main thread / no SIGALRM: run without the watchdog
        pass
    try:
        try:
            return _run_case(sub, case, tier)
        except CaseTimeout as e:  # fired outside every handler (e.g. while a handler was unwinding)
            _disarm()
            ctx = Ctx(sub.name, tier)
            ctx.touched = True
            ctx.fail("exc:case:CaseTimeout", _short_tb(e))
            return ctx
    finally:
        if armed:
            signal.setitimer(signal.ITIMER_REAL, 0)
            signal.signal(signal.SIGALRM, old)


def _run_case(sub: Sub, case, tier: str) -> Ctx:
    ctx = Ctx(sub.name, tier)
    try:
        sub.check(case, ctx)
    except _StopCase:
        pass
    except HarnessError:
        raise
    except Exception as e:  # noqa: BLE001
        if isinstance(e, CaseTimeout):
            _disarm()
            ctx.touched = True
        if ctx.touched:
            # the oracle tripped over what the code under test returned
            fn = traceback.extract_tb(e.__traceback__)[-1].name
            ctx.fail(f"exc:oracle:{type(e).__name__}@{fn}", _short_tb(e))
        else:
            raise HarnessError(
                f"{sub.name}: generator/reference raised before the code under test ran: "
                f"{_short_tb(e)}\ncase={canon(case)[:1500]}"
            ) from e
    return ctx


# --------------------------------------------------------------------------- #
# known findings
# --------------------------------------------------------------------------- #
def load_known(prop_id: str) -> List[dict]:
    path = os.path.join(VERIF_DIR, "known_findings.json")
    if not os.path.exists(path):
        return []
    with open(path) as fh:
        data = json.load(fh)
    return [
        f
        for f in data.get("findings", [])
        if f.get("property") == prop_id and f.get("status") == "known"
    ]


def match_known(known: List[dict], preds: dict, case, f: Failure) -> Optional[dict]:
    for k in known:
        if k.get("sub") and k["sub"] != f.sub:
            continue
        if k.get("kind") and not re.fullmatch(k["kind"], f.kind):
            continue
        pred = k.get("match")
        if pred:
            fn = preds.get(pred)
            if fn is None:
                raise HarnessError(f"known finding {k.get('id')} names unknown predicate {pred}")
            if not fn(case, f):
                continue
        return k
    return None


# --------------------------------------------------------------------------- #
# Phase A : collect
# --------------------------------------------------------------------------- #
class Stats:
    def __init__(self):
        self.evaluations = 0
        self.hashes_nt: set = set()
        self.hashes: set = set()
        self.labels: Dict[str, int] = {}
        self.excluded: Dict[str, int] = {}
        self.known_hits: Dict[str, int] = {}
        self.buckets: Dict[str, dict] = {}  # bucket -> {count, case, msg, seed}
        self.samples: List[Any] = []  # (hash, case) small set
        self.wall = 0.0

    def absorb(self, other: "Stats"):
        self.evaluations += other.evaluations
        self.hashes |= other.hashes
        self.hashes_nt |= other.hashes_nt
        for d, o in ((self.labels, other.labels), (self.excluded, other.excluded), (self.known_hits, other.known_hits)):
            for k, v in o.items():
                d[k] = d.get(k, 0) + v
        for b, rec in other.buckets.items():
            if b not in self.buckets:
                self.buckets[b] = rec
            else:
                mine = self.buckets[b]
                mine["count"] += rec["count"]
                if len(canon(rec["case"])) < len(canon(mine["case"])):
                    rec["count"] = mine["count"]
                    self.buckets[b] = rec
        self.samples.extend(other.samples)
        self.wall += other.wall


def _record(stats: Stats, sub: Sub, case, ctx: Ctx, known, preds, seed, sub_label):
    stats.evaluations += 1
    h = sha(case)
    stats.hashes.add(h)
    if ctx.excluded:
        stats.excluded[ctx.excluded] = stats.excluded.get(ctx.excluded, 0) + 1
        return
    for lab in set(ctx.labels):
        key = f"{sub_label}:{lab}"
        stats.labels[key] = stats.labels.get(key, 0) + 1
    if ctx.nontrivial:
        if h not in stats.hashes_nt:
            stats.hashes_nt.add(h)
            cj = canon(case)
            if len(cj) <= 6000:
                stats.samples.append((h, sub_label, case))
                if len(stats.samples) > 24:
                    stats.samples.sort(key=lambda t: t[0])
                    del stats.samples[12:]
    for f in ctx.failures:
        k = match_known(known, preds, case, f)
        if k is not None:
            kid = k.get("id", "?")
            stats.known_hits[kid] = stats.known_hits.get(kid, 0) + 1
            continue
        rec = stats.buckets.get(f.bucket)
        if rec is None:
            stats.buckets[f.bucket] = dict(count=1, case=case, msg=f.msg, seed=seed, sub=sub.name)
        else:
            rec["count"] += 1
            if len(canon(case)) < len(canon(rec["case"])):
                rec.update(case=case, msg=f.msg, seed=seed)


def _hyp_settings(n: int, shrink: bool):
    from hypothesis import HealthCheck, Phase, settings

    return settings(
        max_examples=n,
        database=None,
        deadline=None,
        derandomize=False,
        report_multiple_bugs=False,
        print_blob=False,
        phases=[Phase.generate, Phase.shrink] if shrink else [Phase.generate],
        suppress_health_check=[HealthCheck.too_slow, HealthCheck.data_too_large, HealthCheck.large_base_example],
    )


def _job(args) -> Stats:
    """Phase A for one (sub, shard). Runs in a worker process."""
    mod_name, sub_name, tier, seed, n_examples, shard, n_shards = args
    import importlib

    mod = importlib.import_module(mod_name)
    sub = next(s for s in mod.SUBS if s.name == sub_name)
    known = load_known(mod.PROPERTY_ID)
    preds = getattr(mod, "KNOWN_PREDICATES", {})
    stats = Stats()
    t0 = time.time()
    if sub.enumerate is not None:
        for i, case in enumerate(sub.enumerate(tier)):
            if i % n_shards != shard:
                continue
            ctx = run_case(sub, case, tier)
            _record(stats, sub, case, ctx, known, preds, seed, sub.name)
    else:
        import hypothesis
        from hypothesis import given

        strat = sub.strategy(tier)

        @hypothesis.seed(seed)
        @_hyp_settings(n_examples, shrink=False)
        @given(strat)
        def collect(case):
            ctx = run_case(sub, case, tier)
            _record(stats, sub, case, ctx, known, preds, seed, sub.name)

        try:
            collect()
        except HarnessError:
            raise
        except Exception as e:  # health check etc.
            raise HarnessError(f"{sub.name}: hypothesis error in collect: {_short_tb(e)}") from e
    stats.wall = time.time() - t0
    return stats


def _job_safe(args):
    try:
        return ("ok", _job(args))
    except HarnessError as e:
        return ("harness", str(e))
    except Exception as e:  # noqa: BLE001
        return ("harness", f"worker crashed: {_short_tb(e)}\n{traceback.format_exc()[-1500:]}")


# --------------------------------------------------------------------------- #
# coverage-guided campaigns (atheris/libFuzzer through Hypothesis' fuzz_one_input)
# --------------------------------------------------------------------------- #
def run_fuzz(mod, subs, tier: str, seed: int, total: "Stats", scale: float = 1.0) -> dict:
    """Runs vlib.fuzz for every sub that asks for it in this tier; merges what they recorded into `total`.
    Returns the 'fuzz' evidence block.  A missing atheris is reported, never an error or a violation."""
    import shutil
    import subprocess
    import tempfile

    report = {}
    todo = [(s, s.fuzz[tier]) for s in subs if s.fuzz and s.fuzz.get(tier) and s.strategy is not None]
    if not todo:
        return report
    try:
        import atheris  # noqa: F401
    except Exception as e:  # noqa: BLE001
        return {"skipped": f"atheris not importable ({type(e).__name__}); run ./setup.sh"}
    work = tempfile.mkdtemp(prefix="vfuzz_")
    try:
        procs = []
        for sub, budget in todo:
            budget = max(5.0, budget * scale)
            for i in range(sub.fuzz_procs):
                mode = "empty" if i % 2 == 0 else "seeded"
                out = os.path.join(work, f"{sub.name}.{i}.json")
                corpus = os.path.join(work, f"corpus.{sub.name}.{i}")
                os.makedirs(corpus)
                s = derive_seed(seed, mod.PROPERTY_ID, sub.name, "fuzz", i)
                cmd = [sys.executable, "-m", "vlib.fuzz", mod.PROPERTY_ID, sub.name, tier, str(s), str(budget), out, corpus, mode]
                log = open(os.path.join(work, f"{sub.name}.{i}.log"), "w")
                procs.append((sub, i, mode, out, budget, subprocess.Popen(cmd, stdout=log, stderr=subprocess.STDOUT, cwd=VERIF_DIR), log))
        for sub, i, mode, out, budget, p, log in procs:
            try:
                p.wait(timeout=budget + 120)
            except subprocess.TimeoutExpired:
                p.kill()
            log.close()
            rep = report.setdefault(sub.name, dict(engine="atheris 3.1 / libFuzzer via hypothesis fuzz_one_input", budget_s_per_process=budget, processes=0, executions=0, cases=0, new_distinct_cases=0, corpus_modes=[]))
            if not os.path.exists(out):
                rep.setdefault("errors", []).append(f"process {i}: no output (rc={p.returncode})")
                continue
            with open(out) as fh:
                d = json.load(fh)
            if d.get("harness"):
                raise HarnessError(f"fuzz {sub.name}: {d['harness']}")
            st_ = Stats()
            st_.evaluations = d["evaluations"]
            st_.hashes = set(d["hashes"])
            st_.hashes_nt = set(d["hashes_nt"])
            st_.labels = d["labels"]
            st_.excluded = d["excluded"]
            st_.known_hits = d["known_hits"]
            st_.buckets = d["buckets"]
            st_.samples = [tuple(x) for x in d["samples"]]
            new = len(st_.hashes - total.hashes)
            total.absorb(st_)
            rep["processes"] += 1
            rep["executions"] += d["execs"]
            rep["cases"] += d["evaluations"]
            rep["new_distinct_cases"] += new
            rep["corpus_modes"].append(mode)
    finally:
        shutil.rmtree(work, ignore_errors=True)
    return report


# --------------------------------------------------------------------------- #
# Phase B : shrink one bucket
# --------------------------------------------------------------------------- #
def shrink_bucket(mod, sub: Sub, bucket: str, rec: dict, tier: str, n_examples: int, budget_s: float = 120.0):
    """Re-run the seeded strategy with only `bucket` raising; return minimal case."""
    known = load_known(mod.PROPERTY_ID)
    preds = getattr(mod, "KNOWN_PREDICATES", {})
    best = {"case": rec["case"], "msg": rec["msg"], "size": len(canon(rec["case"]))}
    if sub.enumerate is not None:
        return best["case"], best["msg"]
    import hypothesis
    from hypothesis import given

    t0 = time.time()
    strat = sub.strategy(tier)

    @hypothesis.seed(rec["seed"])
    @_hyp_settings(n_examples, shrink=True)
    @given(strat)
    def hunt(case):
        if time.time() - t0 > budget_s:
            return
        ctx = run_case(sub, case, tier)
        for f in ctx.failures:
            if f.bucket == bucket and match_known(known, preds, case, f) is None:
                size = len(canon(case))
                if size <= best["size"]:
                    best.update(case=case, msg=f.msg, size=size)
                raise _BucketHit(f.msg)

    try:
        hunt()
    except HarnessError:
        raise
    except BaseException:  # noqa: BLE001 - AssertionError, Flaky, ... : we keep our own best
        pass
    return best["case"], best["msg"]


# --------------------------------------------------------------------------- #
# driver
# --------------------------------------------------------------------------- #
def _regress_cases(prop_id: str):
    d = os.path.join(VERIF_DIR, "regress", prop_id)
    if not os.path.isdir(d):
        return []
    out = []
    for fn in sorted(os.listdir(d)):
        if fn.endswith(".json"):
            with open(os.path.join(d, fn)) as fh:
                out.append((fn, json.load(fh)))
    return out


def write_replay(prop_id: str, bucket: str, sub: str, case, msg: str, tier: str, seed: int) -> str:
    d = os.path.join(OUT_DIR, "replays", prop_id)
    os.makedirs(d, exist_ok=True)
    name = re.sub(r"[^A-Za-z0-9_.-]+", "_", bucket)[:80] + "-" + sha(case)[:10] + ".json"
    path = os.path.join(d, name)
    with open(path, "w") as fh:
        json.dump(
            dict(property=prop_id, sub=sub, bucket=bucket, message=msg, tier=tier, seed=seed, case=case),
            fh,
            indent=1,
            sort_keys=True,
            default=str,
        )
    return os.path.relpath(path, VERIF_DIR) if OUT_DIR == VERIF_DIR else path


def replay(mod, path: str, tier: str) -> int:
    with open(path) as fh:
        data = json.load(fh)
    sub = next((s for s in mod.SUBS if s.name == data["sub"]), None)
    if sub is None:
        print(f"HARNESS-ERROR unknown sub {data['sub']}")
        return 2
    known = load_known(mod.PROPERTY_ID)
    preds = getattr(mod, "KNOWN_PREDICATES", {})
    ctx = run_case(sub, data["case"], data.get("tier", tier))
    bad = 0
    for f in ctx.failures:
        k = match_known(known, preds, data["case"], f)
        tag = f"KNOWN({k.get('id')})" if k else "FAIL"
        print(f"{tag} {f.bucket}: {f.msg}")
        if not k:
            bad += 1
    if ctx.excluded:
        print(f"EXCLUDED {ctx.excluded}")
    if bad:
        print(f"VIOLATION property={mod.PROPERTY_ID} replay={path}")
        return 1
    print(f"REPLAY-OK property={mod.PROPERTY_ID} {path}")
    return 0


def run_property(mod, tier: str, seed: int, only_sub: Optional[str] = None, scale: float = 1.0) -> int:
    t0 = time.time()
    prop_id = mod.PROPERTY_ID
    known = load_known(prop_id)
    preds = getattr(mod, "KNOWN_PREDICATES", {})
    subs = [s for s in mod.SUBS if only_sub in (None, s.name)]
    total = Stats()
    per_sub: Dict[str, dict] = {}

    # tier 0: committed regression cases (seconds)
    n_regress = 0
    for fn, data in _regress_cases(prop_id):
        sub = next((s for s in mod.SUBS if s.name == data.get("sub")), None)
        if sub is None or sub not in subs:
            continue
        ctx = run_case(sub, data["case"], tier)
        _record(total, sub, data["case"], ctx, known, preds, 0, sub.name)
        n_regress += 1

    jobs = []
    for sub in subs:
        n_shards = sub.shards.get(tier, 1)
        n_ex = max(1, int(sub.examples.get(tier, 100) * scale))
        for sh in range(n_shards):
            s = derive_seed(seed, prop_id, sub.name, sh)
            jobs.append((mod.__name__, sub.name, tier, s, n_ex, sh, n_shards))
    nproc = max(1, min(int(os.environ.get("VERIF_PROCS", "16")), len(jobs)))
    if nproc == 1:
        results = [_job_safe(j) for j in jobs]
    else:
        ctxmp = mp.get_context("fork")
        with ctxmp.Pool(nproc, maxtasksperchild=1) as pool:
            results = pool.map(_job_safe, jobs, chunksize=1)
    for j, (status, res) in zip(jobs, results):
        if status != "ok":
            print(f"HARNESS-ERROR property={prop_id} sub={j[1]}: {res}")
            return 2
        ps = per_sub.setdefault(j[1], dict(evaluations=0, distinct_nontrivial=set(), wall_s=0.0))
        ps["evaluations"] += res.evaluations
        ps["distinct_nontrivial"] |= res.hashes_nt
        ps["wall_s"] = max(ps["wall_s"], res.wall)
        total.absorb(res)

    # coverage-guided campaigns (thorough tier of the reader properties)
    fuzz_report = run_fuzz(mod, subs, tier, seed, total, scale)

    # Phase B
    violations = []
    # Phase B is bounded as a whole: one badly broken tree can open dozens of buckets (a revert of the row-label fix opens
    # 84 in C08).  Each bucket gets VERIF_SHRINK_S, all of them together VERIF_SHRINK_TOTAL_S; once that is used up the
    # remaining buckets are reported with the smallest failing case seen in phase A (still a replayable violation).
    t_shrink0 = time.time()
    shrink_total = float(os.environ.get("VERIF_SHRINK_TOTAL_S", "600"))
    for bucket, rec in sorted(total.buckets.items()):
        sub = next(s for s in mod.SUBS if s.name == rec["sub"])
        n_ex = max(1, int(sub.examples.get(tier, 100) * scale))
        try:
            if time.time() - t_shrink0 > shrink_total:
                case, msg = rec["case"], rec["msg"]
            else:
                case, msg = shrink_bucket(mod, sub, bucket, rec, tier, n_ex, budget_s=float(os.environ.get("VERIF_SHRINK_S", "90")))
        except HarnessError as e:
            print(f"HARNESS-ERROR property={prop_id} shrink {bucket}: {e}")
            return 2
        path = write_replay(prop_id, bucket, sub.name, case, msg, tier, seed)
        violations.append((bucket, path, msg, rec["count"]))

    # known finding lines
    all_known = {k.get("id"): k for k in known}
    for kid, k in all_known.items():
        hits = total.known_hits.get(kid, 0)
        print(f"KNOWN-FINDING: property={prop_id} {kid} {k.get('what', '')} (hits this run: {hits})")

    wall = time.time() - t0
    evidence = build_evidence(mod, tier, seed, total, per_sub, violations, wall, n_regress, subs)
    if fuzz_report:
        evidence["coverage"]["fuzz"] = fuzz_report
    ev_path = os.path.join(OUT_DIR, "evidence", f"{prop_id}.json")
    os.makedirs(os.path.dirname(ev_path), exist_ok=True)
    with open(ev_path, "w") as fh:
        json.dump(evidence, fh, indent=1, sort_keys=True, default=str)
    ok_ev = evidence["coverage"]["distinct_nontrivial"] >= 2 and evidence["coverage"]["evaluations"] >= 1
    for bucket, path, msg, count in violations:
        print(f"  bucket {bucket} x{count}: {msg[:400]}")
        print(f"VIOLATION property={prop_id} replay={path}")
    if violations:
        return 1
    if not ok_ev and only_sub is None:
        print(f"HARNESS-ERROR property={prop_id}: fewer than 2 distinct non-trivial cases generated")
        return 2
    print(
        f"OK property={prop_id} tier={tier} seed={seed} evaluations={total.evaluations} "
        f"distinct_nontrivial={len(total.hashes_nt)} regress={n_regress} wall={wall:.1f}s"
    )
    return 0


def build_evidence(mod, tier, seed, total: Stats, per_sub, violations, wall, n_regress, subs) -> dict:
    samples = sorted(total.samples, key=lambda t: t[0])
    # spread samples over sub-checks
    seen = {}
    picked = []
    for h, sub, case in samples:
        if seen.get(sub, 0) < 2:
            seen[sub] = seen.get(sub, 0) + 1
            picked.append({"sub": sub, "case": case})
    picked = picked[:10]
    if not picked and total.evaluations:
        picked = [{"note": "no non-trivial case small enough to print"}]
    cov = dict(
        evaluations=total.evaluations,
        distinct_cases=len(total.hashes),
        distinct_nontrivial=len(total.hashes_nt),
        rule=mod.RULE,
        samples=picked,
        classes=dict(sorted(total.labels.items())),
        excluded=dict(sorted(total.excluded.items())),
        known_findings_hit=dict(sorted(total.known_hits.items())),
        regression_cases_replayed=n_regress,
        sub_checks={
            k: dict(evaluations=v["evaluations"], distinct_nontrivial=len(v["distinct_nontrivial"]), wall_s=round(v["wall_s"], 2))
            for k, v in per_sub.items()
        },
        exhaustive_sub_checks=[s.name for s in subs if s.exhaustive],
        new_buckets=[dict(bucket=b, replay=p, count=c, message=m[:500]) for b, p, m, c in violations],
    )
    if subs and all(s.exhaustive for s in subs):
        cov["exhaustive"] = True
    return dict(
        property_id=mod.PROPERTY_ID,
        tier=tier,
        seed=int(seed),
        level="exploration",
        coverage=cov,
        assumptions=list(getattr(mod, "ASSUMPTIONS", [])),
        wall_s=round(wall, 2),
        violations=len(violations),
    )
