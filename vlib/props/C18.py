"""C18 Hitsound copy moves sounds, never notes, and loses nothing it promises to keep."""
from __future__ import annotations

from collections import Counter

from hypothesis import strategies as st

from vlib.core import Sub
from vlib.gen import build as B

PROPERTY_ID = "C18"
RULE = (
    "Hypothesis-generated pairs (source, target) of osu charts built through the public constructors: note times of both "
    "sides come from one pool of 1..5 (thorough 8) times (grid, integer and fractional ms) so that several source notes "
    "share a time and times are shared by / private to either side; source notes carry hitsound_set bit-fields "
    "(normal=1, clap=2, finish=4, whistle=8 and their unions), volumes from a drawn set of 1..3 values out of 0..100 "
    "(so volume groups repeat and differ), named samples (hitsound_file) and occasionally sample/addition/custom sets; "
    "hits and holds on both sides, rows shuffled, key counts drawn independently, hit lists sometimes grown by append(item) after construction; targets with fewer notes at a time "
    "than the source has sounds (overflow), stacked target notes, targets with their own hitsounds and their own event "
    "samples; both charts have tempo/SV lists and metadata. Oracle: plain-Python per-time multiset accounting over the "
    "generated rows (no reamber code). Non-trivial = some time that has >= 1 target note where the source needs more "
    "slots than there are target notes, or where the source's sounds fall in >= 2 volume groups."
)
ASSUMPTIONS = [
    "a 'named sample of the source' is a non-empty hitsound_file on a source note; the source's own [Events] samples are generated but not asserted either way (the routine does not read them)",
    "the target's own event samples are generated (class 'tgt-own-event-samples') but whether they survive is not asserted; they are only allowed as an excuse for extra event samples in the result",
    "default sounds that do not fit on a target note are dropped by the routine; the statement promises only 'as many as the target's notes at that time can hold', so nothing more is asserted for them",
    "the volume of a sound is taken as part of the sound (the quantifier names volumes): kinds named-volume / cfw-volume are separate from the volume-free clauses",
    "kind slot-count (number of sounding result notes at t == min(sum over volume groups of max(#clap,#finish,#whistle)+#named, #target notes at t)) is the DESIGN oracle and follows the merging rule documented in the routine's comment table; the statement-only form of the clause is kind dropped-while-free",
    "sample_set/addition_set/custom_set of a result note must be 0 or a value some source note has at that time (reading of 'every hitsound it carries was present in the source at the same time')",
    "file names contain no ';' (the routine joins names with ';'); volumes are 0..100; hold lengths are finite (a NaN length is how the routine tells hits from holds)",
    "times/columns/lengths compared exactly, other values by meaning (dtype and row labels free)",
]

BIT = {"normal": 1, "clap": 2, "finish": 4, "whistle": 8}
CFW = ("clap", "finish", "whistle")
FILES = ["a.wav", "b.wav", "c.ogg", "soft-hitclap2.wav"]
HS_VALUES = [0, 0, 2, 4, 8, 2, 4, 8, 6, 10, 12, 14, 1, 3, 15, 5, 9]
VOLS = [0, 20, 30, 40, 70, 100]
SET_FIELDS = ("sample_set", "addition_set", "custom_set")


# ---------------------------------------------------------------------------
# generator
# ---------------------------------------------------------------------------
@st.composite
def _time_pool(draw, n):
    kind = draw(st.sampled_from(["grid", "int", "frac", "mixed", "late-cluster"]))
    if kind == "late-cluster":
        # minutes into the chart, times 1 ms or a fraction of a ms apart: "at the same time" means the same time,
        # however large the numbers are (a relative float tolerance would merge these)
        base = float(draw(st.sampled_from([100000, 240000, 600000, 3599000])))
        steps = draw(st.lists(st.sampled_from([0.0, 0.5, 1.0, 2.0, 3.0, 5.0, -1.0]), min_size=2, max_size=max(2, n), unique=True))
        return [base + d for d in steps]
    out = []
    for _ in range(n):
        k = kind if kind != "mixed" else draw(st.sampled_from(["grid", "int", "frac"]))
        if k == "grid":
            t = float(draw(st.integers(-4, 200)) * 125)
        elif k == "int":
            t = float(draw(st.integers(-2000, 200000)))
        else:
            t = draw(st.integers(-2000, 200000)) + draw(st.sampled_from([0.5, 0.25, 0.75, 0.1, 0.333, 0.999]))
        if t not in out:
            out.append(t)
    return out


_length_st = st.one_of(st.sampled_from([125.0, 250.0, 1000.0, 0.5, 0.0]), st.floats(0.5, 5000.0, allow_nan=False).map(lambda x: round(x, 3)))


@st.composite
def _notes(draw, keys, pool, vols, n, sounds: str):
    """sounds: 'rich' (source), 'own' (target with its own hitsounds), 'none' (silent target)."""
    hits, holds = [], []
    for _ in range(n):
        row = dict(offset=draw(st.sampled_from(pool)), column=draw(st.integers(0, keys - 1)))
        if sounds == "none":
            row.update(hitsound_set=0, sample_set=0, addition_set=0, custom_set=0, volume=draw(st.sampled_from([0, 0] + vols)), hitsound_file="")
        else:
            p_file = 3 if sounds == "rich" else 4
            row.update(
                hitsound_set=draw(st.sampled_from(HS_VALUES)),
                sample_set=draw(st.sampled_from([0, 0, 0, 0, 0, 1, 2, 3])),
                addition_set=draw(st.sampled_from([0, 0, 0, 0, 0, 1, 2, 3])),
                custom_set=draw(st.sampled_from([0, 0, 0, 0, 0, 1, 2])),
                volume=draw(st.sampled_from(vols)),
                hitsound_file=draw(st.sampled_from(FILES)) if draw(st.integers(0, p_file - 1)) == 0 else "",
            )
        if draw(st.integers(0, 2)) == 0:
            row["length"] = draw(_length_st)
            holds.append(row)
        else:
            hits.append(row)
    return hits, holds


@st.composite
def _chart(draw, keys, pool, vols, n, sounds, n_samples):
    hits, holds = draw(_notes(keys, pool, vols, n, sounds))
    if len(hits) > 1:
        hits = list(draw(st.permutations(hits)))
    if len(holds) > 1:
        holds = list(draw(st.permutations(holds)))
    tpool = pool + [0.0, -250.0]
    lists = dict(
        hits=hits,
        holds=holds,
        bpms=draw(B.st_rows("osu", "bpms", keys, 3, tpool, min_rows=1)),
        svs=draw(B.st_rows("osu", "svs", keys, 3, tpool)),
    )
    meta = draw(B.st_meta("osu", keys))
    meta["samples"] = [
        dict(offset=draw(st.sampled_from(tpool)), sample_file=draw(st.sampled_from(FILES + ["own.wav"])), volume=draw(st.sampled_from(VOLS)))
        for _ in range(n_samples)
    ]
    return dict(game="osu", keys=keys, lists=lists, meta=meta)


@st.composite
def case_st(draw, tier):
    big = tier == "thorough"
    pool = draw(_time_pool(draw(st.integers(1, 8 if big else 5))))
    vols = draw(st.lists(st.one_of(st.sampled_from(VOLS), st.integers(0, 100)), min_size=1, max_size=3, unique=True))
    ks = draw(st.sampled_from(B.KEYS["osu"]))
    kt = ks if draw(st.booleans()) else draw(st.sampled_from(B.KEYS["osu"]))
    n_src = draw(st.integers(0, 30 if big else 12))
    n_tgt = draw(st.integers(0, 20 if big else 8))
    own = draw(st.integers(0, 2)) == 0
    src = draw(_chart(ks, pool, vols, n_src, "rich", draw(st.sampled_from([0, 0, 1, 2]))))
    tgt = draw(_chart(kt, pool, vols + [55], n_tgt, "own" if own else "none", draw(st.sampled_from([0, 0, 1, 3]))))
    # some lists are grown by append(item) after construction instead of being passed whole to the constructor
    grow = dict(
        src=min(draw(st.sampled_from([0, 0, 0, 1, 2])), len(src["lists"]["hits"])),
        tgt=min(draw(st.sampled_from([0, 0, 0, 1, 2])), len(tgt["lists"]["hits"])),
    )
    return dict(src=src, tgt=tgt, grow=grow)


# ---------------------------------------------------------------------------
# reference accounting (plain python, no reamber)
# ---------------------------------------------------------------------------
def notes_of_chart(chart):
    out = [dict(r, length=None, kind="hit") for r in chart["lists"]["hits"]]
    out += [dict(r, kind="hold") for r in chart["lists"]["holds"]]
    return out


def _has(note, name):
    return (int(note["hitsound_set"]) & BIT[name]) != 0


def _sounding(note):
    return int(note["hitsound_set"]) != 0 or note["hitsound_file"] != ""


def _by_time(notes):
    d = {}
    for n in notes:
        d.setdefault(float(n["offset"]), []).append(n)
    return d


def source_summary(src_notes):
    """time -> dict(bits, bitvol, named, namedvol, groups, needed, audible)"""
    out = {}
    for t, ns in _by_time(src_notes).items():
        bits = Counter()
        bitvol = Counter()
        named = Counter()
        namedvol = Counter()
        groups = {}
        for n in ns:
            v = int(n["volume"])
            g = groups.setdefault(v, dict(clap=0, finish=0, whistle=0, named=0))
            for name in BIT:
                if _has(n, name):
                    bits[name] += 1
                    bitvol[(name, v)] += 1
                    if name in g:
                        g[name] += 1
            if n["hitsound_file"] != "":
                named[n["hitsound_file"]] += 1
                namedvol[(n["hitsound_file"], v)] += 1
                g["named"] += 1
        need_by_group = {v: max(g["clap"], g["finish"], g["whistle"]) + g["named"] for v, g in groups.items()}
        out[t] = dict(
            bits=bits,
            bitvol=bitvol,
            named=named,
            namedvol=namedvol,
            needed=sum(need_by_group.values()),
            n_groups=sum(1 for x in need_by_group.values() if x > 0),
            sets={f: {int(n[f]) for n in ns} for f in SET_FIELDS},
        )
    return out


_EMPTY = dict(bits=Counter(), bitvol=Counter(), named=Counter(), namedvol=Counter(), needed=0, n_groups=0, sets={f: set() for f in SET_FIELDS})


def _note_key(n):
    ln = n["length"]
    return (float(n["offset"]), float(n["column"]), None if ln is None else float(ln), n["kind"])


def _sorted_keys(notes):
    return sorted((_note_key(n) for n in notes), key=repr)


def reference_check(src_notes, tgt_notes, tgt_events, res_notes, res_events):
    """All arguments are lists of plain row dicts.  Returns [(kind, msg)]."""
    errs = []
    a, b = _sorted_keys(res_notes), _sorted_keys(tgt_notes)
    if a != b:
        errs.append(("notes-changed", f"result notes {a} != target notes {b}"))
        return errs
    src = source_summary(src_notes)
    res_t = _by_time(res_notes)
    ev_res = {}
    for e in res_events:
        ev_res.setdefault(float(e["offset"]), []).append(e)
    ev_own = {}
    for e in tgt_events:
        ev_own.setdefault(float(e["offset"]), []).append(e)

    for t in sorted(set(src) | set(res_t) | set(ev_res)):
        s = src.get(t, _EMPTY)
        notes = res_t.get(t, [])
        silent = not s["bits"] and not s["named"]
        res_files = Counter(n["hitsound_file"] for n in notes if n["hitsound_file"] != "")
        res_files_vol = Counter((n["hitsound_file"], int(n["volume"])) for n in notes if n["hitsound_file"] != "")
        events = Counter(e["sample_file"] for e in ev_res.get(t, []))
        events_vol = Counter((e["sample_file"], int(e["volume"])) for e in ev_res.get(t, []))
        own_events = Counter(e["sample_file"] for e in ev_own.get(t, []))

        # every hitsound carried was present in the source at the same time; no more C/F/W (or normal) than the source
        for name in BIT:
            got = sum(1 for n in notes if _has(n, name))
            if got > s["bits"][name]:
                if silent:
                    errs.append(("sound-at-silent-time", f"t={t}: {got} result note(s) carry {name}, the source has no sound at this time"))
                else:
                    errs.append(("more-cfw-than-source", f"t={t}: {name} on {got} result notes, source has {s['bits'][name]}"))
            else:
                for v in {int(n["volume"]) for n in notes if _has(n, name)}:
                    gv = sum(1 for n in notes if _has(n, name) and int(n["volume"]) == v)
                    if gv > s["bitvol"][(name, v)]:
                        errs.append(("cfw-volume", f"t={t}: {name} at volume {v} on {gv} result notes, source has {s['bitvol'][(name, v)]} at that volume"))
        extra_files = res_files - s["named"]
        if extra_files:
            kind = "sound-at-silent-time" if silent else "file-not-in-source"
            errs.append((kind, f"t={t}: result notes carry {dict(extra_files)} beyond the source's named samples {dict(s['named'])}"))
        for f in SET_FIELDS:
            bad = sorted({int(n[f]) for n in notes if int(n[f]) != 0} - s["sets"][f])
            if bad:
                errs.append(("own-sampleset-survived", f"t={t}: result note {f}={bad}, source values at this time {sorted(s['sets'][f])}"))

        # every named sample ends up on a note at t or as an event sample at t
        lost = s["named"] - (res_files + events)
        if lost:
            errs.append(("named-lost", f"t={t}: {dict(lost)} of the source's named samples {dict(s['named'])} are neither on a result note nor an event sample at t (notes {dict(res_files)}, events {dict(events)})"))
        else:
            lost_v = s["namedvol"] - (res_files_vol + events_vol)
            if lost_v:
                errs.append(("named-volume", f"t={t}: named samples (file, volume) {dict(lost_v)} missing; notes {dict(res_files_vol)}, events {dict(events_vol)}"))
        dup = (res_files + events) - s["named"] - own_events
        if dup and not extra_files:
            errs.append(("named-duplicated", f"t={t}: {dict(dup)} appear more often than in the source (notes {dict(res_files)}, events {dict(events)}, source {dict(s['named'])})"))

        # as many as the target's notes at that time can hold
        if notes:
            n_sound = sum(1 for n in notes if _sounding(n))
            free = len(notes) - n_sound
            if free > 0:
                for name in CFW:
                    got = sum(1 for n in notes if _has(n, name))
                    if got < s["bits"][name]:
                        errs.append(("dropped-while-free", f"t={t}: {name} {got} of {s['bits'][name]} carried although {free} of {len(notes)} target notes at t carry no sound"))
                        break
                off_note = s["named"] - res_files
                if off_note:
                    errs.append(("named-off-note-while-free", f"t={t}: named {dict(off_note)} not on a note although {free} of {len(notes)} target notes at t carry no sound"))
            want = min(s["needed"], len(notes))
            if n_sound != want:
                errs.append(("slot-count", f"t={t}: {n_sound} result notes carry a sound, expected min(needed={s['needed']}, notes={len(notes)})"))
    return errs


# ---------------------------------------------------------------------------
def _result_notes(r):
    out = [dict(x, length=None, kind="hit") for x in B.rows(r.hits)]
    for x in B.rows(r.holds):
        out.append(dict(x, kind="hold"))
    return out


def _build(chart, grow):
    """Build the chart; the last `grow` hits are appended one by one with TimedList.append(item)."""
    if not grow:
        return B.build(chart)
    hits = chart["lists"]["hits"]
    m = B.build(dict(chart, lists=dict(chart["lists"], hits=hits[:-grow])))
    cls = B.item_class("osu", "hits")
    for row in hits[-grow:]:
        m.hits = m.hits.append(cls(**row))
    return m


def check(case, ctx):
    from reamber.algorithms.osu.hitsound_copy import hitsound_copy
    from reamber.osu.OsuMap import OsuMap

    src_c, tgt_c = case["src"], case["tgt"]
    src_notes, tgt_notes = notes_of_chart(src_c), notes_of_chart(tgt_c)
    tgt_events = tgt_c["meta"].get("samples", [])
    grow = case.get("grow") or {}
    S, T = _build(src_c, grow.get("src", 0)), _build(tgt_c, grow.get("tgt", 0))

    # classes
    summ = source_summary(src_notes)
    tgt_t = _by_time(tgt_notes)
    src_t = _by_time(src_notes)
    nt = False
    allt = sorted(set(tgt_t) | set(src_t))
    ctx.label("times>=100s-within-3ms-of-each-other", any(a >= 1e5 and 0 < b - a <= 3.0 for a, b in zip(allt, allt[1:])))
    for t, s in summ.items():
        n_t = len(tgt_t.get(t, []))
        audible = s["needed"] > 0
        ctx.label("src-sound-at-shared-time", audible and n_t > 0)
        ctx.label("src-sound-at-time-without-target-note", audible and n_t == 0)
        ctx.label("named-at-time-without-target-note", bool(s["named"]) and n_t == 0)
        ctx.label("several-src-notes-at-a-time", len(src_t[t]) >= 2 and audible)
        ctx.label("src-note-without-copied-sound", s["needed"] == 0)
        if n_t > 0:
            over = s["needed"] > n_t
            ctx.label("overflow", over)
            ctx.label("exact-fit", audible and s["needed"] == n_t)
            ctx.label("room-to-spare", audible and s["needed"] < n_t)
            ctx.label("volume-groups>=2", s["n_groups"] >= 2)
            ctx.label("overflow-with-named>=2", over and sum(s["named"].values()) >= 2)
            ctx.label("merge-needed(sounds>slots-needed)", sum(s["bits"][c] for c in CFW) + sum(s["named"].values()) > s["needed"])
            nt = nt or over or s["n_groups"] >= 2
    ctx.nt(nt)
    ctx.label("tgt-time-source-silent", any(t not in summ or summ[t]["needed"] == 0 for t in tgt_t))
    ctx.label("src-empty", not src_notes)
    ctx.label("tgt-empty", not tgt_notes)
    ctx.label("src-hold-with-sound", any(n["kind"] == "hold" and (int(n["hitsound_set"]) & 14 or n["hitsound_file"]) for n in src_notes))
    ctx.label("tgt-has-holds", any(n["kind"] == "hold" for n in tgt_notes))
    ctx.label("tgt-zero-length-hold", any(n["kind"] == "hold" and float(n["length"]) == 0.0 for n in tgt_notes))
    ctx.label("tgt-hits-only", bool(tgt_notes) and all(n["kind"] == "hit" for n in tgt_notes))
    ctx.label("tgt-holds-only", bool(tgt_notes) and all(n["kind"] == "hold" for n in tgt_notes))
    ctx.label("tgt-own-hitsounds", any(_sounding(n) for n in tgt_notes))
    ctx.label("tgt-own-hitsound-at-source-silent-time", any(_sounding(n) and summ.get(float(n["offset"]), _EMPTY)["needed"] == 0 for n in tgt_notes))
    ctx.label("tgt-own-sample-sets", any(int(n[f]) != 0 for n in tgt_notes for f in SET_FIELDS))
    ctx.label("tgt-own-event-samples", bool(tgt_events))
    ctx.label("src-own-event-samples", bool(src_c["meta"].get("samples")))
    ctx.label("src-list-grown-by-append", bool(grow.get("src")))
    ctx.label("tgt-list-grown-by-append", bool(grow.get("tgt")))
    ctx.label("keys-differ", src_c["keys"] != tgt_c["keys"])
    ctx.label("src-note-file+bits", any(n["hitsound_file"] and int(n["hitsound_set"]) & 14 for n in src_notes))
    ctx.label("src-normal-bit-only", any(int(n["hitsound_set"]) == 1 and not n["hitsound_file"] for n in src_notes))
    ctx.label("volume-0-sound", any(int(n["volume"]) == 0 and _sounding(n) for n in src_notes))
    ctx.label("fractional-time", any(float(n["offset"]) != int(float(n["offset"])) for n in src_notes))
    ctx.label("tgt-stacked-notes", len({(n["offset"], n["column"]) for n in tgt_notes}) < len(tgt_notes))
    order = [n["offset"] for n in tgt_c["lists"]["hits"]]
    ctx.label("tgt-rows-unsorted", order != sorted(order))

    before_s, before_t = B.snapshot(S), B.snapshot(T)
    bpms_before, svs_before = B.rows(T.bpms), B.rows(T.svs)

    r = ctx.call("hitsound_copy", hitsound_copy, S, T)

    if not isinstance(r, OsuMap):
        ctx.fail("result-type", type(r).__name__)
        return
    if B.snapshot(S) != before_s:
        ctx.fail("source-modified", _diff(before_s, B.snapshot(S)))
    if B.snapshot(T) != before_t:
        ctx.fail("target-modified", _diff(before_t, B.snapshot(T)))

    res_notes = ctx.call("read-result-notes", _result_notes, r)
    res_events = ctx.call("read-result-samples", lambda: B.rows(r.samples))
    for kind, msg in reference_check(src_notes, tgt_notes, tgt_events, res_notes, res_events):
        ctx.fail(kind, msg)

    if not B.same_value(ctx.call("read-result-bpms", lambda: B.rows(r.bpms)), bpms_before):
        ctx.fail("tempo-changed", f"{bpms_before} -> {B.rows(r.bpms)}")
    if not B.same_value(ctx.call("read-result-svs", lambda: B.rows(r.svs)), svs_before):
        ctx.fail("sv-changed", f"{svs_before} -> {B.rows(r.svs)}")


def _diff(a, b):
    for k in a.get("lists", {}):
        if a["lists"][k] != b["lists"].get(k):
            return f"list {k}: {a['lists'][k]} -> {b['lists'].get(k)}"
    for k in a.get("meta", {}):
        if a["meta"][k] != b["meta"].get(k):
            return f"meta {k}: {a['meta'][k]} -> {b['meta'].get(k)}"
    return "changed"


SUBS = [
    Sub("copy", check, strategy=case_st, examples={"quick": 450, "thorough": 3000}, shards={"quick": 6, "thorough": 16}),
]

MANIFEST = dict(
    technique="property-based testing: Hypothesis-generated source/target osu chart pairs vs a plain-Python per-time multiset accounting of sounds (bits, volumes, named samples, slots)",
    level_text="Exploration: thousands of generated chart pairs per run (shared and private times, several sounding source notes per time, 1..3 volume groups, named samples, overflow beyond the target's notes, holds on both sides, targets with their own hitsounds / sample sets / event samples, different key counts, shuffled rows, empty charts) are checked clause by clause: exact conservation of the target's notes, no sound that the source lacks at that time, no sound dropped or sent to the event list while a target note at that time is free, conservation of every named sample with its volume, strict before/after snapshots of both arguments, tempo and SV lists of the result. Sampling cannot prove absence; every class listed in the evidence is hit hundreds of times per run.",
    level_note="trusted: the 100-line accounting in vlib/props/C18.py, vlib/gen/build.py (build/rows/snapshot), Hypothesis; not asserted: fate of the target's and the source's own event samples, default sounds that do not fit; slot-count clause follows the routine's documented merging rule",
)
