"""C16 Timed lists behave like ordered collections of their rows.

A case is a plain-data *history*: a list class, an initial content (+ how it is constructed) and a list of
operation descriptors.  The history is interpreted step by step against reamber and against a plain-Python
model (a list of row dicts, every operation done by comprehension); after every step the public observers of
the reamber list are compared with the model.  State-dependent arguments (a reference row for a boundary query,
mask bits) are interpreted modulo the current length, so every generated history is valid.
"""
from __future__ import annotations

import json
import math

from hypothesis import strategies as st

from vlib.core import Sub
from vlib.gen import build as B

PROPERTY_ID = "C16"

RULE = (
    "Hypothesis-generated plain-data histories per list class (all 24 game list classes, OsuSampleList and the base "
    "TimedList/NoteList/HitList/HoldList/BpmList): initial rows drawn over a 1..4 value offset pool (duplicates, "
    "negative, fractional) incl. empty, built from items / single item / from_dict (list-of-dicts, dict-of-lists, "
    "optional fields omitted) / empty(n) / DataFrame; then 1..8 (thorough 16) steps of sorted(both), after/before/"
    "between with every flag combination (head/tail variants for holds) at offsets taken from a row of the current "
    "list (+- small deltas), slices (neg. steps), boolean masks (Series/ndarray/list and content comparisons), "
    "append (item, list, pd.Series, DataFrame; sort flag), deepcopy, re-construction (from the list, its df, its "
    "iterated items, from_dict), empty(n), time_diff, move_start_to/move_end_to. After every step len, [i] for "
    "every i and -1, iteration, first/last/first_last offset, the offset column, every declared cell and the "
    "column set are compared with the model. Non-trivial = a positional read after a sort/filter that really "
    "permuted or dropped rows and left >=1 row, or a boundary query at an offset (tail for the tail variants) "
    "present in the list."
)
ASSUMPTIONS = [
    "sorting is not assumed stable: a sort result must be a permutation of the model that is monotone in offset; "
    "the model then adopts the observed order inside equal-offset runs",
    "hold lengths are >= 0 (HoldList.after/before document that negative lengths do not work)",
    "last_offset/first_last_offset/time_diff/move_end_to of an empty hold list and time_diff/move_* of any empty "
    "list are not exercised (plain max([]) raises too)",
    "time_diff(last_offset=0) is not exercised (0 is treated like None by the implementation; docstring says None)",
    "boolean masks are passed as a Series carrying the list's own row labels (what `tl.offset < x` yields), as an "
    "ndarray, or as a python list when non-empty (`df[[]]` is a column selection in pandas)",
    "HoldList.between takes include_ends only as a tuple (its signature), TimedList.between as tuple or bool",
    "values compared by meaning (int/float/bool agnostic, bytes as latin-1 str), floats 1e-9 relative",
    "known finding F23: an OsuSvList built from OsuSv items carries an undeclared `metronome` column (pinned by the "
    "suite, not repairable); reported as kind declared-fields-extra:metronome, matched by the predicate "
    "osu_sv_item_built_metronome, the history continues on the declared fields",
    "from_dict dict-of-lists form keeps at least one field (an empty dict carries no row count)",
]

# ---------------------------------------------------------------------------------------------------------
# class table
# ---------------------------------------------------------------------------------------------------------
_BASE = {
    "base.TimedList": ("reamber.base.lists.TimedList", "TimedList"),
    "base.NoteList": ("reamber.base.lists.notes.NoteList", "NoteList"),
    "base.HitList": ("reamber.base.lists.notes.HitList", "HitList"),
    "base.HoldList": ("reamber.base.lists.notes.HoldList", "HoldList"),
    "base.BpmList": ("reamber.base.lists.BpmList", "BpmList"),
    "osu.samples": ("reamber.osu.lists.OsuSampleList", "OsuSampleList"),
}
_RES = {}


def class_keys():
    keys = list(_BASE)
    for g in B.games():
        for n in B.list_names(g):
            keys.append(f"{g}.{n}")
    return keys


def resolve(key):
    """key -> (list class, item class, {field: (dtype, default)}, is_hold)"""
    if key not in _RES:
        import importlib

        from reamber.base.lists.notes.HoldList import HoldList

        if key in _BASE:
            mod, name = _BASE[key]
            lc = getattr(importlib.import_module(mod), name)
        else:
            g, n = key.split(".")
            lc = B.list_class(g, n)
        ic = lc._item_class()
        flds = {k: (v[0], v[1]) for k, v in ic._props.items()}
        _RES[key] = (lc, ic, flds, issubclass(lc, HoldList))
    return _RES[key]


def _is_bms(key):
    return key.startswith("bms.")


# ---------------------------------------------------------------------------------------------------------
# strategies (plain data)
# ---------------------------------------------------------------------------------------------------------
_NICE_OFF = [-250.5, -100.0, 0.0, 0.125, 100.0, 100.0, 250.75, 1000.0, 333333.3333333333]
_off_st = st.one_of(
    st.sampled_from(_NICE_OFF),
    st.integers(-2000, 20000).map(float),
    st.floats(-5000.0, 100000.0, allow_nan=False).map(lambda x: round(x, 3)),
)
_len_st = st.one_of(st.sampled_from([125.0, 250.0, 500.0, 0.0]), st.floats(0.5, 5000.0, allow_nan=False).map(lambda x: round(x, 3)))


def _generic_field(f, pool):
    if f == "offset":
        return st.sampled_from(pool)
    if f == "column":
        return st.integers(0, 7)
    if f == "length":
        return _len_st
    if f == "bpm":
        return B.bpm_st
    if f == "metronome":
        return st.sampled_from([4.0, 4.0, 3.0, 5.0])
    if f == "sample_file":
        return st.sampled_from(["", "s.wav", "t.ogg"])
    if f == "volume":
        return st.integers(0, 100)
    raise KeyError(f)


@st.composite
def st_rows(draw, key, pool, max_rows, min_rows=0):
    if key in _BASE:
        flds = resolve(key)[2]
        n = draw(st.integers(min_rows, max_rows))
        return [{f: draw(_generic_field(f, pool)) for f in flds} for _ in range(n)]
    g, n = key.split(".")
    return draw(B.st_rows(g, n, 8, max_rows, pool, min_rows=min_rows))


_DELTAS = [0.0] * 6 + [0.001, -0.001, 1.0, -1.0, 125.0, -125.0, 1e9, -1e9]


def _q_st(hold):
    return st.fixed_dictionaries(
        dict(ref=st.integers(0, 40), part=st.sampled_from(["head", "head", "tail"] if hold else ["head"]), d=st.sampled_from(_DELTAS))
    )


_ob = st.sampled_from([None, True, False])
_pair = st.sampled_from([[True, False], [False, True], [True, True], [False, False]])


@st.composite
def st_op(draw, key, pool, big):
    _, _, flds, hold = resolve(key)
    kind = draw(
        st.sampled_from(
            ["sorted"] * 4 + ["after"] * 4 + ["before"] * 4 + ["between"] * 6 + ["slice", "mask", "where"] * 2
            + ["append"] * 9 + ["deepcopy"] * 2 + ["rebuild"] * 4 + ["empty"] + ["time_diff", "move_start_to", "move_end_to"] * 2
        )
    )
    q = _q_st(hold)
    if kind == "sorted":
        return dict(op="sorted", reverse=draw(_ob))
    if kind == "after":
        d = dict(op="after", q=draw(q), end=draw(_ob))
        if hold:
            d["tail"] = draw(_ob)
        return d
    if kind == "before":
        d = dict(op="before", q=draw(q), end=draw(_ob))
        if hold:
            d["head"] = draw(_ob)
        return d
    if kind == "between":
        d = dict(op="between", lo=draw(q), hi=draw(q))
        if hold:
            d.update(ends=draw(st.one_of(st.none(), _pair)), head=draw(_ob), tail=draw(_ob))
        else:
            d.update(ends=draw(st.one_of(st.none(), st.booleans(), _pair)))
        return d
    if kind == "slice":
        ix = st.one_of(st.none(), st.integers(-8, 8))
        return dict(op="slice", start=draw(ix), stop=draw(ix), step=draw(st.sampled_from([None, None, 1, 2, 3, -1, -2])))
    if kind == "mask":
        return dict(op="mask", form=draw(st.sampled_from(["series", "numpy", "list"])), bits=draw(st.lists(st.booleans(), min_size=1, max_size=8)))
    if kind == "where":
        num = [f for f in flds if f in ("offset", "column", "length", "bpm", "metronome", "multiplier", "volume")]
        return dict(op="where", field=draw(st.sampled_from(num)), cmp=draw(st.sampled_from(["==", "!=", "<", "<=", ">", ">="])), ref=draw(st.integers(0, 40)))
    if kind == "append":
        what = draw(st.sampled_from(["item", "item", "list", "list", "series", "df"]))
        rows_ = draw(st_rows(key, pool, 1 if what in ("item", "series") else (4 if big else 3), min_rows=1 if what in ("item", "series") else 0))
        return dict(op="append", what=what, rows=rows_, sort=draw(_ob))
    if kind == "deepcopy":
        return dict(op="deepcopy")
    if kind == "rebuild":
        how = draw(st.sampled_from(["list", "df", "df_own", "items", "iter", "dict_rows", "dict_cols", "single"]))
        d = dict(op="rebuild", how=how)
        if how.startswith("dict"):
            d["drop"] = draw(_drop_st(flds))
        return d
    if kind == "empty":
        return dict(op="empty", n=draw(st.integers(0, 4)))
    if kind == "time_diff":
        return dict(op="time_diff", last=draw(st.one_of(st.none(), q)))
    return dict(op=kind, to=draw(_off_st))


def _drop_st(flds):
    cand = list(flds)
    return st.one_of(st.just([]), st.lists(st.sampled_from(cand), max_size=len(cand), unique=True).map(sorted))


def _eff_drop(flds, how, drop):
    """dict-of-lists with every field omitted is `{}` and carries no row count: keep `offset` then."""
    if how == "dict_cols" and all(f in drop for f in flds):
        return [f for f in drop if f != "offset"]
    return list(drop)


@st.composite
def history(draw, tier):
    big = tier == "thorough"
    keys = class_keys()
    if draw(st.integers(0, 3)) == 0:  # the hold family has its own filters: a third of the histories
        keys = [k for k in keys if resolve(k)[3]]
    key = draw(st.sampled_from(keys))
    flds = resolve(key)[2]
    pool = draw(st.lists(_off_st, min_size=1, max_size=4))
    how = draw(st.sampled_from(["items", "items", "dict_rows", "dict_cols", "empty", "df_own", "single"]))
    ctor = dict(how=how)
    if how == "empty":
        ctor["n"] = draw(st.integers(0, 5))
        init = []
    elif how == "single":
        init = draw(st_rows(key, pool, 1, min_rows=1))
    else:
        init = draw(st_rows(key, pool, 14 if big else 7, min_rows=draw(st.sampled_from([0, 0, 2, 3]))))
        if how.startswith("dict"):
            ctor["drop"] = draw(_drop_st(flds))
    if init and draw(st.integers(0, 3)) == 0:
        # integer-typed columns: every initial number is a Python int, so the list's numeric columns are int64 while
        # later appended rows may carry fractions (pandas then has to widen, never to truncate)
        init = [{f: (int(round(v)) if isinstance(v, float) else v) for f, v in r.items()} for r in init]
        ctor["ints"] = True
    ops = draw(st.lists(st_op(key, pool, big), min_size=1, max_size=16 if big else 8))
    return dict(cls=key, ctor=ctor, init=init, ops=ops)


# ---------------------------------------------------------------------------------------------------------
# the plain-Python model
# ---------------------------------------------------------------------------------------------------------
def _num(v):
    return isinstance(v, (int, float, bool))


def _canon(v):
    if _num(v):
        f = float(v)
        return "nan" if math.isnan(f) else repr(f)
    if isinstance(v, (list, tuple)):
        return [_canon(x) for x in v]
    if isinstance(v, dict):
        return {str(k): _canon(x) for k, x in sorted(v.items(), key=lambda kv: str(kv[0]))}
    return v


def _rowkey(row, flds):
    return json.dumps([_canon(row.get(f)) for f in flds], sort_keys=True, default=str)


def _tail(row):
    return row["offset"] + row["length"]


def m_default_row(flds):
    return {f: (type(d)(d) if isinstance(d, (list, dict)) else d) for f, (_, d) in flds.items()}


def m_query(model, q, hold):
    """Boundary value taken from a row of the current model (so that ties with present rows are common)."""
    if not model:
        return float(q["d"]), False
    r = model[q["ref"] % len(model)]
    base = _tail(r) if (q["part"] == "tail" and hold) else r["offset"]
    return base + q["d"], True


def m_after(model, x, end, tail, hold):
    def k(r):
        return _tail(r) if (hold and tail) else r["offset"]

    return [r for r in model if (k(r) >= x if end else k(r) > x)]


def m_before(model, x, end, head, hold):
    def k(r):
        return _tail(r) if (hold and not head) else r["offset"]

    return [r for r in model if (k(r) <= x if end else k(r) < x)]


_CMP = {
    "==": lambda a, b: a == b,
    "!=": lambda a, b: a != b,
    "<": lambda a, b: a < b,
    "<=": lambda a, b: a <= b,
    ">": lambda a, b: a > b,
    ">=": lambda a, b: a >= b,
}


def m_last(model, hold):
    return max((_tail(r) if hold else r["offset"]) for r in model)


def m_first(model):
    return min(r["offset"] for r in model)


# ---------------------------------------------------------------------------------------------------------
# reamber side helpers
# ---------------------------------------------------------------------------------------------------------
def _enc(key, f, v):
    if _is_bms(key) and f == "sample" and isinstance(v, str):
        return v.encode("latin-1")
    if isinstance(v, list):
        return [dict(x) if isinstance(x, dict) else x for x in v]
    return v


def _kwargs(key, row):
    return {f: _enc(key, f, v) for f, v in row.items()}


def _mk_item(key, row):
    return resolve(key)[1](**_kwargs(key, row))


def _mk_list(key, rows_):
    lc = resolve(key)[0]
    return lc([_mk_item(key, r) for r in rows_])


def _mk_df(key, rows_):
    import pandas as pd

    flds = resolve(key)[2]
    return pd.DataFrame([_kwargs(key, r) for r in rows_], columns=list(flds))


def _from_dict(key, rows_, form, drop):
    lc, _, flds, _ = resolve(key)
    keep = [f for f in flds if f not in drop]
    if form == "dict_rows":
        d = [{f: _enc(key, f, r[f]) for f in keep} for r in rows_]
    else:
        d = {f: [_enc(key, f, r[f]) for r in rows_] for f in keep}
    return lc.from_dict(d)


def _item_dict(item, flds):
    return {f: B._py(getattr(item, f)) for f in flds}


# ---------------------------------------------------------------------------------------------------------
# observation: every public observer of the list against the model
# ---------------------------------------------------------------------------------------------------------
def _same_row(got, exp, flds):
    for f in flds:
        if f not in got or not B.same_value(got[f], exp[f]):
            return f
    return None


def observe(ctx, key, tl, model, step):
    lc, ic, flds, hold = resolve(key)
    n = len(model)
    where = f"step {step}"
    ok = True
    if type(tl) is not lc:
        ctx.fail("class", f"{where}: result is {type(tl).__name__}, expected {lc.__name__}")
        return False
    ok &= ctx.eq("len", ctx.call("len", len, tl), n, where)
    # declared fields
    cols = [str(c) for c in ctx.call("df.columns", lambda: list(tl.df.columns))]
    extra = sorted(set(cols) - set(flds))
    if extra:
        ctx.fail("declared-fields-extra:" + ",".join(extra), f"{where}: {lc.__name__} columns {cols} != declared fields {list(flds)}")
        # known finding F23 (OsuSv items carry `metronome`): go on with the declared fields; anything else ends the case
        ok &= key == "osu.svs" and extra == ["metronome"]
    if set(flds) - set(cols) or len(cols) != len(set(cols)):
        ctx.fail("declared-fields-missing", f"{where}: {lc.__name__} columns {cols} != declared fields {list(flds)}")
        ok = False
    if not ok:
        return False
    # every declared cell + the offset column
    got = ctx.call("rows", B.rows, tl)
    for i, (g, e) in enumerate(zip(got, model)):
        f = _same_row(g, e, flds)
        if f is not None:
            ctx.fail("cells", f"{where}: row {i} field {f}: got {g.get(f)!r} expected {e[f]!r}")
            return False
    offs = [B._py(v) for v in ctx.call("offset-col", lambda: tl.offset.tolist())]
    if len(offs) != n or any(not B.same_value(a, r["offset"]) for a, r in zip(offs, model)):
        ctx.fail("offset-col", f"{where}: {offs} expected {[r['offset'] for r in model]}")
        ok = False
    # positional reads
    for i in list(range(n)) + ([-1] if n else []):
        it = ctx.call("getitem", lambda i=i: tl[i])
        if not isinstance(it, ic):
            ctx.fail("item-type", f"{where}: tl[{i}] is {type(it).__name__}, expected {ic.__name__}")
            ok = False
            continue
        d = ctx.call("item-fields", _item_dict, it, flds)
        f = _same_row(d, model[i], flds)
        if f is not None:
            ctx.fail("getitem", f"{where}: tl[{i}].{f} = {d.get(f)!r}, row has {model[i][f]!r} (n={n})")
            ok = False
    # iteration
    its = ctx.call("iter", lambda: list(tl))
    if len(its) != n:
        ctx.fail("iter-len", f"{where}: iteration yields {len(its)} items, expected {n}")
        ok = False
    else:
        for i, it in enumerate(its):
            if not isinstance(it, ic):
                ctx.fail("item-type", f"{where}: iteration item {i} is {type(it).__name__}")
                ok = False
                continue
            d = ctx.call("item-fields", _item_dict, it, flds)
            f = _same_row(d, model[i], flds)
            if f is not None:
                ctx.fail("iter", f"{where}: item {i}.{f} = {d.get(f)!r}, row has {model[i][f]!r}")
                ok = False
    # first / last
    fo = ctx.call("first_offset", tl.first_offset)
    if n == 0:
        if fo is not None:
            ctx.fail("first-offset", f"{where}: empty list first_offset {fo!r}")
            ok = False
        if not hold:
            lo = ctx.call("last_offset", tl.last_offset)
            fl = ctx.call("first_last_offset", tl.first_last_offset)
            if lo is not None or tuple(fl) != (None, None):
                ctx.fail("last-offset", f"{where}: empty list last_offset {lo!r} first_last {fl!r}")
                ok = False
    else:
        ef, el = m_first(model), m_last(model, hold)
        ok &= ctx.near("first-offset", B._py(fo), ef, 1e-9, 0.0, where)
        ok &= ctx.near("last-offset", B._py(ctx.call("last_offset", tl.last_offset)), el, 1e-9, 0.0, where)
        fl = ctx.call("first_last_offset", tl.first_last_offset)
        if len(fl) != 2:
            ctx.fail("first-last", f"{where}: {fl!r}")
            ok = False
        else:
            ok &= ctx.near("first-last", B._py(fl[0]), ef, 1e-9, 0.0, where)
            ok &= ctx.near("first-last", B._py(fl[1]), el, 1e-9, 0.0, where)
    return ok


def _adopt(ctx, tl, flds):
    """After a verified step the model takes reamber's values (they are equal within 1e-9) so that later
    boundary queries are exact ties for reamber as well."""
    return [{f: r[f] for f in flds} for r in ctx.call("rows", B.rows, tl)]


def _check_sorted(ctx, key, tl, model, reverse, step):
    """Validity predicate for a sort: a permutation of the model, monotone in offset.  Returns the model
    re-ordered like the observed result (None on failure)."""
    flds = resolve(key)[2]
    got = ctx.call("rows", B.rows, tl)
    if len(got) != len(model):
        ctx.fail("sort-len", f"step {step}: {len(got)} rows after sorting {len(model)}")
        return None
    for g in got:
        if any(f not in g for f in flds):
            ctx.fail("declared-fields-missing", f"step {step}: columns {list(g)} after sort, declared {list(flds)}")
            return None
    pool = {}
    for r in model:
        pool.setdefault(_rowkey(r, flds), []).append(r)
    out = []
    for g in got:
        lst = pool.get(_rowkey(g, flds))
        if not lst:
            ctx.fail("sort-perm", f"step {step}: sorted result is not a permutation of the rows: {g} not among the remaining rows")
            return None
        out.append(lst.pop())
    offs = [r["offset"] for r in out]
    mono = all((a >= b) if reverse else (a <= b) for a, b in zip(offs, offs[1:]))
    if not mono:
        ctx.fail("sort-order", f"step {step}: offsets after sorted(reverse={reverse}): {offs}")
        return None
    return out


# ---------------------------------------------------------------------------------------------------------
# the interpreter
# ---------------------------------------------------------------------------------------------------------
def _construct(ctx, key, ctor, init):
    lc, ic, flds, hold = resolve(key)
    how = ctor["how"]
    ctx.label("ctor=" + how)
    ctx.label("int-typed-initial-columns", bool(ctor.get("ints")))
    if how == "empty":
        n = ctor["n"]
        tl = ctx.call("empty", lc.empty, n)
        return tl, [m_default_row(flds) for _ in range(n)]
    model = [dict(r) for r in init]
    if how == "items":
        items = [_mk_item(key, r) for r in init]
        return ctx.call("ctor-items", lc, items), model
    if how == "single":
        return ctx.call("ctor-single", lc, _mk_item(key, init[0])), model
    if how == "df_own":
        return ctx.call("ctor-df", lc, _mk_df(key, init)), model
    drop = _eff_drop(flds, how, ctor.get("drop", []))
    ctx.label("from_dict-omits-fields", bool(drop))
    ctx.label("from_dict-omits-container-default", any(isinstance(flds[f][1], (list, dict)) for f in drop))
    for r in model:
        for f in drop:
            r[f] = m_default_row(flds)[f]
    return ctx.call("from_dict", _from_dict, key, init, how, drop), model


def _kw(**k):
    return {a: b for a, b in k.items() if b is not None}


def check_history(case, ctx):
    import numpy as np
    import pandas as pd

    key = case["cls"]
    lc, ic, flds, hold = resolve(key)
    ctx.label("cls=" + key)
    ctx.label("family=" + ("hold" if hold else "other"))
    tl, model = _construct(ctx, key, case["ctor"], case["init"])
    if not observe(ctx, key, tl, model, 0):
        ctx.stop()
    model = _adopt(ctx, tl, flds)

    for step, op in enumerate(case["ops"], 1):
        name = op["op"]
        n = len(model)
        before = [id(r) for r in model]  # row identities in the order before the step
        ctx.label("op=" + name)
        ctx.label("state-empty", n == 0)
        if name == "sorted":
            rev = op["reverse"]
            new = ctx.call("sorted", tl.sorted, **_kw(reverse=rev))
            ctx.label("sort-with-ties", len({r["offset"] for r in model}) < n)
            m2 = _check_sorted(ctx, key, new, model, bool(rev), step)
            if m2 is None:
                ctx.stop()
            tl, model = new, m2
        elif name in ("after", "before"):
            x, present = m_query(model, op["q"], hold)
            end = op["end"]
            if name == "after":
                tail = op.get("tail")
                kw = _kw(include_end=end, include_tail=tail) if hold else _kw(include_end=end)
                tl = ctx.call("after", tl.after, x, **kw)
                hit = any((_tail(r) if (hold and tail) else r["offset"]) == x for r in model)
                model = m_after(model, x, bool(end), bool(tail), hold)
                ctx.label(f"after:end={end},tail={tail}" if hold else f"after:end={end}")
            else:
                head = op.get("head")
                kw = _kw(include_end=end, include_head=head) if hold else _kw(include_end=end)
                tl = ctx.call("before", tl.before, x, **kw)
                head_eff = True if head is None else head
                hit = any((_tail(r) if (hold and not head_eff) else r["offset"]) == x for r in model)
                model = m_before(model, x, bool(end), head_eff, hold)
                ctx.label(f"before:end={end},head={head}" if hold else f"before:end={end}")
            ctx.label("boundary-hit", hit)
            ctx.nt(hit)
        elif name == "between":
            lo, _ = m_query(model, op["lo"], hold)
            hi, _ = m_query(model, op["hi"], hold)
            ends = op["ends"]
            e = (True, False) if ends is None else ((ends, ends) if isinstance(ends, bool) else (ends[0], ends[1]))
            arg = None if ends is None else (ends if isinstance(ends, bool) else (ends[0], ends[1]))
            if hold:
                head, tail = op.get("head"), op.get("tail")
                head_eff = True if head is None else head
                tl = ctx.call("between", tl.between, lo, hi, **_kw(include_ends=arg, include_head=head, include_tail=tail))
                hit = any((_tail(r) if tail else r["offset"]) == lo for r in model) or any((_tail(r) if not head_eff else r["offset"]) == hi for r in model)
                model = m_before(m_after(model, lo, e[0], bool(tail), True), hi, e[1], head_eff, True)
                ctx.label(f"between:ends={ends},head={head},tail={tail}")
            else:
                tl = ctx.call("between", tl.between, lo, hi, **_kw(include_ends=arg))
                hit = any(r["offset"] in (lo, hi) for r in model)
                model = m_before(m_after(model, lo, e[0], False, False), hi, e[1], True, False)
                ctx.label(f"between:ends={ends}")
            ctx.label("boundary-hit", hit)
            ctx.nt(hit)
        elif name == "slice":
            s = slice(op["start"], op["stop"], op["step"])
            tl = ctx.call("slice", lambda: tl[s])
            model = model[s]
        elif name == "mask":
            bits = [op["bits"][i % len(op["bits"])] for i in range(n)]
            form = op["form"]
            if form == "list" and n == 0:
                form = "numpy"
            if form == "series":
                mk = pd.Series(bits, index=ctx.call("df.index", lambda: tl.df.index), dtype=bool)
            elif form == "numpy":
                mk = np.array(bits, dtype=bool)
            else:
                mk = list(bits)
            ctx.label("mask:" + form)
            tl = ctx.call("mask", lambda: tl[mk])
            model = [r for r, b in zip(model, bits) if b]
        elif name == "where":
            f, c = op["field"], op["cmp"]
            v = model[op["ref"] % n][f] if n else 0
            fn = _CMP[c]
            tl = ctx.call("where", lambda: tl[fn(getattr(tl, f), v)])
            model = [r for r in model if fn(r[f], v)]
        elif name == "append":
            what, rows_, sort = op["what"], op["rows"], op["sort"]
            if what == "item":
                val = _mk_item(key, rows_[0])
                rows_ = rows_[:1]
            elif what == "series":
                val = _mk_item(key, rows_[0]).data
                rows_ = rows_[:1]
            elif what == "list":
                val = _mk_list(key, rows_)
            else:
                val = _mk_list(key, rows_).df
            ctx.label("append:" + what + (",sort" if sort else ""))
            ctx.label("append-empty-list", not rows_)
            if rows_ and n:
                intcols = [str(c) for c, t in zip(tl.df.columns, tl.df.dtypes) if str(t).startswith("int")]
                ctx.label("append-fraction-to-int-column:" + what, any(isinstance(r.get(c), float) and r[c] != int(r[c]) for r in rows_ for c in intcols))
            new = ctx.call("append", tl.append, val, **_kw(sort=sort))
            model = model + [dict(r) for r in rows_]
            before = [id(r) for r in model]
            if sort:
                m2 = _check_sorted(ctx, key, new, model, False, step)
                if m2 is None:
                    ctx.stop()
                model = m2
            tl = new
        elif name == "deepcopy":
            tl = ctx.call("deepcopy", tl.deepcopy)
        elif name == "rebuild":
            how = op["how"]
            if how == "single" and n != 1:
                how = "list"
            ctx.label("rebuild:" + how)
            if how == "list":
                tl = ctx.call("ctor-list", lc, tl)
            elif how == "df":
                tl = ctx.call("ctor-df", lambda: lc(tl.df))
            elif how == "df_own":
                tl = ctx.call("ctor-df", lc, _mk_df(key, model))
            elif how == "items":
                tl = ctx.call("ctor-items", lc, [_mk_item(key, r) for r in model])
            elif how == "single":
                tl = ctx.call("ctor-single", lc, _mk_item(key, model[0]))
            elif how == "iter":
                tl = ctx.call("ctor-iter", lambda: lc(list(tl)))
            else:
                drop = _eff_drop(flds, how, op.get("drop", []))
                ctx.label("from_dict-omits-fields", bool(drop))
                ctx.label("from_dict-omits-container-default", any(isinstance(flds[f][1], (list, dict)) for f in drop))
                tl = ctx.call("from_dict", _from_dict, key, model, how, drop)
                dflt = m_default_row(flds)
                model = [{f: (dflt[f] if f in drop else r[f]) for f in flds} for r in model]
        elif name == "empty":
            tl = ctx.call("empty", lc.empty, op["n"])
            model = [m_default_row(flds) for _ in range(op["n"])]
        elif name == "time_diff":
            if n == 0:
                ctx.label("skipped:time_diff-on-empty")
                continue
            arg = None
            if op["last"] is not None:
                arg, _ = m_query(model, op["last"], hold)
                if arg == 0:
                    arg = None
            got = [B._py(v) for v in ctx.call("time_diff", lambda: list(tl.time_diff(arg) if arg is not None else tl.time_diff()))]
            s = sorted(r["offset"] for r in model)
            last = arg if arg is not None else m_last(model, hold)
            exp = [b - a for a, b in zip(s, s[1:])] + [last - s[-1]]
            if len(got) != len(exp) or any(not B.same_value(g, e, 1e-9) and abs(g - e) > 1e-6 for g, e in zip(got, exp)):
                ctx.fail("time-diff", f"step {step}: got {got} expected {exp}")
            continue
        elif name in ("move_start_to", "move_end_to"):
            if n == 0:
                ctx.label("skipped:move-on-empty")
                continue
            to = op["to"]
            if name == "move_start_to":
                delta = to - m_first(model)
                tl = ctx.call("move_start_to", tl.move_start_to, to)
            else:
                delta = to - m_last(model, hold)
                tl = ctx.call("move_end_to", tl.move_end_to, to)
            model = [dict(r, offset=r["offset"] + delta) for r in model]
        else:  # pragma: no cover - generator and interpreter are written together
            ctx.harness(False, f"unknown op {name}")

        if name in ("sorted", "after", "before", "between", "slice", "mask", "where") or (name == "append" and op["sort"]):
            after_ids = [id(r) for r in model]
            perturb = bool(after_ids) and after_ids != before[: len(after_ids)]
            ctx.label("read-after-perturbation", perturb)
            ctx.nt(perturb)
        if not observe(ctx, key, tl, model, step):
            ctx.stop()
        model = _adopt(ctx, tl, flds)


def osu_sv_item_built_metronome(case, failure) -> bool:
    """F23: OsuSv.__init__ stores an undeclared `metronome`; the only way an `osu.svs` history gets that column is
    through OsuSv items (from_dict rejects it, the DataFrames built here do not have it)."""
    return case.get("cls") == "osu.svs" and failure.kind == "declared-fields-extra:metronome"


KNOWN_PREDICATES = {"osu_sv_item_built_metronome": osu_sv_item_built_metronome}

SUBS = [
    Sub(
        "history",
        check_history,
        strategy=history,
        examples={"quick": 800, "thorough": 3000},
        shards={"quick": 16, "thorough": 16},
    ),
]

MANIFEST = dict(
    technique="model-based property testing: Hypothesis-generated plain-data operation histories interpreted against reamber and a plain-Python list-of-rows model, all public observers compared after every step",
    level_text="Exploration: thousands of generated histories (every list class of the five games, OsuSampleList and the base classes; every constructor form; every flag combination of after/before/between incl. the hold head/tail variants; ties, negatives, fractions, empties) agree with a list-comprehension model after every step. Sampling cannot prove absence; class/op/flag coverage is counted in the evidence labels.",
    level_note="trusted: the 60-line comprehension model in vlib/props/C16.py, vlib.gen.build.rows/same_value, Hypothesis, pandas; domain: hold lengths >= 0, no observers that are undefined on empty lists, histories are op lists (not a RuleBasedStateMachine) so that the shrunk history is the replay file",
)
