"""C12 Stacking writes through: editing the stack equals editing each list."""
from __future__ import annotations

import copy
import math
import operator

from hypothesis import strategies as st

from vlib.core import Sub
from vlib.gen import build as B

PROPERTY_ID = "C12"
RULE = (
    "One case = an initial chart + a history, both plain data, produced by an explicit operation-sequence strategy "
    "(not Hypothesis' RuleBasedStateMachine: the whole history is one JSON case that shrinks and replays). Chart: "
    "vlib/gen/build.py st_any_container (Map for osu/Quaver/BMS, MapSet of 1..3 maps for StepMania/O2Jam, some lists "
    "empty, ties, negative/fractional offsets). History: 1..6 steps (quick) / 1..15 (thorough) of: whole-column "
    "`stack.<prop> op= v` (+ - * / =, v != 0 for /) on offset/column/length/bpm/metronome, the game's stacked "
    "properties and, through `stack[name]`, the other numeric columns (multiplier, pan, ...); `stack.loc[mask, cols] "
    "op= v` with one column (str) or several (list), the mask being `:` or a tree of comparisons on stack columns "
    "(thresholds taken from the values currently in the chart, or literals) joined by & | ~, `isin` value sets and "
    "content-keyed bit tables (offset) / (offset, column) -> bool, passed as Series, list or ndarray; stacks of all "
    "lists or restricted by include_types (base classes HitList/HoldList/NoteList/BpmList/TimedList and the game's "
    "own list classes); the stacker of the previous step is kept or rebuilt; between stack steps list edits that "
    "perturb row labels (sorted both ways, after/before, boolean filter, append, relabel with arbitrary/duplicated "
    "integer labels through the public constructor); mapset level `ms.stack().<prop> op= v` (MapSet.Stacker has no "
    "loc; conditional steps on a mapset go through one chart's stack while the other charts are snapshotted). "
    "Oracle: plain-Python model, per list an ordered list of row dicts; after EVERY step every list of every chart "
    "is compared with the model (class, length, order, column set, every cell by value) and every list outside the "
    "stack with a strict snapshot (labels, dtypes, cells). "
    "Non-trivial = the history executes >= 1 conditional assignment (a real mask, not `:`) that comes after a "
    "label-changing list edit of the same chart or acts on a stack that contains an empty list."
)
ASSUMPTIONS = [
    "values compared by meaning (B.same_value, rel 1e-9, NaN-aware, int/float/bool agnostic): every write-back re-slices all stacked lists, which turns int columns into float and relabels rows by design (DESIGN section 4 rule 4); lists that were NOT stacked (include_types, other charts of the mapset) are compared strictly (labels, dtypes, cells)",
    "mask semantics: a comparison on a column a list lacks is false for that list's rows (what the concatenated frame's NaN gives); `~` and `!=` are generated only over columns owned by every stacked list, bit tables never select a row that lacks one of their key columns, so 'a row whose mask needs a column its list lacks is not selected' and the NaN semantics of the frame coincide on every generated mask",
    "a kept stacker is used only while it is the object that made the previous edit of that chart; after any other edit of the chart (list edit, another stacker, a mapset-level step) it is rebuilt (excluded by DESIGN: a stacker created before an out-of-band edit holds a stale copy)",
    "a kept stacker is also rebuilt after `=` on a column that not every stacked list owns: the stale frame then holds the assigned value in cells of lists that lack the column and later comparisons on that column would see them (mask evaluation on the private copy, not write-through)",
    "after an out-of-band list edit the model list is re-read from the real list (the edit itself is C16's subject, sort ties are free)",
    "not generated: a property no stacked list owns (documented to fail), / 0, non-numeric values, targets hitsound_file/keysounds/sample (non-numeric columns; they are only checked to stay untouched), include_types that match no list",
    "values are kept small (|factor| <= 4, <= 15 steps) so int64 columns cannot overflow and python/numpy float arithmetic is bit-identical; masks are evaluated exactly",
]

NAN = float("nan")
NON_NUMERIC = {"hitsound_file", "keysounds", "sample", "index"}
BASE_TAGS = ["TimedList", "NoteList", "HitList", "HoldList", "BpmList"]

_CMP = {"<": operator.lt, "<=": operator.le, ">": operator.gt, ">=": operator.ge, "==": operator.eq, "!=": operator.ne}
_IOP = {"+": operator.iadd, "-": operator.isub, "*": operator.imul, "/": operator.itruediv}
_OP = {"+": operator.add, "-": operator.sub, "*": operator.mul, "/": operator.truediv}


# --------------------------------------------------------------------------- #
# static facts about the list classes (class hierarchy and built column sets)
# --------------------------------------------------------------------------- #
_COLS_CACHE = {}


def _cols_of(game, name, rows_):
    key = (game, name, bool(rows_))
    if key not in _COLS_CACHE:
        df = B.build_list(game, name, rows_[:1]).df
        _COLS_CACHE[key] = [str(c) for c in df.columns]
    return _COLS_CACHE[key]


def _mro_names(game, name):
    return {c.__name__ for c in B.list_class(game, name).__mro__}


def inc_names(game, inc):
    """list names a stack restricted to `inc` (None = all) contains, by the class hierarchy."""
    names = B.list_names(game)
    if inc is None:
        return list(names)
    tags = set()
    for t in inc:
        tags.add(B.list_class(game, t[1:]).__name__ if t.startswith("@") else t)
    return [n for n in names if _mro_names(game, n) & tags]


def inc_types(game, inc):
    if inc is None:
        return None
    import reamber.base.lists as bl
    import reamber.base.lists.notes as bn

    out = []
    for t in inc:
        if t.startswith("@"):
            out.append(B.list_class(game, t[1:]))
        else:
            out.append(getattr(bn, t, None) or getattr(bl, t))
    return tuple(out)


def _attr_ok(game, prop, mapset=False):
    cls = B.mapset_class(game).Stacker if mapset else B.map_class(game).Stacker
    return isinstance(getattr(cls, prop, None), property)


# --------------------------------------------------------------------------- #
# generator
# --------------------------------------------------------------------------- #
_small = st.sampled_from([1, 2, -1, 3, 10, 0.5, -2.5, 100, 125.0, -125.0, 1000, 0])
_addv = st.one_of(_small, st.integers(-2000, 2000), st.floats(-2000.0, 2000.0, allow_nan=False).map(lambda x: round(x, 3)))
_mulv = st.sampled_from([2, 0.5, -1, 3, 1.5, 0, 1, -2, 0.25, 4])
_divv = st.sampled_from([2, 0.5, -1, 3, 1.5, 1, -2, 0.25, 4, 8])


def _value_st(op, pool):
    if op in "+-":
        return _addv
    if op == "*":
        return _mulv
    if op == "/":
        return _divv
    return st.one_of(st.integers(0, 9), st.sampled_from(pool), _addv)


@st.composite
def _atom(draw, cols_all, cols_univ, negated, pool):
    """cols_all: numeric columns of the stack; cols_univ: those owned by every stacked list."""
    cand = cols_univ if negated else cols_all
    kind = draw(st.sampled_from(["cmp", "cmp", "cmp", "table", "isin"]))
    if kind == "cmp":
        col = draw(st.sampled_from(cand))
        ops = ["<", "<=", ">", ">=", "=="] + (["!="] if col in cols_univ else [])
        op = draw(st.sampled_from(ops))
        if draw(st.integers(0, 3)):
            v = {"q": draw(st.integers(0, 7))}
        else:
            v = draw(st.one_of(st.sampled_from(pool), st.integers(0, 8)))
        return dict(t="cmp", col=col, op=op, v=v)
    bits = draw(st.lists(st.booleans(), min_size=1, max_size=8))
    if kind == "isin":
        return dict(t="isin", col=draw(st.sampled_from(cand)), bits=bits)
    keys = ["offset"]
    if "column" in cand and draw(st.booleans()):
        keys.append("column")
    return dict(t="table", keys=keys, bits=bits)


@st.composite
def _expr(draw, cols_all, cols_univ, negated, pool, depth):
    k = draw(st.integers(0, 5)) if depth > 0 else 0
    if k <= 1:
        return draw(_atom(cols_all, cols_univ, negated, pool))
    if k == 2:
        return dict(t="not", a=draw(_expr(cols_all, cols_univ, True, pool, depth - 1)))
    return dict(
        t="and" if k == 3 else "or",
        a=draw(_expr(cols_all, cols_univ, negated, pool, depth - 1)),
        b=draw(_expr(cols_all, cols_univ, negated, pool, depth - 1)),
    )


def _inc_options(game):
    opts = [[t] for t in BASE_TAGS] + [["HitList", "BpmList"], ["HoldList", "BpmList"], ["NoteList", "BpmList"]]
    opts += [["@" + n] for n in B.list_names(game)]
    if "svs" in B.list_names(game):
        opts += [["@svs", "BpmList"], ["@svs", "HitList"]]
    return opts


@st.composite
def _step(draw, info, big, pool, last):
    """last: (map index, include_types) of the previous step when that was a stack step of one chart, "ms" after a
    mapset-level step, else None."""
    game = info["game"]
    kinds = ["col", "col", "loc", "loc", "loc", "loc", "list", "list"] + (["ms", "ms"] if info["mapset"] else [])
    k = draw(st.sampled_from(kinds))
    nmaps = len(info["maps"])
    ms_cont = last == "ms" and draw(st.booleans())  # go on with the mapset stacker of the previous step
    if ms_cont:
        k = "ms"
        last = None
    elif last == "ms":
        last = None
    if k == "ms":
        cols = sorted({c for m in info["maps"] for l in m.values() for c in l} - NON_NUMERIC)
        base = [c for c in cols if _attr_ok(game, c, mapset=True)]
        extra = [c for c in cols if c not in base]
        prop = draw(st.sampled_from(extra if extra and draw(st.integers(0, 2)) == 0 else base))
        op = draw(st.sampled_from(["+", "-", "*", "/"]))
        return dict(k="ms", keep=ms_cont or draw(st.booleans()), prop=prop, via="attr" if _attr_ok(game, prop, True) else "item", op=op, v=draw(_value_st(op, pool)))
    mi = draw(st.integers(0, nmaps - 1))
    lists = info["maps"][mi]
    if k == "list":
        name = draw(st.sampled_from(sorted(lists)))
        what = draw(st.sampled_from(["sort", "sort", "after", "before", "bmask", "append", "relabel"]))
        s = dict(k="list", map=mi, list=name, what=what)
        if what == "sort":
            s["reverse"] = draw(st.integers(0, 2)) > 0
        elif what in ("after", "before"):
            s["q"] = draw(st.integers(0, 7))
            s["incl"] = draw(st.booleans())
        elif what == "bmask":
            s["bits"] = draw(st.lists(st.booleans(), min_size=1, max_size=6))
        elif what == "append":
            s["rows"] = draw(B.st_rows(game, name, info["keys"], 2, pool, min_rows=1))
        else:
            s["labels"] = draw(st.lists(st.integers(-3, 40), min_size=1, max_size=6))
        return s
    cont = last is not None and draw(st.integers(0, 2)) > 0  # go on with the chart and stack of the previous step
    if cont:
        mi, inc = last
        lists = info["maps"][mi]
    else:
        inc = None if draw(st.integers(0, 2)) == 0 else draw(st.sampled_from(_inc_options(game)))
    names = inc_names(game, inc)
    union = sorted(set().union(*[set(lists[n]) for n in names]) - NON_NUMERIC)
    univ = sorted(set.intersection(*[set(lists[n]) for n in names]) - NON_NUMERIC)
    op = draw(st.sampled_from(["+", "-", "*", "/", "=", "+", "*"]))
    v = draw(_value_st(op, pool))
    s = dict(k=k, map=mi, inc=inc, keep=draw(st.integers(0, 3)) > 0 if cont else draw(st.booleans()), op=op, v=v)
    if k == "col":
        prop = draw(st.sampled_from(union))
        via = "attr" if _attr_ok(game, prop) and draw(st.integers(0, 4)) else "item"
        s.update(prop=prop, via=via)
        return s
    if draw(st.integers(0, 9)) == 0:
        mask = dict(t="all")
    else:
        mask = draw(_expr(union, univ, False, pool, 3 if big else 2))
    if draw(st.booleans()):
        cols = draw(st.sampled_from(union))
    else:
        cols = draw(st.lists(st.sampled_from(union), min_size=1, max_size=3, unique=True))
    s.update(mask=mask, mask_as=draw(st.sampled_from(["series", "series", "list", "array"])), cols=cols)
    return s


def _static_info(chart):
    game = chart["game"]
    maps = chart["maps"] if "maps" in chart else [chart]
    out = []
    for m in maps:
        out.append({n: _cols_of(game, n, m["lists"].get(n, [])) for n in B.list_names(game)})
    return dict(game=game, mapset="maps" in chart, maps=out, keys=chart["keys"])


def _pool(chart):
    maps = chart["maps"] if "maps" in chart else [chart]
    offs = sorted({r["offset"] for m in maps for rows_ in m["lists"].values() for r in rows_})
    return (offs[:12] or [0.0]) + [0.0, 1000.0]


@st.composite
def case_st(draw, tier):
    big = tier == "thorough"
    chart = draw(B.st_any_container(tier))
    info = _static_info(chart)
    pool = _pool(chart)
    n = draw(st.integers(1, 15 if big else 6))
    steps = []
    last = None
    for _ in range(n):
        s = draw(_step(info, big, pool, last))
        last = (s["map"], s["inc"]) if s["k"] in ("col", "loc") else ("ms" if s["k"] == "ms" else None)
        steps.append(s)
    return dict(chart=chart, steps=steps)


# --------------------------------------------------------------------------- #
# the model (plain python, no pandas)
# --------------------------------------------------------------------------- #
def _isnan(x):
    return isinstance(x, float) and math.isnan(x)


def _keyval(x):
    return None if x is None or _isnan(x) else x


def _sort_key(k):
    return tuple((1, 0.0) if x is None else (0, float(x)) for x in k)


def _expr_cols(e):
    t = e["t"]
    if t in ("cmp", "isin"):
        return {e["col"]}
    if t == "table":
        return set(e["keys"])
    if t == "not":
        return _expr_cols(e["a"])
    if t in ("and", "or"):
        return _expr_cols(e["a"]) | _expr_cols(e["b"])
    return set()


def _negated_cols(e, under=False):
    t = e["t"]
    if t == "not":
        return _negated_cols(e["a"], True)
    if t in ("and", "or"):
        return _negated_cols(e["a"], under) | _negated_cols(e["b"], under)
    if t == "cmp" and (under or e["op"] == "!="):
        return {e["col"]}
    if t in ("isin", "table") and under:
        return _expr_cols(e)
    return set()


def resolve(e, stack_rows):
    """Replace content-relative parts (quantile thresholds, bit tables) by concrete values of the current stack."""
    t = e["t"]
    if t == "cmp":
        v = e["v"]
        if isinstance(v, dict):
            vals = sorted({float(r[e["col"]]) for r in stack_rows if e["col"] in r and not _isnan(r[e["col"]])})
            v = vals[v["q"] % len(vals)] if vals else 0.0
        return dict(t="cmp", col=e["col"], op=e["op"], v=v)
    if t == "isin":
        vals = sorted({float(r[e["col"]]) for r in stack_rows if e["col"] in r and not _isnan(r[e["col"]])})
        bits = e["bits"]
        return dict(t="isin", col=e["col"], values=[x for i, x in enumerate(vals) if bits[i % len(bits)]])
    if t == "table":
        keys = {tuple(_keyval(r.get(k)) for k in e["keys"]) for r in stack_rows}
        keys = sorted((k for k in keys if None not in k), key=_sort_key)
        bits = e["bits"]
        return dict(t="table", keys=e["keys"], selected=[list(k) for i, k in enumerate(keys) if bits[i % len(bits)]])
    if t == "not":
        return dict(t="not", a=resolve(e["a"], stack_rows))
    if t in ("and", "or"):
        return dict(t=t, a=resolve(e["a"], stack_rows), b=resolve(e["b"], stack_rows))
    return dict(t="all")


def m_eval(e, row):
    t = e["t"]
    if t == "all":
        return True
    if t == "cmp":
        return bool(_CMP[e["op"]](row.get(e["col"], NAN), e["v"]))
    if t == "isin":
        x = row.get(e["col"], NAN)
        return (not _isnan(x)) and any(x == y for y in e["values"])
    if t == "table":
        k = [_keyval(row.get(c)) for c in e["keys"]]
        return None not in k and any(all(a == b for a, b in zip(k, s)) for s in e["selected"])
    if t == "not":
        return not m_eval(e["a"], row)
    if t == "and":
        return m_eval(e["a"], row) and m_eval(e["b"], row)
    return m_eval(e["a"], row) or m_eval(e["b"], row)


def m_assign(mlists, names, mask, cols, op, v):
    """Apply `[mask, cols] op= v` to each named list separately.  -> (#selected rows, #rows, #cells written, #selected rows lacking a target)"""
    nsel = nrows = ncell = nlack = 0
    for n in names:
        L = mlists[n]
        for r in L["rows"]:
            nrows += 1
            if mask is not None and not m_eval(mask, r):
                continue
            nsel += 1
            for c in cols:
                if c in L["cols"]:
                    r[c] = v if op == "=" else _OP[op](r[c], v)
                    ncell += 1
                else:
                    nlack += 1
    return nsel, nrows, ncell, nlack


# --------------------------------------------------------------------------- #
# real side
# --------------------------------------------------------------------------- #
def r_mask(e, stack, as_):
    import numpy as np
    import pandas as pd

    def go(x):
        t = x["t"]
        if t == "cmp":
            return _CMP[x["op"]](stack[x["col"]], x["v"])
        if t == "isin":
            return stack[x["col"]].isin(x["values"])
        if t == "table":
            sel = {tuple(s) for s in x["selected"]}
            colvals = [stack[c].tolist() for c in x["keys"]]
            idx = stack["offset"].index
            return pd.Series([tuple(_keyval(B._py(a)) for a in k) in sel for k in zip(*colvals)], index=idx, dtype=bool)
        if t == "not":
            return ~go(x["a"])
        if t == "and":
            return go(x["a"]) & go(x["b"])
        return go(x["a"]) | go(x["b"])

    if e["t"] == "all":
        return slice(None)
    m = go(e)
    if as_ == "list":
        return [bool(b) for b in m.tolist()]
    if as_ == "array":
        return np.asarray(m.tolist(), dtype=bool)
    return m


def r_col_assign(stack, prop, via, op, v):
    if via == "attr":
        if op == "=":
            setattr(stack, prop, v)
        else:
            setattr(stack, prop, _IOP[op](getattr(stack, prop), v))
    else:
        if op == "=":
            stack[prop] = v
        else:
            stack[prop] = _IOP[op](stack[prop], v)


def r_loc_assign(stack, key, op, v):
    loc = stack.loc  # `stack.loc[key] op= v` evaluates stack.loc once, then __getitem__, the operator, __setitem__
    if op == "=":
        loc[key] = v
    else:
        loc[key] = _IOP[op](loc[key], v)


def r_list_edit(m, game, step, mlist):
    """Out-of-band edit of one list through the public list API + the map's list setter."""
    import numpy as np

    name = step["list"]
    lst = m.objs[name]
    what = step["what"]
    offs = sorted({float(r["offset"]) for r in mlist["rows"]})
    if what == "sort":
        new = lst.sorted(reverse=step["reverse"])
    elif what in ("after", "before"):
        x = offs[step["q"] % len(offs)] if offs else 0.0
        new = getattr(lst, what)(x, include_end=step["incl"])
    elif what == "bmask":
        bits = step["bits"]
        new = lst[np.asarray([bits[i % len(bits)] for i in range(len(lst))], dtype=bool)]
    elif what == "append":
        new = lst.append(B.build_list(game, name, step["rows"]))
    else:
        labels = step["labels"]
        new = type(lst)(lst.df.set_axis([labels[i % len(labels)] for i in range(len(lst))], axis=0))
    setattr(m, name, new)


# --------------------------------------------------------------------------- #
# comparison
# --------------------------------------------------------------------------- #
_PLAIN = (float, int, str, bool)


def _cells(df):
    """rows of python values (numpy scalars unboxed by the object cast)"""
    return df.to_numpy(dtype=object).tolist() if df.shape[1] else []


def _rows(lst):
    """Same view as B.rows (by meaning: python scalars, bytes->str, NaN kept); one array conversion per list because it
    runs after every step."""
    df = lst.df
    cols = [str(c) for c in df.columns]
    return [{c: (x if type(x) in _PLAIN else B._py(x)) for c, x in zip(cols, rec)} for rec in _cells(df)]


def _strict(lst):
    """Strict view of a list that must not be touched: class, columns, dtypes, row labels, cells."""
    df = lst.df
    cells = [["nan" if type(x) is float and x != x else x for x in rec] for rec in _cells(df)]
    return (type(lst).__name__, [str(c) for c in df.columns], [str(t) for t in df.dtypes], df.index.tolist(), cells)


def _compare(ctx, kind, maps, model, prev, classes, only=None):
    """Every list of every chart (of chart `only`: the others are then covered by strict snapshots) against the model.
    Returns False after the first mismatch."""
    for mi, m in enumerate(maps):
        if only is not None and mi != only:
            continue
        if list(m.objs) != list(model[mi]):
            ctx.fail(f"{kind}:lists", f"map {mi}: lists {list(m.objs)} expected {list(model[mi])}")
            return False
        for name, lst in m.objs.items():
            L = model[mi][name]
            where = f"map {mi} list {name}"
            if type(lst).__name__ != classes[mi][name]:
                ctx.fail(f"{kind}:class", f"{where}: {type(lst).__name__} expected {classes[mi][name]}")
                return False
            got = _rows(lst)
            cols = [str(c) for c in lst.df.columns]
            if set(cols) != set(L["cols"]) or len(cols) != len(L["cols"]):
                ctx.fail(f"{kind}:columns", f"{where}: columns {cols} expected {L['cols']}")
                return False
            if len(got) != len(L["rows"]):
                ctx.fail(f"{kind}:length", f"{where}: {len(got)} rows expected {len(L['rows'])}")
                return False
            P = prev[mi][name]["rows"] if prev is not None else None
            for i, (g, e) in enumerate(zip(got, L["rows"])):
                for c in L["cols"]:
                    if B.same_value(g[c], e[c]):
                        continue
                    what = "wrong-value"
                    if P is not None and len(P) == len(got):
                        p = P[i][c]
                        if B.same_value(e[c], p):
                            what = "spurious-write"
                        elif B.same_value(g[c], p):
                            what = "not-written"
                    ctx.fail(f"{kind}:{what}", f"{where} row {i} column {c}: got {g[c]!r} expected {e[c]!r} (row expected {e})")
                    return False
    return True


def _model_of(maps):
    return [{n: dict(cols=[str(c) for c in l.df.columns], rows=_rows(l)) for n, l in m.objs.items()} for m in maps]


def _check_build(ctx, chart, model):
    """the model read from the built chart is the case's plain data"""
    maps = chart["maps"] if "maps" in chart else [chart]
    for mi, c in enumerate(maps):
        for name, rows_ in c["lists"].items():
            got = model[mi][name]["rows"]
            ctx.harness(len(got) == len(rows_), f"build: map {mi} {name} has {len(got)} rows, case has {len(rows_)}")
            for g, e in zip(got, rows_):
                ctx.harness(all(B.same_value(g[k], e[k]) for k in e), f"build: map {mi} {name} row {g} != {e}")


# --------------------------------------------------------------------------- #
def check(case, ctx):
    chart, steps = case["chart"], case["steps"]
    game = chart["game"]
    is_set = "maps" in chart
    obj = B.build(chart)
    maps = list(obj.maps) if is_set else [obj]
    model = _model_of(maps)
    _check_build(ctx, chart, model)
    classes = [{n: type(l).__name__ for n, l in m.objs.items()} for m in maps]
    meta0 = [B.meta_of(m) for m in maps] + ([B.meta_of(obj)] if is_set else [])

    ctx.label("game=" + game)
    ctx.label("mapset", is_set)
    ctx.label(f"maps={len(maps)}", is_set)
    ctx.label("chart-has-empty-list", any(not L["rows"] for mm in model for L in mm.values()))
    ctx.label("steps>=4", len(steps) >= 4)
    ctx.label("steps>=10", len(steps) >= 10)

    kept = {}  # map index -> dict(inc, stacker, dirty)
    kept_ms = None
    label_changed = set()  # maps that saw a label-changing list edit
    nt = False
    n_cond = 0

    for si, s in enumerate(steps):
        k = s["k"]
        prev = copy.deepcopy(model)
        if k == "list":
            mi = s["map"] % len(maps)
            name = s["list"]
            ctx.label("list-edit=" + s["what"])
            kept.pop(mi, None)
            kept_ms = None
            ctx.call("list-edit:" + s["what"], r_list_edit, maps[mi], game, s, model[mi][name])
            lst = maps[mi].objs[name]
            model[mi][name] = dict(cols=[str(c) for c in lst.df.columns], rows=_rows(lst))
            idx = list(lst.df.index)
            ctx.label("labels-non-default", idx != list(range(len(idx))))
            ctx.label("labels-duplicated", len(set(idx)) < len(idx))
            ctx.label("list-emptied", not idx and bool(prev[mi][name]["rows"]))
            label_changed.add(mi)
            continue

        if k == "ms":
            ctx.harness(is_set, "ms step on a single chart")
            prop, op, v = s["prop"], s["op"], s["v"]
            owners = [(mi, n) for mi, mm in enumerate(model) for n, L in mm.items() if prop in L["cols"]]
            if not owners or prop in NON_NUMERIC:
                ctx.exclude("ms-step-on-unowned-or-non-numeric-property")
            if op == "/" and v == 0:
                ctx.exclude("division-by-zero")
            ctx.label("step=ms")
            ctx.label("ms-via-" + s["via"])
            ctx.label("op=" + op)
            if s.get("keep") and kept_ms is not None:
                mst = kept_ms
                ctx.label("ms-stacker-kept")
            else:
                mst = ctx.call("ms.stack", obj.stack)
            kept.clear()
            ctx.call("ms-assign", r_col_assign, mst, prop, s["via"], op, v)
            kept_ms = mst
            for mi in range(len(maps)):
                m_assign(model[mi], list(model[mi]), None, [prop], op, v)
            ctx.label("ms-maps-differ-in-rows", len({sum(len(L["rows"]) for L in mm.values()) for mm in model}) > 1)
            if not _compare(ctx, "ms", maps, model, prev, classes):
                return
            continue

        # ---- a stack step on one chart --------------------------------------
        mi = s["map"] % len(maps)
        m = maps[mi]
        inc = s.get("inc")
        names = [n for n in inc_names(game, inc) if n in model[mi]]
        if not names:
            ctx.exclude("include_types-matches-no-list")
        op, v = s["op"], s["v"]
        if op == "/" and v == 0:
            ctx.exclude("division-by-zero")
        union = set().union(*[set(model[mi][n]["cols"]) for n in names])
        univ = set.intersection(*[set(model[mi][n]["cols"]) for n in names])
        cols = [s["prop"]] if k == "col" else (s["cols"] if isinstance(s["cols"], list) else [s["cols"]])
        if not set(cols) <= union or set(cols) & NON_NUMERIC:
            ctx.exclude("target-column-unowned-or-non-numeric")
        mask = None
        if k == "loc":
            if _negated_cols(s["mask"]) - univ:
                ctx.exclude("negation-over-partially-owned-column")
            if not _expr_cols(s["mask"]) <= (union - NON_NUMERIC):
                ctx.exclude("mask-column-not-in-stack")
            stack_rows = [r for n in names for r in model[mi][n]["rows"]]
            mask = resolve(s["mask"], stack_rows)
            if mask["t"] == "all":
                mask_model = None
            else:
                mask_model = mask

        # outside the stack: strict snapshots
        outside = {}
        for mj, mm in enumerate(maps):
            for n, l in mm.objs.items():
                if mj != mi or n not in names:
                    outside[(mj, n)] = _strict(l)

        ent = kept.get(mi)
        if s.get("keep") and ent is not None and ent["inc"] == inc and not ent["dirty"]:
            stack = ent["stacker"]
            ctx.label("stacker-kept")
        else:
            ctx.label("stacker-kept-refused-after-plain-assign", bool(s.get("keep") and ent is not None and ent["inc"] == inc and ent["dirty"]))
            types_ = inc_types(game, inc)
            stack = ctx.call("stack", (lambda: m.stack()) if types_ is None else (lambda: m.stack(types_)))
            ent = dict(inc=inc, stacker=stack, dirty=False)
        kept_ms = None
        kept[mi] = ent

        sizes = [len(model[mi][n]["rows"]) for n in names]
        has_empty = any(x == 0 for x in sizes)
        ctx.label("stack-has-empty-list", has_empty)
        ctx.label("empty-list-before-non-empty", any(a == 0 and any(sizes[i + 1 :]) for i, a in enumerate(sizes)))
        ctx.label("stack-all-empty", not any(sizes))
        ctx.label("include_types", inc is not None)
        ctx.label("op=" + op)
        ctx.label("step=" + k)
        ctx.label("target-partially-owned", bool(set(cols) - univ))
        ctx.label("after-label-change", mi in label_changed)
        ctx.label("int-valued-target", any(c in ("column", "volume", "hitsound_set", "sample_set", "pan", "kiai") for c in cols))

        if k == "col":
            ctx.label("col-via-" + s["via"])
            ctx.call("col-assign", r_col_assign, stack, s["prop"], s["via"], op, v)
            nsel, nrows, ncell, nlack = m_assign(model[mi], names, None, cols, op, v)
        else:
            ctx.label("loc-several-columns" if isinstance(s["cols"], list) and len(s["cols"]) > 1 else "loc-one-column")
            ctx.label("loc-cols-as-list", isinstance(s["cols"], list))
            ctx.label("mask-as-" + s.get("mask_as", "series"), mask["t"] != "all")
            for t in sorted(_mask_kinds(s["mask"])):
                ctx.label("mask:" + t)
            rmask = ctx.call("build-mask", r_mask, mask, stack, s.get("mask_as", "series"))
            ctx.call("loc-assign", r_loc_assign, stack, (rmask, s["cols"]), op, v)
            nsel, nrows, ncell, nlack = m_assign(model[mi], names, mask_model, cols, op, v)
            if mask_model is not None:
                n_cond += 1
                ctx.label("mask-selects-none", nsel == 0)
                ctx.label("mask-selects-all", nsel == nrows and nrows > 0)
                ctx.label("mask-selects-some", 0 < nsel < nrows)
                ctx.label("cond-after-label-change", mi in label_changed)
                ctx.label("cond-on-stack-with-empty-list", has_empty)
                if mi in label_changed or has_empty:
                    nt = True
        ctx.label("selected-row-lacks-target", nlack > 0)
        ctx.label("cells-written", ncell > 0)
        if op == "=" and set(cols) - univ:
            ent["dirty"] = True

        if not _compare(ctx, k, maps, model, prev, classes, only=mi):
            return
        for (mj, n), snap in outside.items():
            if _strict(maps[mj].objs[n]) != snap:
                ctx.fail(f"{k}:outside-stack-touched", f"map {mj} list {n} is not in the stack (map {mi}, include_types {inc}) but changed (labels/dtypes/cells)")
                return

    ctx.nt(nt)
    ctx.label("conditional-steps>=2", n_cond >= 2)
    meta1 = [B.meta_of(m) for m in maps] + ([B.meta_of(obj)] if is_set else [])
    if not B.same_value(meta1, meta0):
        ctx.fail("metadata-changed", "chart/mapset metadata changed by stack operations")
    if is_set and [id(x) for x in obj.maps] != [id(x) for x in maps]:
        ctx.fail("maps-replaced", "the mapset's chart objects were replaced")


def _mask_kinds(e):
    t = e["t"]
    if t in ("and", "or"):
        return {t} | _mask_kinds(e["a"]) | _mask_kinds(e["b"])
    if t == "not":
        return {"not"} | _mask_kinds(e["a"])
    if t == "cmp":
        return {"cmp", "cmp" + e["op"], "cmp-quantile" if isinstance(e["v"], dict) else "cmp-literal"}
    if t == "table":
        return {"table", "table:" + "+".join(e["keys"])}
    return {t}


SUBS = [
    Sub("history", check, strategy=case_st, examples={"quick": 350, "thorough": 2500}, shards={"quick": 16, "thorough": 16}),
]

MANIFEST = dict(
    technique="model-based (stateful) property testing: generated charts of all five games + generated operation histories (whole-column and conditional stack assignments, include_types, kept/rebuilt stackers, label-perturbing list edits, mapset-level stacks) replayed against a plain-Python per-list model, compared after every step",
    level_text="Exploration: thousands of generated histories per run on charts of all five games (empty lists, non-default and duplicated row labels, mapsets of 1-3 charts) agree cell by cell with an independent per-list model after every step; lists outside the stack are compared strictly (labels, dtypes, cells). Sampling cannot prove the claim for all histories; the mechanism is a positional slice write-back whose every branch (empty list inside the stack, restricted stacks, kept stackers, several columns, mapset broadcast) is labelled and hit hundreds of times per run.",
    level_note="trusted: the ~80-line model in vlib/props/C12.py, vlib/gen/build.py (build/rows/snapshot), Hypothesis; domain excludes stale stackers, properties no stacked list owns, division by zero, non-numeric values; negation only over columns owned by every stacked list",
)
