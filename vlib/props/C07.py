"""C07 O2Jam reading places every note and tempo change at the time its measure implies."""
from __future__ import annotations

import os
from fractions import Fraction as F

from vlib.core import Sub, close, fr
from vlib.gen import ojn as gen
from vlib.ref import ojn as ref

PROPERTY_ID = "C07"
RULE = (
    "Hypothesis-generated OJN skeletons (vlib/gen/ojn.py) encoded to bytes by vlib/ref/ojn.encode: 300-byte header "
    "with all 23 fields (ASCII strings NUL-padded, float32 values, derived counts/offsets consistent with the body), "
    "three difficulties (some empty), packages sorted by measure with any channel order inside a measure, one package "
    "per (measure, channel), measure numbers with gaps and not starting at 0; note channels 2..8 with 1..192 slots, "
    "types 0/2/3 assigned by a walk along each column so heads and tails pair by construction (inside one package and "
    "across packages/measures, overlapping on several columns); tempo channel with 0..8 float32 events at any slot "
    "(none, first not at measure 0, sharing a position with a note, after the last note); auto-play channels 9..22; "
    "optional cover bytes. Oracle: independent struct decoder + exact Fraction positions (measure + slot/slots, 4 "
    "beats per measure) integrated by vlib/ref/timing.BeatTimeline from the header bpm at 0 ms; the decoder is itself "
    "checked against the generator's by-construction expectation in every case (mismatch = harness error). Two "
    "bundled real files are fixed cases. Non-trivial = some difficulty has >= 2 tempo events, or a tempo event not at "
    "measure 0, or a long note whose head and tail lie in different packages."
)
ASSUMPTIONS = [
    "well-formed files: the three package blocks are contiguous from byte 300 in the order of the difficulties and "
    "package_count/note_offset/cover_offset agree with them; at most one package per (measure, channel); packages in "
    "non-decreasing measure order; every head has a later tail on its column and vice versa; no channel-0 packages",
    "empty slot = note value (int16) 0 / tempo float 0.0; enabled notes have value 1..32767, tempo values are float32 "
    "in [1, 1e4]",
    "tempo events of one difficulty have pairwise different positions (no statement about which of two events at the "
    "same position wins)",
    "milliseconds compared with |a-b| <= 1e-6*max(1,|a|); hold length with the same rule on the length; bpm values and "
    "float header fields are the float32 values (rel 1e-9)",
    "the header tempo must appear as a tempo point at 0 ms unless a tempo event sits at measure position 0",
    "header char[] fields compared as the ASCII text before the NUL padding; old_genre as the raw 20 bytes",
]


# --------------------------------------------------------------------------- #
def _expected_from_case(case):
    """Per chart: hits [(pos, col)], holds [(pos, end, col)], tempo [(pos, bpm)] from the generator's construction."""
    out = []
    for c in case["charts"]:
        e = c["expect"]
        out.append(
            dict(
                hits=sorted((fr(p), col) for p, col in e["hits"]),
                holds=sorted((fr(a), fr(b), col) for a, b, col in e["holds"]),
                tempo=[(fr(p), float(v)) for p, v in e["tempo"]],
            )
        )
    return out


def _selfcheck(ctx, case, data, dec):
    """decode(encode(skeleton)) must mean what the generator built (else the harness is wrong, not reamber)."""
    raw = ref.decode_raw(data)
    for d, (c, r) in enumerate(zip(case["charts"], raw["charts"])):
        ctx.harness(r["packages"] == c["packages"], f"chart {d}: decode_raw(encode(s)).packages != s.packages")
    ctx.harness(raw["cover"] == case.get("cover", ""), "cover bytes differ")
    exp_h = ref.fill_header(case)
    ctx.harness(dec["meta"] == {k: (v if k != "signature" else v) for k, v in exp_h.items()}, f"header round trip: {dec['meta']} != {exp_h}")
    for d, (e, r) in enumerate(zip(_expected_from_case(case), dec["charts"])):
        ctx.harness(sorted((h["measure"], h["column"]) for h in r["hits"]) == e["hits"], f"chart {d}: hits differ")
        ctx.harness(
            sorted((h["measure"], h["tail_measure"], h["column"]) for h in r["holds"]) == e["holds"], f"chart {d}: holds differ"
        )
        ctx.harness([(b["measure"], b["bpm"]) for b in r["bpms"][1:]] == e["tempo"], f"chart {d}: tempo differs")
        # an independent two-line integration of the by-construction positions
        tl = ref.timeline(exp_h["bpm"], e["tempo"])
        for h in r["hits"]:
            ctx.harness(h["offset"] == tl.ms(4 * h["measure"]), "hit ms")
        for h in r["holds"]:
            ctx.harness(h["offset"] + h["length"] == tl.ms(4 * h["measure"]) + (tl.ms(4 * h["tail_measure"]) - tl.ms(4 * h["measure"])), "hold ms")
    return exp_h


def _labels(ctx, case, dec):
    nt = False
    for c, r in zip(case["charts"], dec["charts"]):
        pk = c["packages"]
        tempo = r["bpms"][1:]
        k = len(tempo)
        ctx.label("chart:empty", not pk)
        ctx.label("tempo=0", k == 0 and bool(pk))
        ctx.label("tempo=1", k == 1)
        ctx.label("tempo>=2", k >= 2)
        ctx.label("tempo>=3", k >= 3)
        note_pos = {h["measure"] for h in r["hits"]} | {h["measure"] for h in r["holds"]} | {h["tail_measure"] for h in r["holds"]}
        last = max(note_pos) if note_pos else None
        first = min(note_pos) if note_pos else None
        ctx.label("tempo-at-measure-0", any(b["measure"] == 0 for b in tempo))
        ctx.label("first-tempo-not-at-0", k >= 1 and tempo[0]["measure"] > 0)
        ctx.label("tempo-after-last-note", k >= 1 and last is not None and tempo[-1]["measure"] > last)
        ctx.label("tempo-before-first-note", k >= 1 and first is not None and tempo[0]["measure"] < first)
        ctx.label("tempo-without-notes", k >= 1 and last is None)
        ctx.label("tempo==note-position", any(b["measure"] in note_pos for b in tempo))
        ctx.label("tempo-inside-hold", any(h["measure"] < b["measure"] < h["tail_measure"] for h in r["holds"] for b in tempo))
        ctx.label("tempo-off-measure-line", any(b["measure"].denominator != 1 for b in tempo))
        # holds
        where = {}
        for p_ix, p in enumerate(pk):
            if ref.is_note_channel(p["channel"]):
                for ev in p["events"]:
                    where[(p["channel"] - 2, ref.position(p["measure"], ev[0], p["slots"]))] = p_ix
        cross = [h for h in r["holds"] if where[(h["column"], h["measure"])] != where[(h["column"], h["tail_measure"])]]
        ctx.label("hold", bool(r["holds"]))
        ctx.label("hold-cross-package", bool(cross))
        ctx.label("hold-in-one-package", len(cross) < len(r["holds"]))
        ctx.label("hold>=2-measures", any(h["tail_measure"] - h["measure"] >= 2 for h in r["holds"]))
        ctx.label(
            "holds-overlap-on-2-columns",
            any(
                a["column"] != b["column"] and a["measure"] < b["measure"] < a["tail_measure"]
                for a in r["holds"]
                for b in r["holds"]
            ),
        )
        ctx.label("hit", bool(r["hits"]))
        cols = {h["column"] for h in r["hits"]} | {h["column"] for h in r["holds"]}
        ctx.label("columns>=4", len(cols) >= 4)
        ctx.label("column-6", 6 in cols)
        ctx.label("autoplay", any(p["channel"] >= 9 for p in pk))
        ctx.label("slots-odd-prime", any(p["slots"] in (5, 7, 11, 13, 17, 19, 23, 191) for p in pk))
        ctx.label("first-measure>0", bool(pk) and pk[0]["measure"] > 0)
        chans = [(p["measure"], p["channel"]) for p in pk]
        ctx.label("channels-unsorted-in-measure", chans != sorted(chans))
        nt = nt or k >= 2 or any(b["measure"] >= 1 for b in tempo) or bool(cross)
    ctx.label("cover", bool(case.get("cover")))
    ctx.nt(nt)


# --------------------------------------------------------------------------- #
def _compare_header(ctx, ms, exp_h):
    for name in ref.HEADER_FIELDS:
        got = ctx.call(f"meta.{name}", getattr, ms, name)
        exp = exp_h[name]
        if name in ref.FLOAT_FIELDS:
            ctx.near(f"header:{name}", got, exp, rel=1e-9, abs_=0.0)
        elif isinstance(exp, list):
            ctx.eq(f"header:{name}", [int(x) for x in got], exp)
        elif isinstance(exp, bytes):
            ctx.eq(f"header:{name}", bytes(got), exp)
        else:
            ctx.eq(f"header:{name}", got, exp)


def _col(lst, name):
    return [float(x) for x in getattr(lst, name).tolist()]


def _compare_chart(ctx, d, m, r):
    """m: reamber O2JMap, r: reference chart dict."""
    tag = f"chart {d}"
    # hits
    got = sorted(zip(_col(m.hits, "column"), _col(m.hits, "offset")))
    exp = sorted((float(h["column"]), h["offset"]) for h in r["hits"])
    if ctx.eq("hit-count", len(got), len(exp), tag):
        if ctx.eq("hit-columns", [g[0] for g in got], [e[0] for e in exp], tag):
            for g, e in zip(got, exp):
                ctx.near("hit-offset", g[1], e[1], msg=f"{tag} column {int(e[0])}")
    # holds
    got = sorted(zip(_col(m.holds, "column"), _col(m.holds, "offset"), _col(m.holds, "length")))
    exp = sorted((float(h["column"]), h["offset"], h["length"]) for h in r["holds"])
    if ctx.eq("hold-count", len(got), len(exp), tag):
        if ctx.eq("hold-columns", [g[0] for g in got], [e[0] for e in exp], tag):
            for g, e in zip(got, exp):
                ctx.near("hold-offset", g[1], e[1], msg=f"{tag} column {int(e[0])}")
                ctx.near("hold-length", g[2], e[2], msg=f"{tag} column {int(e[0])} start {e[1]}")
    # tempo: header bpm at 0 ms followed by the events (multiset, sorted by time)
    got = sorted(zip(_col(m.bpms, "offset"), _col(m.bpms, "bpm")))
    full = sorted((b["offset"], b["bpm"]) for b in r["bpms"])
    events = sorted((b["offset"], b["bpm"]) for b in r["bpms"][1:])
    exp = full
    if len(got) == len(events) and len(r["bpms"]) > 1 and r["bpms"][1]["measure"] == 0:
        exp = events  # header tempo superseded at position 0: a reader may leave it out
    if ctx.eq("tempo-count", len(got), len(exp), f"{tag} got={got[:12]} expected={exp[:12]}"):
        for i, (g, e) in enumerate(zip(got, exp)):
            ctx.near("tempo-offset", g[0], e[0], msg=f"{tag} tempo point {i} of {len(exp)} (bpm {e[1]})")
            ctx.near("tempo-bpm", g[1], e[1], rel=1e-9, abs_=0.0, msg=f"{tag} tempo point {i} at {e[0]} ms")


def _compare(ctx, ms, dec, exp_h):
    maps = ctx.call("maps", lambda: list(ms.maps))
    if not ctx.eq("chart-count", len(maps), 3):
        return
    _compare_header(ctx, ms, exp_h)
    for d, (m, r) in enumerate(zip(maps, dec["charts"])):
        _compare_chart(ctx, d, m, r)


def check_read(case, ctx):
    from reamber.o2jam import O2JMapSet

    data = ref.encode(case)
    dec = ref.decode(data)
    exp_h = _selfcheck(ctx, case, data, dec)
    _labels(ctx, case, dec)
    ms = ctx.call("read", O2JMapSet.read, data)
    _compare(ctx, ms, dec, exp_h)


def read_strategy(tier):
    return gen.mapset_strategy(tier)


# --------------------------------------------------------------------------- #
BUNDLED = ["rsc/maps/o2jam/o2ma120.ojn", "rsc/maps/o2jam/o2ma178.ojn"]


def bundled_cases(tier):
    return [dict(file=f) for f in BUNDLED]


def check_bundled(case, ctx):
    from reamber.o2jam import O2JMapSet

    path = os.path.join(os.environ.get("VERIF_REPO", "/repo"), case["file"])
    with open(path, "rb") as fh:
        data = fh.read()
    dec = ref.decode(data)
    ctx.label("file=" + os.path.basename(case["file"]))
    ctx.nt(any(len(c["bpms"]) >= 3 or any(b["measure"] >= 1 for b in c["bpms"][1:]) for c in dec["charts"]))
    ms = ctx.call("read_file", O2JMapSet.read_file, path)
    _compare(ctx, ms, dec, dec["meta"])
    ms2 = ctx.call("read", O2JMapSet.read, data)
    _compare(ctx, ms2, dec, dec["meta"])


SUBS = [
    Sub("read", check_read, strategy=read_strategy, examples={"quick": 450, "thorough": 3000}, shards={"quick": 8, "thorough": 16}, fuzz={"thorough": 150}),
    Sub("bundled", check_bundled, enumerate=bundled_cases, examples={"quick": 2, "thorough": 2}, shards={"quick": 2, "thorough": 2}, exhaustive=False),
]

MANIFEST = dict(
    technique="property-based testing: Hypothesis-generated OJN byte strings (own encoder) read by O2JMapSet.read and "
    "compared with an independent struct decoder + exact Fraction/BeatTimeline integration; two bundled real files as "
    "fixed cases",
    level_text="Exploration: thousands of generated well-formed OJN files per run (all 23 header fields, three "
    "difficulties, every slot count 1..192, 0..8 tempo events anywhere incl. after the last note, long notes within and "
    "across packages on overlapping columns, auto-play channels) agree with an independent decoder on every hit, hold "
    "start, hold length, tempo point and header field; the decoder also agrees with reamber on the two real files. "
    "Sampling cannot prove absence; the reader has few branches and each is labelled in the evidence. Thorough adds an atheris/libFuzzer campaign on the same strategy (coverage.fuzz in the evidence).",
    level_note="trusted: vlib/ref/ojn.py (struct decoder, ~150 lines), vlib/ref/timing.py, Hypothesis; domain: well-formed "
    "files without measure-fraction packages, one package per (measure, channel), packages in measure order, tempo "
    "events at distinct positions",
)
