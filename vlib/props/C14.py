"""C14 Query, generate, convert and write operations never modify their inputs.

A case is plain data: a chart (osu / Quaver / BMS Map) or mapset (StepMania / O2Jam) from vlib/gen/build.py, an
optional *history* that gives the argument non-default row labels / dtypes the library's own way, and 1..4
operation descriptors.  Every operation is applied to the same argument; the strict snapshot of the argument is
compared before / after every operation ("modified:<op>"), and for results documented as copies the result is
edited afterwards and the argument's snapshot compared again ("shared:<op>").
"""
from __future__ import annotations

import dataclasses
import os
import tempfile

from hypothesis import strategies as st

from vlib.core import Sub
from vlib.gen import build as B

PROPERTY_ID = "C14"

RULE = (
    "Hypothesis-generated charts (osu, Quaver, BMS Map; StepMania, O2Jam MapSet of 1..3 charts; empty lists, ties, "
    "negative/fractional offsets) built through the public constructors; an optional history gives every list of the "
    "argument non-default row labels / dtypes the library's own way (sorted(reverse=True), boolean-mask filter, "
    "append(item, sort=True), rate(1.0) = stacked labels, float dtypes); then 1..4 operations, each applied to the same "
    "argument: list-level on every list of every chart (sorted, after/before/between with all flag combinations incl. "
    "hold head/tail variants, append item/list/self/DataFrame with and without sort, move_start_to/move_end_to, deepcopy, "
    "time_diff, [int], [slice], [bool mask], TimedList(other), property/loc/iloc/iteration reads, first/last/"
    "first_last offset, hold tail_offset/last_offset, describe, BpmList current_bpm/ave_bpm/snap_offsets/"
    "to_timing_map) and chart-level (Map.rate, MapSet.rate, deepcopy, stack reads, describe, metadata, all 16 converters "
    "of the game + O2JToSM.convert_merge, every write()/write_file() incl. the five BMS channel configs and SMMap.write, "
    "full_ln, hitsound_copy (osu, argument as source / target / both), sv_normalize, scroll_speed, dominant_bpm, "
    "Pattern.from_note_lists(...).group(...), PtnCombo(...).combinations(...)). Times are taken from the chart's own "
    "offsets (+- small deltas). Oracle: strict snapshot (class, column names in order, dtypes, row labels, cells, all "
    "dataclass metadata) of the argument equal before and after each operation; results documented as copies are "
    "edited in place (numpy write-through on every column, column assignment, added column, list setters, metadata "
    "lists where the result owns them; for results of copy.deepcopy - deepcopy, rate, move_*_to - also the python "
    "containers held in cells, kind shared-cell:<op>) and the argument compared again. "
    "Non-trivial = the argument has a list whose row labels are not 0..n-1, or the sequence has >= 2 operations."
)
ASSUMPTIONS = [
    "an operation that raises is not a C14 matter (label raised=<op>); the argument is still compared after it",
    "slices tl[a:b] and TimedList(other) are not treated as copies (they share the frame and are not documented otherwise)",
    "converter results: only their DataFrame-backed lists are edited (OsuToQua/QuaToOsu hand over the same tags list)",
    "python containers inside cells (Quaver keysound lists) are edited only in results of copy.deepcopy (deepcopy, rate, "
    "move_*_to: 'Returns a deep copy of itself'), kind shared-cell:<op>; sorted/filter/append/converter results are not "
    "documented as deep copies of cell objects (pandas take/concat semantics) and are edited at frame level only",
    "arguments are generated valid where cheap (non-empty list for row-based helpers, tuple include_ends for holds, "
    "raise_bad_mode only for supported key counts); describe() of Quaver and StepMania charts always raises "
    "(metadata() signature mismatch) - counted under raised=describe, not reported here",
    "hitsound_copy: both arguments are compared; with role 'both' the same chart is source and target",
    "BMS charts that are written have at most 2 tempo points (3 after an append history): BMSMap.write multiplies the "
    "denominators of off-grid tempo points into its line length (3 points: seconds, 4: out of memory)",
]

SET_GAMES = ("sm", "o2j")

# Results produced by copy.deepcopy: "Returns a deep copy of itself" (Map/MapSet/TimedList.deepcopy; rate and move_*_to
# start from it).  For these the python containers held in cells (Quaver keysound lists) are edited too (finding F31,
# repaired in /repo by TimedList.__deepcopy__; mutants/revert_F31.diff re-introduces it).
DEEP_COPY_OPS = {"deepcopy", "list_deepcopy", "rate", "move_start_to", "move_end_to"}
EDIT_CELL_OBJECTS = True

# --------------------------------------------------------------------------------------------------------------
# operation catalogue
# --------------------------------------------------------------------------------------------------------------
LIST_OPS = [
    "sorted", "after", "before", "between", "append_item", "append_list", "move_start_to", "move_end_to",
    "list_deepcopy", "time_diff", "getitem_int", "getitem_slice", "getitem_mask", "ctor", "prop_reads",
    "first_offset", "last_offset", "first_last_offset", "tail_offset", "list_describe",
    "current_bpm", "ave_bpm", "snap_offsets", "to_timing_map",
]  # fmt: skip
MAP_OPS = ["rate", "deepcopy", "stack_read", "describe", "metadata", "full_ln", "scroll_speed", "dominant_bpm",
           "pattern_group", "ptn_combo"]  # fmt: skip
GAME_OPS = {
    "osu": ["OsuToQua", "OsuToSM", "OsuToBMS", "write", "write_file", "hitsound_copy", "sv_normalize"],
    "qua": ["QuaToOsu", "QuaToSM", "QuaToBMS", "write", "write_file", "sv_normalize"],
    "bms": ["BMSToOsu", "BMSToQua", "BMSToSM", "write", "write_file"],
    "sm": ["SMToOsu", "SMToQua", "SMToBMS", "write", "write_file", "map_write"],
    "o2j": ["O2JToOsu", "O2JToQua", "O2JToSM", "O2JToSM_merge", "O2JToBMS"],
}
BMS_CONFIGS = ["BME", "BMS", "PMS", "PMS_BME", "PMS_5B"]
BMS_WRITE_MAX_TEMPO = 2
BMS_CONFIG_KEYS = {"BME": 16, "BMS": 14, "PMS": 9, "PMS_BME": 18, "PMS_5B": 5}


def ops_of(game):
    return LIST_OPS + MAP_OPS + GAME_OPS[game]


# --------------------------------------------------------------------------------------------------------------
# generator
# --------------------------------------------------------------------------------------------------------------
def _offsets_of(chart):
    maps = chart["maps"] if "maps" in chart else [chart]
    out = set()
    for m in maps:
        for rows in m["lists"].values():
            for r in rows:
                out.add(float(r["offset"]))
                if "length" in r:
                    out.add(float(r["offset"]) + float(r["length"]))
    return sorted(out) or [0.0]


def _anchor(chart):
    """Put the earliest tempo point of every chart at (or before) its earliest object: what every file parser yields,
    and what the writers, scroll_speed and current_bpm need to produce a result."""
    for m in chart["maps"] if "maps" in chart else [chart]:
        offs = [r["offset"] for rows in m["lists"].values() for r in rows]
        if m["lists"]["bpms"]:
            first = min(m["lists"]["bpms"], key=lambda r: r["offset"])
            first["offset"] = min(offs)


_X = [0.0, 0.5, 1.0, 2.0, 4.0, 50.0, 100.0, 120.0, 150.0, 200.0, 400.0]
_R = [0.5, 0.75, 1.0, 1.25, 1.5, 2.0]


@st.composite
def _op_st(draw, game, offs, writable=True):
    # three equally likely groups, so the (few) game-specific converters / writers / algorithms come up often
    own = [n for n in GAME_OPS[game] if writable or n not in ("write", "write_file")]
    if game == "osu":
        own = own + ["hitsound_copy", "hitsound_copy"]  # the only two-argument operation, three roles
    group = draw(st.sampled_from([LIST_OPS, MAP_OPS, own]))
    name = draw(st.sampled_from(group))
    t_st = st.one_of(
        st.builds(lambda a, d: round(a + d, 3), st.sampled_from(offs), st.sampled_from([0.0, 0.0, 0.0, 1.0, -1.0, 0.5, 1000.0, -1000.0])),
        st.floats(-3000.0, 250000.0, allow_nan=False).map(lambda v: round(v, 3)),
    )
    return dict(
        op=name,
        t=draw(t_st),
        t2=draw(t_st),
        r=draw(st.one_of(st.sampled_from(_R), st.floats(0.1, 10.0, allow_nan=False, exclude_min=True).map(lambda v: round(v, 4)))),
        x=draw(st.one_of(st.sampled_from(_X), st.floats(0.0, 400.0, allow_nan=False).map(lambda v: round(v, 3)))),
        k=draw(st.integers(0, 11)),
        f=draw(st.lists(st.booleans(), min_size=4, max_size=4)),
        mi=draw(st.integers(0, 2)),
    )


HISTORIES = ["none", "sorted_rev", "mask", "append_sort", "append", "rate1"]


@st.composite
def case_st(draw, tier):
    game = draw(st.sampled_from(B.games()))
    if game in SET_GAMES:
        chart = draw(B.st_mapset(game, tier))
    else:
        keys = draw(st.sampled_from([5, 8])) if game == "bms" else None
        chart = draw(B.st_chart(game, tier, keys=keys))
    writable = True
    if game == "bms" and len(chart["lists"]["bpms"]) > BMS_WRITE_MAX_TEMPO:
        # BMSMap.write multiplies the denominators of off-grid tempo points into its line length: 3 points take
        # seconds, 4 exhaust memory. Most BMS charts are cut to 2 points, the others are not written.
        if draw(st.integers(0, 3)) != 0:
            chart["lists"]["bpms"] = chart["lists"]["bpms"][:BMS_WRITE_MAX_TEMPO]
        else:
            writable = False
    if draw(st.integers(0, 5)) != 0:
        _anchor(chart)
    offs = _offsets_of(chart)
    hist = dict(kind=draw(st.sampled_from(HISTORIES)), mask=draw(st.lists(st.booleans(), min_size=5, max_size=5)))
    n_ops = draw(st.sampled_from([1, 1, 2, 2, 3, 4]))
    ops = [draw(_op_st(game, offs, writable)) for _ in range(n_ops)]
    case = dict(chart=chart, history=hist, ops=ops)
    if game == "osu" and any(o["op"] == "hitsound_copy" for o in ops):
        other = draw(B.st_chart("osu", tier, keys=chart["keys"]))
        note_offs = [r["offset"] for n in ("hits", "holds") for r in chart["lists"][n]]
        if note_offs:  # let some notes coincide so that sounds really move
            for n in ("hits", "holds"):
                for r in other["lists"][n]:
                    if draw(st.booleans()):
                        r["offset"] = draw(st.sampled_from(note_offs))
        case["other"] = other
    return case


# --------------------------------------------------------------------------------------------------------------
# building the argument (+ history)
# --------------------------------------------------------------------------------------------------------------
def _maps_of(obj):
    return list(obj.maps) if hasattr(obj, "maps") else [obj]


def _apply_history(obj, hist):
    """Give every list of the argument the labels / dtypes real usage produces."""
    import numpy as np

    kind = hist["kind"]
    if kind == "none":
        return obj
    if kind == "rate1":
        return obj.rate(1.0)
    bits = hist["mask"]
    for m in _maps_of(obj):
        for name, tl in list(m.objs.items()):
            n = len(tl)
            if n == 0:
                continue
            if kind == "sorted_rev":
                new = tl.sorted(reverse=True)
            elif kind == "mask":
                mask = np.array([bits[i % len(bits)] for i in range(n)], dtype=bool)
                if not mask.any():
                    mask[n - 1] = True
                new = tl[mask]
            elif kind == "append_sort":
                new = tl.append(tl[0], sort=True)
            else:
                new = tl.append(tl[n - 1], sort=False)
            setattr(m, name, new)
    return obj


def _nondefault_labels(obj) -> bool:
    for m in _maps_of(obj):
        for tl in m.objs.values():
            if list(tl.df.index) != list(range(len(tl.df))):
                return True
    return False


# --------------------------------------------------------------------------------------------------------------
# editing a result that is documented as a copy
# --------------------------------------------------------------------------------------------------------------
def _edit_list(tl):
    """Edit a TimedList in every way a user of a copy might: write-through on the column buffers, column
    assignment through the list property, a new column."""
    import numpy as np

    df = tl.df
    if len(df):
        for c in list(df.columns):
            a = df[c].to_numpy()
            if a.ndim != 1 or not a.flags.writeable:
                continue
            kind = a.dtype.kind
            if kind in "fiu":
                a += 1
            elif kind == "b":
                a[:] = ~a
            elif kind == "O":
                # replace one cell that is not itself a container (containers are left to _cells_of / _edit_cells)
                for i, v in enumerate(a):
                    if not isinstance(v, (list, dict)):
                        numeric = isinstance(v, (int, float, np.number)) and not isinstance(v, (bool, np.bool_))
                        a[i] = v + 1 if numeric else "__c14__"
                        break
    tl.offset = tl.offset + 1  # column assignment through the list property
    tl.df["__c14__"] = 1  # reaches the source iff the frame object itself is shared


def _edit_meta(obj):
    for f in dataclasses.fields(obj):
        if f.name in ("objs", "maps"):
            continue
        v = getattr(obj, f.name)
        if isinstance(v, list):
            v.append("__c14__")
        elif isinstance(v, dict):
            v["__c14__"] = "__c14__"
        elif hasattr(v, "df"):
            _edit_list(v)


def _edit_map(m, deep):
    for name, tl in list(m.objs.items()):
        _edit_list(tl)
    if deep:
        _edit_meta(m)
        for name, tl in list(m.objs.items()):
            setattr(m, name, type(tl)([]))  # the documented way to replace a list


def _lists_of(res, mode):
    if res is None:
        return []
    if mode == "list":
        return [res]
    out = []
    for it in res if isinstance(res, (list, tuple)) else [res]:
        for m in it.maps if hasattr(it, "maps") else [it]:
            out += list(m.objs.values())
            out += [getattr(m, f.name) for f in dataclasses.fields(m) if hasattr(getattr(m, f.name), "df")]
    return out


def _cells_of(res, mode):
    """The python containers held in cells of a result (Quaver keysound lists)."""
    out = []
    for tl in _lists_of(res, mode):
        df = tl.df
        for j, dt in enumerate(df.dtypes):
            if dt == object:
                out += [v for v in df.iloc[:, j] if isinstance(v, (list, dict))]
    return out


def _edit_cells(cells):
    """Edit every python container reachable from the cells, innermost first (a keysound list holds dicts: a deep copy
    owns those too; a per-cell shallow copy does not - seeded/C14-adv1)."""
    for v in cells:
        inner = list(v.values()) if isinstance(v, dict) else list(v)
        _edit_cells([x for x in inner if isinstance(x, (list, dict))])
        if isinstance(v, list):
            v.append("__c14__")
        else:
            v["__c14__"] = "__c14__"


def _edit_result(res, mode):
    """mode: 'list' (a TimedList), 'deep' (Map/MapSet copy), 'conv' (converter output: lists only)."""
    if res is None:
        return
    if mode == "list":
        _edit_list(res)
        return
    items = res if isinstance(res, (list, tuple)) else [res]
    for it in items:
        if hasattr(it, "maps"):
            for m in it.maps:
                _edit_map(m, mode == "deep")
            if mode == "deep":
                _edit_meta(it)
                if it.maps:
                    it.maps.append(it.maps[0])
        elif hasattr(it, "objs"):
            _edit_map(it, mode == "deep")


# --------------------------------------------------------------------------------------------------------------
# list-level operations:  name -> (applicable(tl), run(tl, op, env) -> result, result is a copy?)
# --------------------------------------------------------------------------------------------------------------
def _is_hold(tl):
    from reamber.base.lists.notes.HoldList import HoldList

    return isinstance(tl, HoldList)


def _is_bpm(tl):
    from reamber.base.lists.BpmList import BpmList

    return isinstance(tl, BpmList)


def _any(tl):
    return True


def _rows(tl):
    return len(tl) > 0


def _op_after(tl, o, env):
    if _is_hold(tl):
        return tl.after(o["t"], include_end=o["f"][0], include_tail=o["f"][1])
    return tl.after(o["t"], include_end=o["f"][0])


def _op_before(tl, o, env):
    if _is_hold(tl):
        return tl.before(o["t"], include_end=o["f"][0], include_head=o["f"][1])
    return tl.before(o["t"], include_end=o["f"][0])


def _op_between(tl, o, env):
    lo, hi = (o["t"], o["t2"]) if o["f"][3] else (min(o["t"], o["t2"]), max(o["t"], o["t2"]))
    if _is_hold(tl):
        return tl.between(lo, hi, include_ends=(o["f"][0], o["f"][1]), include_head=o["f"][2], include_tail=o["k"] % 2 == 0)
    if o["k"] % 3 == 0:
        return tl.between(lo, hi, include_ends=o["f"][0])
    if o["k"] % 3 == 1:
        return tl.between(lo, hi)
    return tl.between(lo, hi, include_ends=(o["f"][0], o["f"][1]))


def _op_append_list(tl, o, env):
    k = o["k"] % 4
    if k == 0:
        val = tl  # a list appended to itself
    elif k == 1:
        val = tl.df
    elif k == 2:
        val = tl[: max(1, len(tl) // 2)]
    else:  # the same list of another chart of the set (or of itself)
        val = env.sibling(tl)
    return tl.append(val, sort=o["f"][0])


def _op_getitem_slice(tl, o, env):
    k = o["k"]
    n = len(tl)
    a, b = k % (n + 1), (k * 7) % (n + 2)
    variants = [slice(a, b), slice(None, None, 2), slice(None, None, -1), slice(-2, None), slice(min(a, b), max(a, b))]
    return tl[variants[k % len(variants)]]


def _op_getitem_mask(tl, o, env):
    import numpy as np

    k = o["k"] % 4
    if k == 0:
        return tl[tl.offset > o["t"]]
    if k == 1:
        return tl[(tl.offset <= o["t"]).to_numpy()]
    bits = o["f"]
    mask = np.array([bits[i % 4] for i in range(len(tl))], dtype=bool)
    if k == 2 or len(tl) == 0:
        return tl[mask]
    return tl[list(mask)]


def _op_prop_reads(tl, o, env):
    out = []
    for c in tl.df.columns:
        if isinstance(getattr(type(tl), str(c), None), property):
            out.append(getattr(tl, c))
    out.append(len(tl))
    out.append(tl.loc[:, ["offset"]])
    out.append(tl.iloc[: o["k"]])
    out.append(tl.to_numpy())
    out.append([x.offset for x in tl])
    out.append(repr(tl))
    if len(tl):
        out.append(tl.loc[tl.df.index[0], "offset"])
    return out


def _op_current_bpm(tl, o, env):
    t = o["t"] if o["f"][1] and o["f"][2] else max(o["t"], float(tl.df["offset"].min()))
    return tl.current_bpm(t, sort=o["f"][0])


def _op_snap_offsets(tl, o, env):
    nths = [1.0, 2.0, 4.0, 0.5][o["k"] % 4]
    if o["f"][0] and len(tl) >= 2:
        return tl.snap_offsets(nths)
    return tl.snap_offsets(nths, last_offset=max(o["t"], 1.0))


LIST_TABLE = {
    "sorted": (_any, lambda tl, o, e: tl.sorted(reverse=o["f"][0]), True),
    "after": (_any, _op_after, True),
    "before": (_any, _op_before, True),
    "between": (_any, _op_between, True),
    "append_item": (_rows, lambda tl, o, e: tl.append(tl[o["k"] % len(tl)], sort=o["f"][0]), True),
    "append_list": (_any, _op_append_list, True),
    "move_start_to": (_rows, lambda tl, o, e: tl.move_start_to(o["t"]), True),
    "move_end_to": (_rows, lambda tl, o, e: tl.move_end_to(o["t"]), True),
    "list_deepcopy": (_any, lambda tl, o, e: tl.deepcopy(), True),
    "time_diff": (_rows, lambda tl, o, e: tl.time_diff(None if o["f"][0] else o["t"]), False),
    "getitem_int": (_rows, lambda tl, o, e: tl[(o["k"] % len(tl)) - (len(tl) if o["f"][0] else 0)], False),
    "getitem_slice": (_any, _op_getitem_slice, False),
    "getitem_mask": (_any, _op_getitem_mask, True),
    "ctor": (_any, lambda tl, o, e: type(tl)(tl) if o["f"][0] else type(tl)(tl.df), False),
    "prop_reads": (_any, _op_prop_reads, False),
    "first_offset": (_any, lambda tl, o, e: tl.first_offset(), False),
    "last_offset": (lambda tl: _rows(tl) or not _is_hold(tl), lambda tl, o, e: tl.last_offset(), False),
    "first_last_offset": (lambda tl: _rows(tl) or not _is_hold(tl), lambda tl, o, e: tl.first_last_offset(), False),
    "tail_offset": (_is_hold, lambda tl, o, e: (tl.tail_offset, tl.head_offset), False),
    "list_describe": (_any, lambda tl, o, e: tl.describe(), False),
    "current_bpm": (lambda tl: _is_bpm(tl) and _rows(tl), _op_current_bpm, False),
    "ave_bpm": (lambda tl: _is_bpm(tl) and _rows(tl), lambda tl, o, e: tl.ave_bpm(None if o["f"][0] else o["t"]), False),
    "snap_offsets": (lambda tl: _is_bpm(tl) and _rows(tl), _op_snap_offsets, False),
    "to_timing_map": (lambda tl: _is_bpm(tl) and _rows(tl), lambda tl, o, e: tl.to_timing_map(), False),
}


# --------------------------------------------------------------------------------------------------------------
# chart-level operations: run(env, op) -> [(result, mode|None)]
# --------------------------------------------------------------------------------------------------------------
class Env:
    def __init__(self, obj, game, other):
        self.obj = obj
        self.game = game
        self.maps = _maps_of(obj)
        self.is_set = hasattr(obj, "maps")
        self.other = other
        self.variants = []

    def map(self, o):
        return self.maps[o["mi"] % len(self.maps)]

    def targets(self, o):
        """the argument, and for a set also one chart of it"""
        return [self.obj, self.map(o)] if self.is_set else [self.obj]

    def sibling(self, tl):
        for i, m in enumerate(self.maps):
            for name, x in m.objs.items():
                if x is tl:
                    return self.maps[(i + 1) % len(self.maps)].objs[name]
        return tl


def _m_rate(env, o):
    out = []
    for tgt in env.targets(o):
        env.variants.append(type(tgt).__name__)
        out.append((tgt.rate(o["r"]), "deep"))
    return out


def _m_deepcopy(env, o):
    out = []
    for tgt in env.targets(o):
        env.variants.append(type(tgt).__name__)
        out.append((tgt.deepcopy(), "deep"))
    return out


def _m_stack_read(env, o):
    from reamber.base.lists.notes.HoldList import HoldList
    from reamber.base.lists.notes.NoteList import NoteList

    out = []
    if env.is_set:
        env.variants.append("MapSet")
        s = env.obj.stack()
        out += [s.offset, s.column, s["offset"]]
        out.append(env.obj[NoteList])
        out.append(list(env.obj.items()))
    m = env.map(o)
    env.variants.append("Map")
    s = m.stack()
    out += [s.offset, s.column, s.bpm, s.length, s["offset"]]
    out.append(s.loc[s.offset > o["t"], "offset"])
    out.append(s.loc[:, ["offset", "column"]])
    out.append(s.offset[s.column < o["k"]])
    out.append(m.notes)
    out.append(m[NoteList])
    s2 = m.stack((HoldList,))
    out.append(s2.offset)
    return [(out, None)]


def _m_describe(env, o):
    if env.is_set:
        if o["f"][3]:
            env.variants.append("MapSet")
            return [(env.obj.describe(rounding=o["k"] % 4, unicode=o["f"][0]), None)]
        env.variants.append("Map(set)")
        return [(env.map(o).describe(env.obj, rounding=o["k"] % 4, unicode=o["f"][0]), None)]
    env.variants.append("Map")
    return [(env.obj.describe(rounding=o["k"] % 4, unicode=o["f"][0]), None)]


def _m_metadata(env, o):
    m = env.map(o)
    if env.game == "osu":
        return [(m.metadata(unicode=o["f"][0]), None)]
    if env.game in ("qua", "bms"):
        return [(m.metadata(), None)]
    return [(m.metadata(env.obj, unicode=o["f"][0]), None)]


def _m_full_ln(env, o):
    from reamber.algorithms.generate import full_ln

    m = env.map(o)
    if o["f"][0]:
        return [(full_ln(m), "deep")]
    return [(full_ln(m, gap=o["x"], ln_as_hit_thres=[0.0, 50.0, 100.0][o["k"] % 3]), "deep")]


def _m_scroll_speed(env, o):
    from reamber.algorithms.analysis import scroll_speed

    return [(scroll_speed(env.map(o), override_bpm=None if o["f"][0] else max(o["x"], 1.0)), None)]


def _m_dominant_bpm(env, o):
    from reamber.algorithms.utils import dominant_bpm

    return [(dominant_bpm(env.map(o)), None)]


def _m_sv_normalize(env, o):
    from reamber.algorithms.generate import sv_normalize

    return [(sv_normalize(env.map(o), override_bpm=None if o["f"][0] else max(o["x"], 1.0)), "list")]


def _groups(env, o):
    from reamber.algorithms.pattern import Pattern

    m = env.map(o)
    lists = [m.hits, m.holds] if o["k"] % 3 else [m.holds, m.hits]
    p = Pattern.from_note_lists(lists, include_tails=o["f"][0])
    h = None if o["f"][2] else o["k"] % 4
    return p, p.group(v_window=o["x"], h_window=h, avoid_jack=o["f"][1])


def _m_pattern_group(env, o):
    return [(_groups(env, o), None)]


def _m_ptn_combo(env, o):
    from reamber.algorithms.pattern.combos import PtnCombo

    _, g = _groups(env, o)
    return [(PtnCombo(g).combinations(size=2 + o["mi"] % 2, make_size2=o["f"][3]), None)]


def _m_hitsound_copy(env, o):
    from reamber.algorithms.osu.hitsound_copy import hitsound_copy

    role = ["src", "tgt", "both"][(o["k"] + 2 * o["f"][0] + o["f"][1]) % 3]
    if env.other is None:
        role = "both"
    env.variants.append(role)
    if role == "src":
        return [(hitsound_copy(env.obj, env.other), "deep")]
    if role == "tgt":
        return [(hitsound_copy(env.other, env.obj), "deep")]
    return [(hitsound_copy(env.obj, env.obj), "deep")]


def _m_write(env, o):
    if env.game == "bms":
        from reamber.bms.BMSChannel import BMSChannel

        name = _bms_config(env, o)
        env.variants.append(name)
        cfg = getattr(BMSChannel, name)
        if o["f"][0]:
            return [(env.obj.write(note_channel_config=cfg), None)]
        return [(env.obj.write(note_channel_config=cfg, no_sample_default=b"0Z"), None)]
    return [(env.obj.write(), None)]


def _bms_config(env, o):
    keys = 1 + max([int(c) for m in env.maps for n in ("hits", "holds") for c in m.objs[n].df["column"]] or [0])
    fits = [c for c in BMS_CONFIGS if BMS_CONFIG_KEYS[c] >= keys]
    return fits[o["k"] % len(fits)]


def _m_write_file(env, o):
    ext = {"osu": "osu", "qua": "qua", "sm": "sm", "bms": "bme"}[env.game]
    with tempfile.TemporaryDirectory(prefix="c14_") as d:
        path = os.path.join(d, "chart." + ext)
        if env.game == "bms":
            from reamber.bms.BMSChannel import BMSChannel

            name = _bms_config(env, o)
            env.variants.append(name)
            env.obj.write_file(path, note_channel_config=getattr(BMSChannel, name))
        else:
            env.obj.write_file(path)
        return [(os.path.getsize(path), None)]


def _m_map_write(env, o):
    return [(env.map(o).write(), None)]


def _conv(cls_name, method="convert", **kw):
    def run(env, o):
        import importlib

        cls = getattr(importlib.import_module("reamber.algorithms.convert." + cls_name), cls_name)
        k = {}
        if "raise_bad_mode" in kw:
            k["raise_bad_mode"] = bool(o["f"][0] and kw["raise_bad_mode"](env))
        if "move_right_by" in kw:
            k["move_right_by"] = o["k"] % 2
        return [(getattr(cls, method)(env.obj, **k), "conv")]

    return run


def _keys_in(*ok):
    def f(env):
        from reamber.sm.SMMapMeta import SMMapChartTypes

        if env.game == "sm":
            return all(SMMapChartTypes.get_keys(m.chart_type) in ok for m in env.maps)
        if env.game == "osu":
            return int(env.obj.circle_size) in ok
        return False

    return f


MAP_TABLE = {
    "rate": _m_rate,
    "deepcopy": _m_deepcopy,
    "stack_read": _m_stack_read,
    "describe": _m_describe,
    "metadata": _m_metadata,
    "full_ln": _m_full_ln,
    "scroll_speed": _m_scroll_speed,
    "dominant_bpm": _m_dominant_bpm,
    "sv_normalize": _m_sv_normalize,
    "pattern_group": _m_pattern_group,
    "ptn_combo": _m_ptn_combo,
    "hitsound_copy": _m_hitsound_copy,
    "write": _m_write,
    "write_file": _m_write_file,
    "map_write": _m_map_write,
    "OsuToQua": _conv("OsuToQua", raise_bad_mode=_keys_in(4, 7)),
    "OsuToSM": _conv("OsuToSM", raise_bad_mode=_keys_in(4, 6, 8)),
    "OsuToBMS": _conv("OsuToBMS", move_right_by=True),
    "QuaToOsu": _conv("QuaToOsu"),
    "QuaToSM": _conv("QuaToSM"),
    "QuaToBMS": _conv("QuaToBMS", move_right_by=True),
    "BMSToOsu": _conv("BMSToOsu"),
    "BMSToQua": _conv("BMSToQua", raise_bad_mode=lambda env: False),
    "BMSToSM": _conv("BMSToSM"),
    "SMToOsu": _conv("SMToOsu"),
    "SMToQua": _conv("SMToQua", raise_bad_mode=_keys_in(4)),
    "SMToBMS": _conv("SMToBMS"),
    "O2JToOsu": _conv("O2JToOsu"),
    "O2JToQua": _conv("O2JToQua"),
    "O2JToSM": _conv("O2JToSM"),
    "O2JToSM_merge": _conv("O2JToSM", method="convert_merge"),
    "O2JToBMS": _conv("O2JToBMS", move_right_by=True),
}


assert set(LIST_OPS) == set(LIST_TABLE), "operation catalogue and list table differ"
assert set(MAP_OPS) | {n for v in GAME_OPS.values() for n in v} == set(MAP_TABLE), "operation catalogue and chart table differ"


# --------------------------------------------------------------------------------------------------------------
# the check
# --------------------------------------------------------------------------------------------------------------
def _diff(a, b, path=""):
    """first difference between two snapshots, as text"""
    if type(a) is not type(b):
        return f"{path}: {a!r} -> {b!r}"
    if isinstance(a, dict):
        for k in a:
            if k not in b:
                return f"{path}/{k}: removed"
        for k in b:
            if k not in a:
                return f"{path}/{k}: added"
        for k in a:
            if a[k] != b[k]:
                return _diff(a[k], b[k], f"{path}/{k}")
        return f"{path}: key order {list(a)} -> {list(b)}"
    if isinstance(a, list):
        if len(a) != len(b):
            return f"{path}: length {len(a)} -> {len(b)}: {str(a)[:200]} -> {str(b)[:200]}"
        for i, (x, y) in enumerate(zip(a, b)):
            if x != y:
                return _diff(x, y, f"{path}[{i}]")
    return f"{path}: {a!r} -> {b!r}"


def _run_op(env, o):
    """-> (results [(res, mode)], raised: str|None)"""
    name = o["op"]
    env.variants = []
    if name in LIST_TABLE:
        ok, fn, is_copy = LIST_TABLE[name]
        results, raised, ran = [], None, 0
        for m in env.maps:
            for tl in list(m.objs.values()):
                if not ok(tl):
                    continue
                ran += 1
                try:
                    r = fn(tl, o, env)
                except Exception as e:  # noqa: BLE001 - other properties own the exception
                    raised = f"{type(e).__name__}: {str(e)[:120]}"
                    continue
                if is_copy:
                    results.append((r, "list"))
        if not ran:
            env.variants.append("no-applicable-list")
        return results, raised
    try:
        return MAP_TABLE[name](env, o), None
    except Exception as e:  # noqa: BLE001
        return [], f"{type(e).__name__}: {str(e)[:120]}"


def check(case, ctx):
    chart, hist, ops = case["chart"], case["history"], case["ops"]
    game = chart["game"]
    obj = B.build(chart)
    other = B.build(case["other"]) if case.get("other") else None
    hk = hist["kind"]
    try:
        obj = _apply_history(obj, hist)
    except Exception:  # noqa: BLE001 - a history that cannot be produced is not the property's business
        ctx.label("history-raised=" + hk)
        obj = B.build(chart)
        hk = "none"
    nondefault = _nondefault_labels(obj)
    ctx.label("game=" + game)
    ctx.label("history=" + hk)
    ctx.label("labels-non-default", nondefault)
    ctx.label("ops=%d" % len(ops))
    ctx.label("has-empty-list", any(len(tl) == 0 for m in _maps_of(obj) for tl in m.objs.values()))
    ctx.nt(nondefault or len(ops) >= 2)

    env = Env(obj, game, other)
    before = B.snapshot(obj)
    before_other = B.snapshot(other) if other is not None else None
    ctx.touched = True

    for o in ops:
        name = o["op"]
        ctx.harness(name in ops_of(game), f"operation {name} is not defined for {game}")
        if game == "bms" and name in ("write", "write_file") and len(obj.bpms) > BMS_WRITE_MAX_TEMPO + 1:
            ctx.label("skipped=bms-write-with-many-tempo-points")  # the writer's memory use explodes (see case_st)
            continue
        results, raised = _run_op(env, o)
        ctx.label("op=" + name)
        for v in env.variants:
            ctx.label(f"op={name}[{v}]")
        if raised:
            ctx.label("raised=" + name)
        elif "no-applicable-list" not in env.variants:
            ctx.label("ran-clean=" + name)
        after = B.snapshot(obj)
        if after != before:
            ctx.fail("modified:" + name, f"{_diff(before, after)}" + (f" (the operation raised {raised})" if raised else ""))
            before = after
        if other is not None:
            a2 = B.snapshot(other)
            if a2 != before_other:
                ctx.fail("modified:" + name, f"other chart: {_diff(before_other, a2)}")
                before_other = a2
        edited = False
        cells = []
        for res, mode in results:
            if mode is None:
                continue
            try:
                if EDIT_CELL_OBJECTS and name in DEEP_COPY_OPS:
                    cells += _cells_of(res, mode)
                _edit_result(res, mode)
                edited = True
            except Exception as e:  # noqa: BLE001 - a result that cannot be edited is not this property's business
                ctx.label("edit-raised=" + name)
                ctx.label(f"edit-raised={name}:{type(e).__name__}")
        if edited:
            ctx.label("edited-result=" + name)
            after = B.snapshot(obj)
            if after != before:
                ctx.fail("shared:" + name, _diff(before, after))
                before = after
            if other is not None:
                a2 = B.snapshot(other)
                if a2 != before_other:
                    ctx.fail("shared:" + name, f"other chart: {_diff(before_other, a2)}")
                    before_other = a2
        if cells:
            # a deep copy owns the python objects in its cells as well
            ctx.label("edited-cells=" + name)
            _edit_cells(cells)
            after = B.snapshot(obj)
            if after != before:
                ctx.fail("shared-cell:" + name, _diff(before, after))
                before = after


SUBS = [
    Sub("ops", check, strategy=case_st, examples={"quick": 480, "thorough": 2500}, shards={"quick": 12, "thorough": 16}),
]

MANIFEST = dict(
    technique="property-based testing: generated charts of all five games x generated operation sequences; strict before/after snapshot of every argument, and edit-the-result aliasing probe for results documented as copies",
    level_text="Exploration: thousands of generated (chart, history, operation sequence) cases per run over the whole operation catalogue (list queries, rate, copies, 17 converters, all writers, the generate/analysis/pattern algorithms); the argument's classes, columns, dtypes, row labels, cells and metadata are compared before and after every call, and every result documented as a copy is edited through its buffers, columns and setters to show the argument does not follow.",
    level_note="trusted: vlib/gen/build.py snapshot; python containers inside cells (Quaver keysound lists) are probed only for results of copy.deepcopy (deepcopy, rate, move_*_to); metadata handed over by converters is outside the aliasing probe; raising operations are only checked for leaving the argument intact",
)
