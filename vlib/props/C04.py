"""C04 BMS reading places every object at the time its measure position and tempo imply."""
from __future__ import annotations

import os
import tempfile
from fractions import Fraction as F

from hypothesis import strategies as st

from vlib.core import Sub, close
from vlib.gen import bms as gen
from vlib.ref import bms as ref

PROPERTY_ID = "C04"
RULE = (
    "Hypothesis-generated beat-space skeletons (vlib/gen/bms.py, purpose=read) for each of the five layouts: "
    "0..5 (thorough 0..40) tempo changes on a k/D-beat grid (D<=48, i.e. anywhere on the 1/192-measure grid or on "
    "1/5,1/7,1/9,1/10,1/11,1/36,1/47 beats) through channel 03 (hex) or 08 (#BPMxx), optionally one at position 0 "
    "overriding #BPM; per lane a forward walk of hits and LNOBJ holds on k/D beats (D from 20 denominators, "
    "measures 0..999); ids upper-case base-36 with and without #WAV; BGM/BGA/foreign-lane objects; headers with "
    "spaces and shift_jis text. Rendered to text with per-line subdivision = any multiple (<=192) of the needed "
    "one, comment/blank lines, and line order sorted / shuffled / split (several lines per (measure,channel), "
    "all-00 lines). The renderer is checked in every case by ref.parse(render(s)) == expected(s). Oracle: "
    "vlib/ref/bms.py + vlib/ref/timing.py; multisets (column, ms, sample) and (column, ms, length, sample), "
    "header tables. Non-trivial = a mid-measure tempo change, or an LNOBJ hold, or a layout other than BME, or "
    "shuffled / split lines."
)
ASSUMPTIONS = [
    "4/4 only: no channel 02 (time signature) and no channel 09 (stop) lines",
    "the text has a #BPM header (the reader has no default tempo)",
    "tempo changes lie on reamber's snap grid relative to the previous change (difference in beats has a "
    "denominator <= 96): the timing engine re-derives tempo positions from milliseconds through its Snapper; "
    "generated positions are k/D beats with one D <= 48 per chart (covers every position of the 1/192 measure grid)",
    "excluded by construction: two tempo objects on one position, lower-case ids, the LNOBJ id without a "
    "preceding open object in its lane, two objects of one lane on one position",
    "header lines are '#KEY value' with one blank; keys upper-case, not starting with WAV/BPM unless they are the "
    "#WAVxx/#BPMxx tables; no duplicate keys",
    "after reading, the in-memory tempo list is re-seated on measure lines by reamber, so only the initial tempo "
    "is compared (when no change lies inside a measure before it could be altered); object times are compared "
    "against the file's own tempo timeline",
    "float comparisons: |a-b| <= 1e-6*max(1,|a|) ms",
]


@st.composite
def read_case(draw, tier):
    chart = draw(gen.chart_strategy(tier, purpose="read"))
    order = draw(st.sampled_from(gen.ORDERS))
    seed = draw(st.integers(0, 2**20))
    via = draw(st.sampled_from(["lines", "lines", "lines", "file-crlf", "file-lf"]))
    return dict(chart=chart, order=order, seed=seed, via=via)


def _self_check(ctx, skel, parsed):
    """Renderer/reference round trip: a mismatch is a harness error, never a finding."""
    exp = gen.expected(skel)
    ctx.harness(not parsed["conflicts"], f"generated text is outside the domain: {parsed['conflicts']}")
    ctx.harness(not parsed["bad_lines"], f"generated text has invalid lines: {parsed['bad_lines'][:2]}")
    for k in ("title", "artist", "version", "bpm0", "lnobj", "exbpms", "samples", "tempo"):
        ctx.harness(parsed[k] == exp[k], f"render/parse mismatch on {k}: {parsed[k]!r} != {exp[k]!r}")
    for k, v in exp["other_headers"].items():
        ctx.harness(parsed["header"].get(k) == v, f"render/parse mismatch on header {k}")
    for kind in ("hits", "holds"):
        ctx.harness(len(parsed[kind]) == len(exp[kind]), f"render/parse {kind} count {len(parsed[kind])} != {len(exp[kind])}")
        for a, b in zip(parsed[kind], exp[kind]):
            same = all(a[f] == b[f] for f in a if f not in ("offset", "length")) and close(a["offset"], b["offset"])
            if "length" in a:
                same = same and close(a["length"], b["length"])
            ctx.harness(same, f"render/parse {kind} mismatch {a} != {b}")


def check_read(case, ctx):
    from reamber.bms import BMSMap

    skel = case["chart"]
    layout = skel["layout"]
    lines = gen.render(skel, order=case["order"], seed=case["seed"])
    parsed = ref.parse(list(lines), layout, ids_as_spelled=True)
    _self_check(ctx, skel, parsed)

    # ---- classes / non-trivial rule -------------------------------------
    tempo = [(F(b), v) for b, v in parsed["tempo"]]
    mid = any(b % ref.BEATS_PER_MEASURE != 0 for b, _ in tempo)
    override0 = skel["tempo"][0][2] != "hdr"
    repeated = any(v > 1 for v in parsed["lines_per_key"].values())
    data_lines = [ln.strip() for ln in lines if ln.strip()[:2] in ("#0", "#1", "#2", "#3", "#4", "#5", "#6", "#7", "#8", "#9")]
    keys = [ln[1:6] for ln in data_lines]
    unsorted_ = keys != sorted(keys)
    ctx.label("layout=" + layout)
    ctx.label("order=" + case["order"])
    ctx.label("via=" + case["via"])
    ctx.label("tempo:mid-measure", mid)
    ctx.label("tempo:override-at-0", override0)
    ctx.label("tempo:ch03", any(t[2] == "03" for t in skel["tempo"]))
    ctx.label("tempo:ch08", any(t[2].startswith("08") for t in skel["tempo"]))
    ctx.label("tempo:>=2 changes", len(tempo) >= 3)
    ctx.label("holds", bool(parsed["holds"]))
    ctx.label("holds:across-measure", any(F(h["beat"]) // 4 != F(h["tail_beat"]) // 4 for h in parsed["holds"]))
    ctx.label("no-lnobj", skel["lnobj"] is None)
    ctx.label("lnobj-id-has-wav", bool(skel["lnobj"]) and skel["lnobj"] in skel["samples"] and bool(parsed["holds"]))
    ctx.label("lines:repeated-key", repeated)
    ctx.label("lines:unsorted", unsorted_)
    ctx.label("noise", parsed["ignored"] > 0)
    ctx.label("id-without-wav", any(n["id"] not in skel["samples"] for n in skel["notes"]))
    ctx.label("measure>=100", any(F(n["beat"]) >= 400 for n in skel["notes"]))
    ctx.label("line-n>192", any(len(ln) - 7 > 384 for ln in data_lines))
    ctx.label("empty-chart", not skel["notes"])
    ctx.nt(bool(skel["notes"]) and (mid or bool(parsed["holds"]) or layout != "BME" or unsorted_ or repeated))

    # ---- run the reader ---------------------------------------------------
    cfg = gen.channel_config(layout)
    if case["via"] == "lines":
        m = ctx.call("read", BMSMap.read, list(lines), cfg)
    else:
        nl = "\r\n" if case["via"] == "file-crlf" else "\n"
        fd, path = tempfile.mkstemp(suffix=".bms", prefix="verif_c04_")
        try:
            with os.fdopen(fd, "wb") as fh:
                fh.write(gen.to_bytes(lines, nl))
            m = ctx.call("read_file", BMSMap.read_file, path, cfg)
        finally:
            os.unlink(path)
    got = ctx.call("snapshot", gen.snapshot, m)

    ctx.label("lower-case-ids", any(k != k.upper() for k in parsed["samples"]) or bool(parsed["lnobj"] and parsed["lnobj"] != parsed["lnobj"].upper()))
    _compare(ctx, got, parsed, tempo, override0)


def _compare(ctx, got, parsed, tempo, override0):
    # ---- objects ------------------------------------------------------------
    exp_h = sorted(parsed["hits"], key=lambda d: (d["column"], d["offset"]))
    exp_H = sorted(parsed["holds"], key=lambda d: (d["column"], d["offset"]))
    if ctx.eq("hit-count", len(got["hits"]), len(exp_h), f"holds got={len(got['holds'])} expected={len(exp_H)}"):
        for g, e in zip(got["hits"], exp_h):
            if g["column"] != e["column"]:
                ctx.fail("hit-column", f"got={g} expected={e}")
                break
            ctx.near("hit-offset", g["offset"], e["offset"], msg=f"col {e['column']} beat {e['beat']}")
            ctx.eq("hit-sample", g["sample"], e["sample"], f"col {e['column']} beat {e['beat']} id {e['id']}")
    if ctx.eq("hold-count", len(got["holds"]), len(exp_H)):
        for g, e in zip(got["holds"], exp_H):
            if g["column"] != e["column"]:
                ctx.fail("hold-column", f"got={g} expected={e}")
                break
            ctx.near("hold-offset", g["offset"], e["offset"], msg=f"col {e['column']} beat {e['beat']}")
            ctx.near("hold-length", g["length"], e["length"], msg=f"col {e['column']} beat {e['beat']}..{e['tail_beat']}")
            ctx.eq("hold-sample", g["sample"], e["sample"], f"col {e['column']} beat {e['beat']} id {e['id']}")

    # ---- header tables --------------------------------------------------------
    ctx.eq("title", got["title"], parsed["title"])
    ctx.eq("artist", got["artist"], parsed["artist"])
    ctx.eq("version", got["version"], parsed["version"])
    ctx.eq("lnobj", got["lnobj"], parsed["lnobj"])
    ctx.eq("samples-table", got["samples"], parsed["samples"])
    if ctx.eq("exbpm-ids", sorted(got["exbpms"]), sorted(parsed["exbpms"])):
        for k, v in parsed["exbpms"].items():
            ctx.near("exbpm-value", got["exbpms"][k], v, rel=1e-9, abs_=0.0, msg=k)
    for k, v in parsed["header"].items():
        if k in ("TITLE", "ARTIST", "PLAYLEVEL", "LNOBJ", "BPM"):
            continue
        if v == "" and got["misc"].get(k) in (None, ""):
            continue  # a header key without a value carries nothing (real files: `#STAGEFILE`)
        if got["misc"].get(k) != v:
            ctx.fail("other-header", f"#{k}: got={got['misc'].get(k)!r} expected={v!r}")
    # initial tempo: re-seating rewrites the tempo of a segment that ends inside a measure, so the
    # first segment is compared when it ends on a measure line (or never ends)
    first_end = tempo[1][0] if len(tempo) > 1 else None
    if not got["bpms"]:
        ctx.fail("bpm-list-empty", "no tempo point after reading")
    elif first_end is None or first_end % ref.BEATS_PER_MEASURE == 0:
        b0 = got["bpms"][0]
        ctx.near("initial-offset", b0[0], 0.0)
        allowed = {tempo[0][1], parsed["bpm0"]} if override0 else {parsed["bpm0"]}
        if not any(close(b0[1], a, 1e-6, 1e-9) for a in allowed):
            ctx.fail("initial-bpm", f"got={b0[1]} expected one of {sorted(allowed)}")
        ctx.label("initial-bpm-checked")




BUNDLED_DIR = os.path.join(os.environ.get("VERIF_REPO", "/repo"), "rsc", "maps", "bms")


def bundled_cases(tier):
    for fn in sorted(os.listdir(BUNDLED_DIR)) if os.path.isdir(BUNDLED_DIR) else []:
        yield dict(file=fn)


def check_bundled(case, ctx):
    """Real charts shipped with the repository, read with the default (BME) layout and compared with the reference
    interpreter.  Files that use the time-signature channel 02 are outside the quantifier (4/4) and are skipped."""
    path = os.path.join(BUNDLED_DIR, case["file"])
    with open(path, "rb") as fh:
        data = fh.read()
    if any(ln[:1] == b"#" and ln[1:4].isdigit() and ln[4:6] == b"02" for ln in data.split(b"\n")):
        ctx.exclude("bundled file uses channel 02 (time signature): outside the 4/4 domain")
    parsed = ref.parse(data, "BME")
    ctx.harness(not parsed["conflicts"], f"reference reports conflicts on {case['file']}: {parsed['conflicts']}")
    from reamber.bms.BMSMap import BMSMap

    ctx.label("bundled=" + case["file"])
    ctx.nt(bool(parsed["holds"]) or len(parsed["tempo"]) > 1)
    m = ctx.call("read_file", BMSMap.read_file, path, gen.channel_config("BME"))
    got = ctx.call("snapshot", gen.snapshot, m)
    tempo = [(F(b), v) for b, v in parsed["tempo"]]
    _compare(ctx, got, parsed, tempo, False)


SUBS = [
    Sub(
        "read",
        check_read,
        strategy=read_case,
        examples={"quick": 450, "thorough": 2500},
        shards={"quick": 16, "thorough": 16},
        fuzz={"thorough": 150},
    ),
    Sub("bundled", check_bundled, enumerate=bundled_cases, shards={"quick": 3, "thorough": 3}),
]

MANIFEST = dict(
    technique="property-based testing: Hypothesis-generated beat-space charts rendered to BMS text with syntactic freedom (subdivision, line order, repeated lines, noise) vs an independent interpreter and exact tempo integration",
    level_text="Exploration: thousands of generated BMS texts per run over the five layouts, three line-order classes, channel 03/08 tempo changes on and inside measure lines and LNOBJ holds agree with vlib/ref/bms.py on every (column, ms, sample) / (column, ms, length, sample) multiset and on the header tables; the generator is itself round-tripped through the reference in every case. Sampling cannot prove absence. The in-domain real BMS files shipped with the repository (no time-signature channel) are read and compared too; thorough adds an atheris/libFuzzer campaign on the same strategy.",
    level_note="trusted: vlib/ref/bms.py (BMS rules, 150 lines), vlib/ref/timing.py, Hypothesis; domain: 4/4, #BPM present, tempo changes on the engine's snap grid (denominator <= 96 relative to the previous change), upper-case ids, no stops",
)
