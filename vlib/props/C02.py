"""C02 StepMania reading places every object at the time its beat and tempos imply."""
from __future__ import annotations

import os
import tempfile
from fractions import Fraction as F

from hypothesis import strategies as st

from vlib.core import Sub, close, fr
from vlib.gen import sm as gen
from vlib.ref import sm as ref

PROPERTY_ID = "C02"
RULE = (
    "Hypothesis-generated beat-space skeletons rendered to .sm text (vlib/gen/sm.py): #OFFSET (3/6 decimals or "
    "repr), 1..5 (thorough 12) #BPMS entries with beats on the 1/48 grid (measure lines, whole beats, multiples of "
    "1/8 printed exactly, k/48 printed with 6/7/9/12 decimals; entries sometimes out of order), no stops "
    "(`#STOPS:;`, `#STOPS:\\n;` or no tag at all), 1..4 charts with their own five header fields, every StepMania "
    "chart type with 3..18 columns (+ free widths up to 18), per-measure row counts = any multiple of 4 up to 192 "
    "(384 thorough) drawn first and objects placed on rows by a column walk (holds/rolls end on the column's next "
    "position, often in a later measure; chords and objects exactly on a tempo change on purpose), symbols "
    "1 2 3 4 M L F K, `//` comment lines and blank lines between tags/rows/measures, header params on one or "
    "several lines, several measure-separator spellings, header tags in canonical or shuffled order, some after "
    "the charts; read through read(str), read(list[str]) or read_file (LF and CRLF). Oracle: vlib/ref/sm.py "
    "(independent tokenizer + exact Fraction rows + vlib/ref/timing integration from -#OFFSET). "
    "Non-trivial = a tempo change strictly inside a measure, or >= 2 charts, or a non-4-key chart, or a "
    "roll/lift/fake/keysound, or a measure with > 16 rows."
)
ASSUMPTIONS = [
    "no stops: `#STOPS:;` or no #STOPS tag; when the tag is present it follows #BPMS and #OFFSET (a file with `#STOPS:;` "
    "before either is generated at a low rate and counted as excluded: the reader evaluates stops eagerly against the tempo "
    "list read so far and raises AttributeError – reported as a candidate defect, not asserted)",
    "#BPMS and #OFFSET precede the first #NOTES",
    "rows carry no leading/trailing blanks; blank lines are empty; comment lines are whole lines (or follow the "
    "measure comma) and their text contains none of the format's separators , ; : (the reader splits on these "
    "before it drops comments)",
    "header values contain no ':' ';' '/' '\\' and no leading/trailing blanks",
    "read(str) gets LF newlines; CRLF only through read_file (which normalises)",
    "a k/48 tempo beat printed with d>=6 decimals differs from the grid point by <= 5e-(d+1) beat; the reader times "
    "the change from the literal and counts beats from the grid point, so object times are accepted within "
    "|literal-grid| * (longer adjacent beat length) in addition to 1e-6*max(1,|ms|)",
    "tempo *values* in the chart's list are asserted only when every change is on a measure line (otherwise the "
    "list is re-seated by design, C11)",
]


def case_st(tier):
    return st.fixed_dictionaries(
        dict(
            sk=gen.mapset_strategy(tier, mode="rows", tempo="grid48", chart_types="any", max_charts=4, stops_first_rate=2),
            io=st.sampled_from(["str", "str", "str", "list", "file", "file-crlf"]),
        )
    )


def _read(io, text):
    from reamber.sm import SMMapSet

    if io == "str":
        return SMMapSet.read(text)
    if io == "list":
        return SMMapSet.read(text.split("\n"))
    data = text.replace("\n", "\r\n") if io == "file-crlf" else text
    fd, path = tempfile.mkstemp(suffix=".sm", prefix="c02_")
    try:
        with os.fdopen(fd, "wb") as fh:
            fh.write(data.encode("utf8"))
        return SMMapSet.read_file(path)
    finally:
        os.unlink(path)


def _stops_early(case, failure):
    """The file has a (empty) #STOPS tag before #BPMS or before #OFFSET."""
    stl = case["sk"]["style"]
    tags = stl["tags"]
    return stl["stops"] != "absent" and "STOPS" in tags and tags.index("STOPS") < max(tags.index("BPMS"), tags.index("OFFSET"))


def _slack_fn(parsed):
    """ms slack for an object at beat b: |literal - grid| of the change that opens b's segment times the longer of
    the two adjacent beat lengths (see ASSUMPTIONS)."""
    lit = [F(b) for b, _ in parsed["bpms"]]
    grid = [F(round(b * 48), 48) for b in lit]
    blen = [60000.0 / v for _, v in parsed["bpms"]]

    def slack(beat: F) -> float:
        i = 0
        for j, g in enumerate(grid):
            if g <= beat:
                i = j
        if i == 0:
            return 0.0
        return float(abs(lit[i] - grid[i])) * max(blen[i - 1], blen[i]) * 1.0001

    return slack


def _tol(x, extra=0.0):
    return 1e-6 * max(1.0, abs(x)) + extra


def check_read(case, ctx):
    sk = case["sk"]
    text = gen.render(sk)
    parsed = ref.parse(text)
    bad = gen.self_check(sk, text, parsed)
    ctx.harness(bad is None, f"renderer/reference disagree: {bad}")
    ctx.harness(not parsed["stops"], "generated a stop")
    stl = sk["style"]
    tags = stl["tags"]
    charts = parsed["charts"]

    # ---- classes / non-trivial rule ---------------------------------------
    mid = any(F(b) % 4 != 0 for b, _ in parsed["bpms"])
    non4 = any(c["keys"] != 4 for c in charts)
    special = any(c[k] for c in charts for k in ("rolls", "lifts", "fakes", "keysounds"))
    big_meas = any(r > 16 for c in charts for r in c["rows_per_measure"])
    ctx.nt(mid or len(charts) >= 2 or non4 or special or big_meas)
    ctx.label("tempo-mid-measure", mid)
    ctx.label("tempo-k48-decimals", any(e[0] in ("f6", "f7", "f9", "f12") and (fr(b) * 1000).denominator != 1 for e, (b, _) in zip(stl["bpm_enc"], sk["tempo"])))
    ctx.label("tempo-exact-decimals", any((fr(b) * 1000).denominator == 1 and fr(b) != 0 for b, _ in sk["tempo"]))
    ctx.label("tempo-changes>=2", len(sk["tempo"]) >= 2)
    ctx.label("bpms-out-of-order", stl["bpm_perm"] != sorted(stl["bpm_perm"]))
    ctx.label("stops=" + ("absent" if not parsed["has_stops_tag"] else stl["stops"]))
    ctx.label("charts=%d" % len(charts))
    ctx.label("chart-without-objects", any(not c["notes"] for c in sk["charts"]))
    ctx.label("non-4-key", non4)
    ctx.label("keys>=10", any((c["keys"] or 0) >= 10 for c in charts))
    ctx.label("keys=18", any(c["keys"] == 18 for c in charts))
    ctx.label("rows-not-multiple-of-16", any(r % 16 for c in charts for r in c["rows_per_measure"]))
    ctx.label("rows>16", big_meas)
    ctx.label("rows=192", any(r == 192 for c in charts for r in c["rows_per_measure"]))
    ctx.label("rows=384", any(r == 384 for c in charts for r in c["rows_per_measure"]))
    ctx.label("hold-spans-measures", any(F(o["beat"]) // 4 != (F(o["beat"]) + F(o["length_beats"])) // 4 for c in charts for k in ref.LONG_KINDS for o in c[k]))
    ctx.label("hold+roll-same-chart", any(c["holds"] and c["rolls"] for c in charts))
    for k in ref.KINDS:
        ctx.label("kind:" + k, any(c[k] for c in charts))
    ctx.label("empty-chart", any(not any(c[k] for k in ref.KINDS) for c in charts))
    cb = {F(b) for b, _ in sk["tempo"][1:]}
    ctx.label("object-on-tempo-change", any(fr(n[2]) in cb for c in sk["charts"] for n in c["notes"]))
    ctx.label("comments-in-notes", any(t is not None for c in sk["charts"] for _, _, t in c["style"]["extras"]))
    ctx.label("blank-lines-in-notes", any(t is None for c in sk["charts"] for _, _, t in c["style"]["extras"]))
    ctx.label("header-comments", any(t is not None for _, t in stl["extras"]))
    ctx.label("header-comment-with-#", any(t is not None and "#" in t for _, t in stl["extras"]))
    ctx.label("tags-shuffled", [t for t in tags if t in ("OFFSET", "BPMS")] != ["OFFSET", "BPMS"] or bool(stl["tags_after"]))
    ctx.label("one-line-notes-header", any(c["style"]["one_line"] for c in sk["charts"]))
    ctx.label("io=" + case["io"])

    if _stops_early(case, None):
        ctx.exclude("#STOPS:; tag written before #BPMS or #OFFSET (outside the quantifier 'texts without #STOPS'; the reader evaluates the tag eagerly against the tempo list and raises)")

    # ---- code under test ---------------------------------------------------
    ms = ctx.call("read", _read, case["io"], text)
    got = ctx.call("snapshot", gen.snapshot, ms)

    if got["offset_ms"] is None or not close(got["offset_ms"], parsed["offset_ms"]):
        ctx.fail("offset", f"mapset offset {got['offset_ms']!r}, file says {parsed['offset_ms']!r}")
    if not ctx.eq("chart-count", len(got["charts"]), len(charts)):
        return
    slack = _slack_fn(parsed)
    on_lines = not mid
    for ci, (g, e) in enumerate(zip(got["charts"], charts)):
        # header fields, chart order
        for f in ("chart_type", "description", "difficulty", "difficulty_val"):
            ctx.eq("chart-header:" + f, g[f], e[f], f"chart {ci}")
        if len(g["groove_radar"]) != len(e["groove_radar"]) or any(not close(a, b, 1e-9, 0.0) for a, b in zip(g["groove_radar"], e["groove_radar"])):
            ctx.fail("chart-header:groove_radar", f"chart {ci} got={g['groove_radar']} expected={e['groove_radar']}")
        ctx.eq("stops-invented", g["n_stops"], 0, f"chart {ci}")
        # objects: multisets per kind of (column, ms[, length])
        for kind in ref.KINDS:
            long = kind in ref.LONG_KINDS
            exp = sorted(e[kind], key=lambda o: (o["column"], o["offset"]))
            gg = sorted(g[kind], key=lambda o: (o["column"], o["offset"]))
            if len(exp) != len(gg):
                ctx.fail("count:" + kind, f"chart {ci}: {len(gg)} objects, file has {len(exp)}")
                continue
            for a, b in zip(gg, exp):
                s0 = slack(F(b["beat"]))
                if a["column"] != b["column"]:
                    ctx.fail("column:" + kind, f"chart {ci}: got column {a['column']} at {a['offset']}, file has column {b['column']} at beat {b['beat']} = {b['offset']} ms")
                    break
                if not abs(a["offset"] - b["offset"]) <= _tol(b["offset"], s0):
                    ctx.fail("offset:" + kind, f"chart {ci} column {b['column']} beat {b['beat']}: got {a['offset']!r} expected {b['offset']!r} (tol {_tol(b['offset'], s0):.3g})")
                    break
                if long:
                    s1 = slack(F(b["beat"]) + F(b["length_beats"]))
                    if not abs(a["length"] - b["length"]) <= _tol(b["offset"] + b["length"], s0 + s1):
                        ctx.fail("length:" + kind, f"chart {ci} column {b['column']} beat {b['beat']}+{b['length_beats']}: got {a['length']!r} expected {b['length']!r}")
                        break
        # every #BPMS entry is in the chart's tempo list at its ms
        offs = [t for t, _ in g["bpms"]]
        for (b, v), t in zip(parsed["bpms"], parsed["bpms_ms"]):
            hit = [i for i, x in enumerate(offs) if abs(x - t) <= _tol(t)]
            if not hit:
                ctx.fail("tempo-missing", f"chart {ci}: #BPMS {b}={v} at {t!r} ms not in tempo list {offs[:12]}")
            elif on_lines and not any(close(g["bpms"][i][1], v, 1e-9, 0.0) for i in hit):
                ctx.fail("tempo-value", f"chart {ci}: #BPMS {b}={v}: list has {[g['bpms'][i] for i in hit]}")


KNOWN_PREDICATES = {"stops_before_bpms": _stops_early}

SUBS = [
    Sub("read", check_read, strategy=case_st, examples={"quick": 260, "thorough": 2500}, shards={"quick": 16, "thorough": 16}, fuzz={"thorough": 150}),
]

MANIFEST = dict(
    technique="property-based testing: Hypothesis-generated beat-space skeletons rendered to .sm text with the format's syntactic freedom, compared with an independent StepMania interpreter (tokenizer + exact Fraction rows + piecewise tempo integration)",
    level_text="Exploration: thousands of rendered files per run (1..4 charts, 36 chart types / widths 3..18, all multiples of 4 rows per measure up to 192/384, mid-measure tempo changes in both decimal encodings, all eight symbols, comments/blank lines, three read entry points) agree with the reference interpreter on every object's column, millisecond position and length, on chart order and header fields and on the presence of every tempo change. The renderer and the reference check each other inside every case (harness error on disagreement). Sampling cannot prove absence. Thorough adds an atheris/libFuzzer campaign on the same strategy (coverage.fuzz in the evidence).",
    level_note="trusted: vlib/ref/sm.py (~200 lines), vlib/ref/timing.py, Hypothesis; domain restrictions in ASSUMPTIONS (no stops, #STOPS after #BPMS, separator-free comments/values, LF for read(str))",
)
