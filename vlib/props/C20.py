"""C20 Pattern grouping partitions the notes; combinations are exactly the allowed ones."""
from __future__ import annotations

from collections import Counter
from itertools import combinations_with_replacement

from hypothesis import strategies as st

from vlib.core import Sub
from vlib.ref import pattern as ref

PROPERTY_ID = "C20"
RULE = (
    "Hypothesis-generated note sets (0..14 notes quick, 0..40 thorough; 4 and 7 keys; offsets on a coarse grid so "
    "that ties and repeated columns are common, plus free integer, negative and fractional offsets) built three "
    "ways: raw Pattern(cols, offsets, types) with Hit/Hold/HoldTail/OsuHit/OsuHold types, and "
    "Pattern.from_note_lists over 0..3 Hit/Hold lists (base and osu classes, empty lists included) with and "
    "without tails; v in {0, grid step multiples, 1000, any int 0..1000, an exact distance between two notes, "
    "fractional}, h in {None,0,1,2,3,keys-1,10}, both jack settings. Grouping oracle = validity predicate "
    "(partition as multiset, no empty group, v/h window relative to the group's first note, no repeated column "
    "when jacks are avoided); an exhaustive tier enumerates every multiset of <=4 notes on a 3x3 lattice x v in "
    "{0,1,2 steps} x h in {None,0,1,2} x both jack settings. Combination oracle = itertools.product over the "
    "groups group() returned, windows of n=2..4 consecutive groups, chord/column/type filters with every option "
    "bit and include/exclude expanded by vlib/ref/pattern.py from the Option docstrings, compared as multisets "
    "(pairs for make_size2); templates compared as sets of pairs with must/may bounds. "
    "Non-trivial = >=3 groups with a group of size >=2 and (combination sub-check) at least one filter active; "
    "for the grouping sub-checks the filter clause does not apply."
)
ASSUMPTIONS = [
    "columns are integers in 0..keys-1 and filter bases use columns in 0..keys-1 (PtnFilterCombo hashes columns base `keys`)",
    "filter bases have exactly `size` entries; chord sizes in bases are within 1..keys (a base above `keys` with "
    "AND_HIGHER|AND_LOWER makes PtnFilterChord.create raise TypeError - a chord cannot be larger than the key count)",
    "offsets are finite; the vertical window is evaluated in float arithmetic as t_first <= t <= t_first + v",
    "the group's first note is the first row of the group array",
    "chord-filter configurations whose docstring meaning is open (several bases with AND_LOWER/AND_HIGHER, "
    "AND_LOWER|AND_HIGHER, AND_HIGHER for sizes > keys) are asserted only as must <= got <= may",
    "templates: pairs containing a HoldTail and the swapped (secondary, primary) window order are not asserted "
    "(docstrings silent); template results compared as sets of pairs",
    "class hierarchy used by the type filter: OsuHit<Hit<Note, OsuHold<Hold<Note, HoldTail<Note (cross-checked at start)",
]

# --------------------------------------------------------------------------- #
# plain data -> reamber objects
# --------------------------------------------------------------------------- #
_T = {}


def _types():
    if not _T:
        from reamber.base.Hit import Hit
        from reamber.base.Hold import Hold, HoldTail
        from reamber.base.Note import Note
        from reamber.osu.OsuHit import OsuHit
        from reamber.osu.OsuHold import OsuHold

        _T.update(Hit=Hit, Hold=Hold, HoldTail=HoldTail, Note=Note, OsuHit=OsuHit, OsuHold=OsuHold, object=object)
        for k in ref.NOTE_KINDS:
            for c in ref.FILTER_KINDS:
                if issubclass(_T[k], _T[c]) != ref.is_sub(k, c):
                    _T.clear()
                    from vlib.core import HarnessError

                    raise HarnessError(f"C20: reference class table disagrees with reamber for {k} <= {c}")
    return _T


def _expected_input(case):
    """The notes the pattern must contain, from the plain case data."""
    if case["mode"] == "raw":
        return [(int(c), float(o), k) for c, o, k in case["notes"]]
    out = []
    for nl in case["lists"]:
        pre = "Osu" if nl["fam"] == "osu" else ""
        for row in nl["rows"]:
            if nl["kind"] == "hit":
                out.append((int(row[1]), float(row[0]), pre + "Hit"))
            else:
                out.append((int(row[1]), float(row[0]), pre + "Hold"))
                if case["tails"]:
                    out.append((int(row[1]), float(row[0]) + float(row[2]), "HoldTail"))
    return out


def _make_pattern(case, ctx):
    from reamber.algorithms.pattern import Pattern

    T = _types()
    if case["mode"] == "raw":
        cols = [c for c, _, _ in case["notes"]]
        offs = [o for _, o, _ in case["notes"]]  # ints stay ints: the int64 path of Pattern is exercised
        tys = [T[k] for _, _, k in case["notes"]]
        return ctx.call("Pattern", Pattern, cols, offs, tys)
    from reamber.base.lists.notes.HitList import HitList
    from reamber.base.lists.notes.HoldList import HoldList
    from reamber.osu.lists.notes.OsuHitList import OsuHitList
    from reamber.osu.lists.notes.OsuHoldList import OsuHoldList

    nls = []
    for nl in case["lists"]:
        osu = nl["fam"] == "osu"
        if nl["kind"] == "hit":
            cls, item = (OsuHitList, T["OsuHit"]) if osu else (HitList, T["Hit"])
            nls.append(cls([item(float(o), int(c)) for o, c in nl["rows"]]))
        else:
            cls, item = (OsuHoldList, T["OsuHold"]) if osu else (HoldList, T["Hold"])
            nls.append(cls([item(float(o), int(c), float(ln)) for o, c, ln in nl["rows"]]))
    if case["tails"] == "default":
        return ctx.call("from_note_lists", Pattern.from_note_lists, nls)
    return ctx.call("from_note_lists", Pattern.from_note_lists, nls, include_tails=bool(case["tails"]))


def _intish(c):
    try:
        f = float(c)
        return int(f) if f.is_integer() else f
    except (TypeError, ValueError):
        return c


def _parse_groups(gs):
    out = []
    for g in gs:
        cols = g["column"].tolist()
        offs = g["offset"].tolist()
        kinds = [t.__name__ for t in g["type"].tolist()]
        out.append([(_intish(c), float(o), k) for c, o, k in zip(cols, offs, kinds)])
    return out


def _parse_rows(ar):
    """(k, n) structured array -> list of tuples of notes."""
    cols = ar["column"].tolist()
    offs = ar["offset"].tolist()
    tys = ar["type"].tolist()
    out = []
    for rc, ro, rt in zip(cols, offs, tys):
        out.append(tuple((_intish(c), float(o), t.__name__) for c, o, t in zip(rc, ro, rt)))
    return out


# --------------------------------------------------------------------------- #
# strategies
# --------------------------------------------------------------------------- #
KIND_W = ["Hit", "Hit", "Hit", "Hold", "HoldTail", "HoldTail", "OsuHit", "OsuHold"]


@st.composite
def _offsets(draw, n):
    """n offsets: mostly a coarse grid (ties), sometimes free / negative / fractional."""
    step = draw(st.sampled_from([1, 10, 25, 50, 100]))
    base = draw(st.sampled_from([0, 0, 0, -200, 1000, 12345]))
    style = draw(st.sampled_from(["grid", "grid", "grid", "free", "frac"]))
    span = draw(st.sampled_from([3, 6, 12]))
    out = []
    for _ in range(n):
        if style == "free":
            out.append(draw(st.integers(-50, 1200)))
        else:
            t = base + step * draw(st.integers(0, span))
            if style == "frac":
                t = t + draw(st.sampled_from([0.0, 0.0, 0.5, 0.25, 0.1, 1 / 3]))
            out.append(t)
    return step, out


@st.composite
def _window(draw, keys, step, offs):
    choices = [
        st.sampled_from([0, 0, 1, step // 2, step, step, 2 * step, 3 * step, 50, 1000]),
        st.integers(0, 1000),
        st.sampled_from([0.5, 12.5, 99.9, 100.1, 333.3]),
    ]
    if len(offs) >= 2:
        a = draw(st.sampled_from(offs))
        b = draw(st.sampled_from(offs))
        choices.append(st.just(abs(a - b)))
    v = draw(st.one_of(*choices))
    h = draw(st.sampled_from([None, None, None, 0, 1, 1, 2, 3, keys - 1, 10]))
    aj = draw(st.booleans())
    return v, h, aj


@st.composite
def _raw_notes(draw, keys, max_n):
    n = draw(st.integers(0, max_n))
    step, offs = draw(_offsets(n))
    narrow = draw(st.booleans())  # few columns -> many jacks
    cols = [draw(st.integers(0, min(keys, 2) - 1 if narrow else keys - 1)) for _ in range(n)]
    kinds = [draw(st.sampled_from(KIND_W)) for _ in range(n)]
    return step, [[c, o, k] for c, o, k in zip(cols, offs, kinds)]


@st.composite
def group_case(draw, tier):
    max_n = 40 if tier == "thorough" else 14
    keys = draw(st.sampled_from([4, 7]))
    mode = draw(st.sampled_from(["raw", "raw", "lists", "lists"]))
    if mode == "raw":
        step, notes = draw(_raw_notes(keys, max_n))
        v, h, aj = draw(_window(keys, step, [o for _, o, _ in notes]))
        return dict(keys=keys, mode="raw", notes=notes, v=v, h=h, aj=aj)
    nlists = draw(st.integers(0, 3))
    budget = draw(st.integers(0, max_n))
    lists, all_offs, step = [], [], 10
    for i in range(nlists):
        kind = draw(st.sampled_from(["hit", "hold"]))
        fam = draw(st.sampled_from(["base", "base", "osu"]))
        n = draw(st.integers(0, budget)) if i < nlists - 1 else budget
        if kind == "hold":
            n = n // 2
        budget -= n * (2 if kind == "hold" else 1)
        step, offs = draw(_offsets(n))
        rows = []
        for o in offs:
            c = draw(st.integers(0, keys - 1))
            if kind == "hit":
                rows.append([o, c])
                all_offs.append(o)
            else:
                ln = draw(st.sampled_from([0, step, step, 2 * step, 5 * step, 17, 0.5]))
                rows.append([o, c, ln])
                all_offs += [o, o + ln]
        lists.append(dict(kind=kind, fam=fam, rows=rows))
    tails = draw(st.sampled_from([True, True, False, "default"]))
    v, h, aj = draw(_window(keys, step, all_offs))
    return dict(keys=keys, mode="lists", lists=lists, tails=tails, v=v, h=h, aj=aj)


def lattice_cases(tier):
    """Every multiset of <=4 notes on a 3 (column) x 3 (time) lattice, every window setting."""
    pts = [(c, t) for t in range(3) for c in range(3)]
    for n in range(0, 5):
        for ms in combinations_with_replacement(pts, n):
            notes = [[c, t * 100, "Hit"] for c, t in ms]
            for v in (0, 100, 200):
                for h in (None, 0, 1, 2):
                    for aj in (True, False):
                        yield dict(keys=3, mode="raw", notes=notes, v=v, h=h, aj=aj)


def _approx_groups(notes, v, h, aj):
    """Generator guidance only (never used by an oracle): a greedy grouping of the plain notes, so that
    filter bases can be aimed at size / column / type tuples that are likely to occur."""
    rest = sorted(notes, key=lambda n: n[1])
    out = []
    while rest and len(out) < 60:
        c0, t0, _ = rest[0]
        g, keep, seen = [], [], set()
        for n in rest:
            ok = t0 <= n[1] <= t0 + v and (h is None or abs(n[0] - c0) <= h) and not (aj and n[0] in seen)
            if ok:
                g.append(n)
                seen.add(n[0])
            else:
                keep.append(n)
        out.append(g)
        rest = keep
    return out


@st.composite
def _aimed(draw, groups, size, field):
    """A tuple (sizes / columns / kinds) taken from a window of the approximate grouping, or None."""
    if len(groups) < size:
        return None
    i = draw(st.integers(0, len(groups) - size))
    chunk = groups[i : i + size]
    if field == "size":
        return [len(g) for g in chunk]
    picks = [g[draw(st.integers(0, len(g) - 1))] for g in chunk]
    return [n[0] for n in picks] if field == "col" else [n[2] for n in picks]


@st.composite
def _bases(draw, size, elem, groups, field, generalise=None):
    base = draw(_base_st(size, elem))
    if draw(st.integers(0, 9)) < 6:
        aim = draw(_aimed(groups, size, field))
        if aim is not None:
            if generalise:
                aim = [draw(generalise(x)) for x in aim]
            base = [aim] + base[1:] if draw(st.booleans()) else base[:-1] + [aim]
    return base


def _base_st(size, elem):
    return st.lists(st.lists(elem, min_size=size, max_size=size), min_size=1, max_size=3).flatmap(
        lambda full: st.sampled_from([full[:1], full[:1], full[:1], full[:2], full])
    )


@st.composite
def combo_case(draw, tier):
    max_n = 40 if tier == "thorough" else 14
    keys = draw(st.sampled_from([4, 4, 7]))
    step, notes = draw(_raw_notes(keys, max_n))
    v, h, aj = draw(_window(keys, step, [o for _, o, _ in notes]))
    size = draw(st.sampled_from([2, 2, 3, 3, 4]))
    ag = _approx_groups(notes, v, h, aj)
    chord = combo = typ = None
    which = draw(st.integers(0, 7))
    if which & 1:
        elem = st.sampled_from([1, 1, 2, 2, 3, 4] if keys == 4 else [1, 1, 2, 2, 3, 4, 5, 7])
        chord = dict(base=draw(_bases(size, elem, ag, "size", lambda x: st.sampled_from([min(keys, y) for y in (x, x, x, max(1, x - 1), x + 1)]))), opt=draw(st.integers(0, 7)), excl=draw(st.booleans()))
    if which & 2:
        pool = sorted({c for c, _, _ in notes}) or [0]
        elem = st.one_of(st.sampled_from(pool), st.integers(0, keys - 1))
        if draw(st.booleans()):
            c0 = draw(elem)
            base = [[c0] * size]  # jack line
        else:
            base = draw(_bases(size, elem, ag, "col"))
        combo = dict(base=base, opt=draw(st.integers(0, 7)), excl=draw(st.booleans()))
    if which & 4:
        elem = st.sampled_from(["Hit", "Hit", "Hold", "HoldTail", "HoldTail", "Note", "object", "object", "OsuHit", "OsuHold"])
        gen = lambda k: st.sampled_from([k, k, k[3:] if k.startswith("Osu") else k, "Note", "object"])
        typ = dict(base=draw(_bases(size, elem, ag, "type", gen)), opt=draw(st.integers(0, 3)), excl=draw(st.booleans()))
    return dict(
        keys=keys, notes=notes, v=v, h=h, aj=aj, size=size, make_size2=draw(st.booleans()), chord=chord, combo=combo, type=typ
    )


@st.composite
def template_case(draw, tier):
    max_n = 40 if tier == "thorough" else 14
    keys = draw(st.sampled_from([4, 4, 7]))
    step, notes = draw(_raw_notes(keys, max_n))
    v, h, aj = draw(_window(keys, step, [o for _, o, _ in notes]))
    if draw(st.booleans()):
        tmpl = dict(name="jacks", min_len=draw(st.sampled_from([2, 2, 3, 4])))
    else:
        tmpl = dict(
            name="chord_stream",
            primary=draw(st.integers(1, min(keys, 4))),
            secondary=draw(st.integers(1, min(keys, 4))),
            and_lower=draw(st.booleans()),
            include_jack=draw(st.booleans()),
        )
    return dict(keys=keys, notes=notes, v=v, h=h, aj=aj, tmpl=tmpl)


# --------------------------------------------------------------------------- #
# checks
# --------------------------------------------------------------------------- #
def _group(case, ctx):
    p = _make_pattern(case, ctx)
    gs = ctx.call("group", p.group, case["v"], case["h"], case["aj"])
    return p, gs, _parse_groups(gs)


def _shape_labels(ctx, groups):
    ctx.label("groups=0", len(groups) == 0)
    ctx.label("groups>=3", len(groups) >= 3)
    ctx.label("group-size>=2", any(len(g) >= 2 for g in groups))
    ctx.label("group-size>=3", any(len(g) >= 3 for g in groups))
    return len(groups) >= 3 and any(len(g) >= 2 for g in groups)


def check_group(case, ctx):
    exp = _expected_input(case)
    v, h, aj = case["v"], case["h"], case["aj"]
    ctx.label("mode=" + case["mode"] + ("" if case["mode"] == "raw" else f"/tails={case['tails']}"))
    ctx.label("keys=%d" % case["keys"])
    ctx.label("n=0", len(exp) == 0)
    ctx.label("n>14", len(exp) > 14)
    ctx.label("v=0", v == 0)
    ctx.label("h=None" if h is None else ("h=0" if h == 0 else "h>0"))
    ctx.label("avoid_jack" if aj else "allow_jack")
    offs = [o for _, o, _ in exp]
    ctx.label("ties", len(set(offs)) < len(offs))
    ctx.label("same-col-same-time", len({(c, o) for c, o, _ in exp}) < len(exp))
    ctx.label("tails-present", any(k == "HoldTail" for _, _, k in exp))
    ctx.label("frac-offsets", any(o != int(o) for o in offs))
    ctx.label("neg-offsets", any(o < 0 for o in offs))

    p, gs, groups = _group(case, ctx)
    ctx.eq("pattern-len", len(p), len(exp))
    for kind, msg in ref.group_violations(exp, groups, v, h, aj):
        ctx.fail(kind, f"v={v} h={h} avoid_jack={aj}: {msg}")
    ctx.nt(_shape_labels(ctx, groups))
    # generator measurement: windows that actually cut
    firsts = [g[0] for g in groups if g]
    ctx.label("note-on-v-boundary", any(o == f[1] + v for f in firsts for o in offs) and v > 0)
    ctx.label("h-cuts", h is not None and any(abs(c - f[0]) > h and f[1] <= o <= f[1] + v for f in firsts for c, o, _ in exp))
    ctx.label("jack-cuts", aj and len(groups) > len({o for o in offs}) and h is None and v == 0)


def _mk_filters(case, ctx):
    from reamber.algorithms.pattern.filters import PtnFilterChord, PtnFilterCombo, PtnFilterType

    T = _types()
    kw = {}
    ch, co, ty = case.get("chord"), case.get("combo"), case.get("type")
    if ch:
        O = PtnFilterChord.Option
        opt = (O.ANY_ORDER if ch["opt"] & 1 else 0) | (O.AND_LOWER if ch["opt"] & 2 else 0) | (O.AND_HIGHER if ch["opt"] & 4 else 0)
        f = ctx.call("PtnFilterChord.create", PtnFilterChord.create, [list(b) for b in ch["base"]], case["keys"], opt, bool(ch["excl"]))
        kw["chord_filter"] = f.filter
    if co:
        O = PtnFilterCombo.Option
        opt = (O.REPEAT if co["opt"] & 1 else 0) | (O.HMIRROR if co["opt"] & 2 else 0) | (O.VMIRROR if co["opt"] & 4 else 0)
        f = ctx.call("PtnFilterCombo.create", PtnFilterCombo.create, [list(b) for b in co["base"]], case["keys"], opt, bool(co["excl"]))
        kw["combo_filter"] = f.filter
    if ty:
        O = PtnFilterType.Option
        opt = (O.ANY_ORDER if ty["opt"] & 1 else 0) | (O.MIRROR if ty["opt"] & 2 else 0)
        f = ctx.call("PtnFilterType.create", PtnFilterType.create, [[T[k] for k in b] for b in ty["base"]], opt, bool(ty["excl"]))
        kw["type_filter"] = f.filter
    return kw


def _collect(ctx, res, width):
    got = Counter()
    for ar in res:
        if getattr(ar, "ndim", 0) != 2 or ar.shape[1] != width:
            ctx.fail("shape", f"result array of shape {getattr(ar, 'shape', None)}, expected (k,{width})")
            ctx.stop()
        for row in _parse_rows(ar):
            got[row] += 1
    return got


def _fmt(c, n=3):
    items = sorted(c.items(), key=lambda kv: repr(kv[0]))[:n]
    return "; ".join(f"{k} x{v}" for k, v in items) + (" ..." if len(c) > n else "")


def check_combo(case, ctx):
    from reamber.algorithms.pattern.combos import PtnCombo

    size, ms2, keys = case["size"], case["make_size2"], case["keys"]
    ch, co, ty = case.get("chord"), case.get("combo"), case.get("type")
    case = dict(case, mode="raw")
    p, gs, groups = _group(case, ctx)
    must, may, info = ref.expected_sequences(groups, size, ch, co, ty, keys)
    kw = _mk_filters(case, ctx)
    res = ctx.call("combinations", PtnCombo(gs).combinations, size=size, make_size2=ms2, **kw)
    got = _collect(ctx, res, 2 if ms2 else size)
    if ms2:
        must, may = ref.fold_pairs(must), ref.fold_pairs(may)
    sfx = "-pairs" if ms2 else ""
    desc = f"size={size} v={case['v']} h={case['h']} aj={case['aj']} chord={ch} combo={co} type={ty} group-sizes={[len(g) for g in groups]}"
    missing = must - got
    extra = got - may
    if missing:
        ctx.fail("missing" + sfx, f"{desc}: expected but not reported: {_fmt(missing)}")
    if extra:
        ctx.fail("extra" + sfx, f"{desc}: reported but not allowed: {_fmt(extra)}")

    shape_nt = _shape_labels(ctx, groups)
    active = bool(ch or co or ty)
    ctx.nt(shape_nt and active)
    ctx.label(f"size={size}")
    ctx.label("make_size2", ms2)
    ctx.label("no-filter", not active)
    ctx.label("windows>=1", info["windows"] >= 1)
    ctx.label("expected-nonempty", sum(may.values()) > 0)
    if ch:
        ctx.label("chord")
        ctx.label("chord-excl", ch["excl"])
        for bit, nm in ((1, "ANY_ORDER"), (2, "AND_LOWER"), (4, "AND_HIGHER")):
            ctx.label("chord-" + nm, bool(ch["opt"] & bit))
        ctx.label("chord-ambiguous-config", ref.chord_ambiguous_config(ch["base"], ch["opt"]))
        ctx.label("chord-ambiguous-window(unasserted)", info["win_amb"] > 0)
        ctx.label("chord-splits-windows", info["win_pass"] > 0 and info["win_fail"] > 0)
        ctx.label("chord-multi-base", len(ch["base"]) > 1)
    if co:
        ctx.label("combo")
        ctx.label("combo-excl", co["excl"])
        for bit, nm in ((1, "REPEAT"), (2, "HMIRROR"), (4, "VMIRROR")):
            ctx.label("combo-" + nm, bool(co["opt"] & bit))
        ctx.label("combo-splits", info["seq_rej_combo"] > 0 and info["seq_rej_combo"] < info["seq_total"])
    if ty:
        ctx.label("type")
        ctx.label("type-excl", ty["excl"])
        for bit, nm in ((1, "ANY_ORDER"), (2, "MIRROR")):
            ctx.label("type-" + nm, bool(ty["opt"] & bit))
        ctx.label("type-splits", info["seq_rej_type"] > 0 and sum(may.values()) > 0)
        ctx.label("type-superclass-in-base", any(k in ("Note", "object") for b in ty["base"] for k in b))
    ctx.label("filters>=2", sum(map(bool, (ch, co, ty))) >= 2)


def check_template(case, ctx):
    from reamber.algorithms.pattern.combos import PtnCombo

    t = case["tmpl"]
    keys = case["keys"]
    case = dict(case, mode="raw")
    p, gs, groups = _group(case, ctx)
    pc = PtnCombo(gs)
    if t["name"] == "jacks":
        must, may = ref.expected_jacks(groups, t["min_len"])
        res = ctx.call("template_jacks", pc.template_jacks, t["min_len"], keys)
        ctx.label("jacks/len=%d" % t["min_len"])
    else:
        must, may = ref.expected_chord_stream(groups, t["primary"], t["secondary"], t["and_lower"], t["include_jack"])
        res = ctx.call(
            "template_chord_stream",
            pc.template_chord_stream,
            t["primary"],
            t["secondary"],
            keys,
            t["and_lower"],
            t["include_jack"],
        )
        ctx.label("chord_stream/and_lower=%s/include_jack=%s" % (t["and_lower"], t["include_jack"]))
    got = set(_collect(ctx, res, 2))
    desc = f"{t} v={case['v']} h={case['h']} aj={case['aj']} group-sizes={[len(g) for g in groups]}"
    missing = must - got
    extra = got - may
    if missing:
        ctx.fail(t["name"] + "-missing", f"{desc}: expected pair(s) not reported: {sorted(missing)[:3]}")
    if extra:
        ctx.fail(t["name"] + "-extra", f"{desc}: reported pair(s) outside the documented meaning: {sorted(extra)[:3]}")
    ctx.nt(_shape_labels(ctx, groups))
    ctx.label(t["name"] + "-must-nonempty", bool(must))
    ctx.label(t["name"] + "-unasserted-pairs", bool(may - must))
    ctx.label(t["name"] + "-got-nonempty", bool(got))


SUBS = [
    Sub("group", check_group, strategy=group_case, examples={"quick": 1500, "thorough": 6000}, shards={"quick": 4, "thorough": 16}),
    Sub(
        "group-lattice",
        check_group,
        enumerate=lattice_cases,
        shards={"quick": 4, "thorough": 8},
        exhaustive=True,
        doc="all multisets of <=4 notes on a 3x3 lattice x 3 v x 4 h x 2 jack settings",
    ),
    Sub("combos", check_combo, strategy=combo_case, examples={"quick": 1500, "thorough": 6000}, shards={"quick": 5, "thorough": 16}),
    Sub("templates", check_template, strategy=template_case, examples={"quick": 1000, "thorough": 4000}, shards={"quick": 3, "thorough": 8}),
]

MANIFEST = dict(
    technique="property-based testing: Hypothesis-generated note sets and filter configurations; grouping checked by a "
    "validity predicate (plus exhaustive enumeration of a 3x3 lattice), combinations against an independent "
    "itertools.product model with option expansion written from the docstrings",
    level_text="Exploration: thousands of generated note sets per run (three construction paths, ties, jacks, tails) "
    "satisfy the partition/window/jack clauses, and every multiset of <=4 notes on a 3x3 lattice under 24 window "
    "settings does so exhaustively; reported combinations equal, as multisets, the product model for sizes 2..4 "
    "under every option bit of the three filters, include and exclude. Sampling cannot prove absence; group "
    "maximality is not part of the statement and is not asserted.",
    level_note="trusted: vlib/ref/pattern.py (option expansion ~100 lines, no reamber import), Hypothesis; domain: "
    "columns and filter bases inside 0..keys-1, finite offsets; docstring-ambiguous chord configurations and "
    "HoldTail handling of the templates are bounded (must/may) rather than asserted exactly",
)
