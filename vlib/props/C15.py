"""C15 A chart is a set of timed objects: results do not depend on row order."""
from __future__ import annotations

import hashlib
import math
import warnings
from fractions import Fraction as F

from hypothesis import strategies as st

from vlib.core import Sub, canon
from vlib.gen import build as B

PROPERTY_ID = "C15"
RULE = (
    "Metamorphic: every case is a chart (plain data) plus, per list name (hits, holds, bpms, svs, osu event samples, "
    "'other' = StepMania mines/rolls/...), a reordering recipe {kind: reverse | rotate k | shuffle seed | swap | tail "
    "(sorted, then k rows moved to the end) | explicit index list; how: ctor (list built from the items in the new "
    "order) | append (first rows built, the rest appended one by one without sort) | concat (two lists appended) | "
    "rsort (sorted(reverse=True), row labels kept)}. The chart is built twice through the public constructors from the "
    "same items: A in the given order, B reordered; f(A) is compared with f(B) by meaning. f = write (osu, Quaver: "
    "generated in-memory charts of vlib/gen/{osu,qua}; StepMania, BMS: beat-space skeletons of vlib/gen/{sm,bms} on the "
    "snapping grid; the two written files are parsed by the reamber-free reference parsers and compared as "
    "denotations: metadata, multisets of notes / tempo points / SVs / samples, resolved tempo lists), every converter "
    "of the source game, rate(r), full_ln(gap, threshold), hitsound_copy(src, tgt) (both charts reordered; notes as "
    "(time, column, length) multiset, sounds as per-time multisets over result notes and event samples), "
    "dominant_bpm, scroll_speed (with and without override, multiset of (offset, speed)), sv_normalize (multiset of "
    "rows). Tempo points have distinct times, SVs have distinct times where the operation reads them, notes are "
    "not stacked on one (time, column) for full_ln and for StepMania/BMS writing (by construction). "
    "Non-trivial = at least one list with >= 2 rows whose row sequence in B differs from A."
)
ASSUMPTIONS = [
    "A and B are both built from the item objects of one generated chart (A = same order), so they differ in row order (and, for rsort/append/concat, in the row labels / dtypes those library routes produce) only",
    "when f(A) raises, the case (or that converter) is outside the domain of the clause and is counted as 'baseline-raises:*'; f(B) must then not be compared; when f(A) yields a result, f(B) must yield one",
    "written files: the denotation is what vlib/ref/{osu,qua,sm,bms} return; osu additionally keeps the format's requirement that [HitObjects] are in time order as a boolean of the denotation; BMS: the #BPM header and the #BPMxx ids are not part of the denotation, the resolved tempo list is",
    "dominant_bpm: when two bpm values have total active time within 1e-9 (relative) of the maximum either may be returned; scroll_speed / sv_normalize without override are then not compared (label dominant-tie)",
    "hitsound_copy: which of the target notes at one time receives which sound is free: sounds are compared as per-time multisets of (clap|finish|whistle|file name, volume) over result notes and event samples",
    "values by meaning (dtype and row labels free), floats relative 1e-9",
]

NAMED = ("hits", "holds", "bpms", "svs", "samples")
HOWS = ("ctor", "ctor", "append", "concat", "rsort")
KINDS = ("reverse", "rotate", "shuffle", "shuffle", "swap", "tail")


# --------------------------------------------------------------------------- #
# reordering recipes
# --------------------------------------------------------------------------- #
def _h(seed, i) -> int:
    return int.from_bytes(hashlib.sha1(f"{seed}|{i}".encode()).digest()[:8], "big")


def perm_of(spec, n, offsets=None):
    """Recipe -> list of indices (a permutation of range(n)); pure function of the case."""
    if spec is None or n <= 1:
        return list(range(n))
    kind = spec.get("kind", "reverse")
    k = int(spec.get("k", 1))
    if kind == "reverse":
        return list(range(n - 1, -1, -1))
    if kind == "rotate":
        s = k % n or 1
        return [(i + s) % n for i in range(n)]
    if kind == "shuffle":
        return sorted(range(n), key=lambda i: (_h(k, i), i))
    if kind == "swap":
        p = list(range(n))
        a, b = k % n, (k // n + 1 + k % n) % n
        if a == b:
            b = (a + 1) % n
        p[a], p[b] = p[b], p[a]
        return p
    if kind == "tail":
        # the library's own way: a sorted list to which rows are appended afterwards
        order = sorted(range(n), key=lambda i: (offsets[i] if offsets is not None else i, i))
        m = 1 + k % (n - 1)
        moved = sorted(order, key=lambda i: (_h(k, i), i))[:m]
        return [i for i in order if i not in moved] + moved
    if kind == "explicit":
        seen, p = set(), []
        for i in spec.get("idx", []):
            if isinstance(i, int) and 0 <= i < n and i not in seen:
                seen.add(i)
                p.append(i)
        return p + [i for i in range(n) if i not in seen]
    raise ValueError(f"unknown permutation kind {kind!r}")


def _split(spec, n):
    if spec.get("kind") == "tail":
        return n - (1 + int(spec.get("k", 1)) % (n - 1)) if n > 1 else n
    return max(0, min(n, int(spec.get("split", 1))))


def construct(cls, items, spec, offsets):
    """A list of class `cls` from item objects, in the order / by the route the recipe says
    (public constructors, append, sorted only)."""
    n = len(items)
    if spec is None or n == 0:
        return cls(list(items))
    how = spec.get("how", "ctor")
    if how == "rsort":
        return cls(list(items)).sorted(reverse=True)
    p = perm_of(spec, n, offsets)
    ordered = [items[i] for i in p]
    if how == "ctor":
        return cls(ordered)
    k = _split(spec, n)
    if how == "append":
        out = cls(ordered[:k])
        for it in ordered[k:]:
            out = out.append(it)
        return out
    if how == "concat":
        return cls(ordered[:k]).append(cls(ordered[k:]))
    raise ValueError(f"unknown construction {how!r}")


def _maps(obj):
    return list(obj.maps) if hasattr(obj, "maps") else [obj]


def _named_lists(m):
    out = dict(m.objs)
    if type(m).__name__ == "OsuMap":
        out["samples"] = m.samples
    return out


def _spec(perm, name):
    return perm.get(name if name in NAMED else "other")


def _seq(lst):
    return [canon(_nan_safe(r)) for r in B.rows(lst)]


def _nan_safe(v):
    if isinstance(v, (bool, int, float)):
        return "nan" if math.isnan(float(v)) else float(v)
    if isinstance(v, dict):
        return {k: _nan_safe(x) for k, x in v.items()}
    if isinstance(v, (list, tuple)):
        return [_nan_safe(x) for x in v]
    return v


def pair(ctx, make, perm, tag=""):
    """(A, B, moved): two fresh charts whose lists are built from the same item objects, A in the
    generated order, B by the recipes.  Records labels; moved = some list's row sequence differs."""
    a, b = make(), make()
    moved = False
    with warnings.catch_warnings():
        warnings.simplefilter("ignore")
        for ma, mb in zip(_maps(a), _maps(b)):
            for name, lst in _named_lists(ma).items():
                sp = _spec(perm, name)
                n = len(lst)
                items = [lst[i] for i in range(n)]
                offs = [float(x) for x in lst.offset.tolist()]
                la = construct(type(lst), items, None, offs)
                setattr(ma, name, la)
                if sp is None or n == 0:
                    setattr(mb, name, construct(type(lst), items, None, offs))
                    continue
                lb = construct(type(lst), items, sp, offs)
                setattr(mb, name, lb)
                if n < 2:
                    continue
                sa, sb = _seq(la), _seq(lb)
                ctx.harness(sorted(sa) == sorted(sb), f"reordering changed the rows of {name}")
                if sa != sb:
                    moved = True
                    ctx.label(f"{tag}how={sp.get('how', 'ctor')}")
                    ctx.label(f"{tag}kind={'(rsort)' if sp.get('how') == 'rsort' else sp.get('kind')}")
                    ctx.label(f"{tag}moved={name if name in NAMED else 'other'}")
                    ctx.label(f"{tag}A-unsorted", offs != sorted(offs))
                    ctx.label(f"{tag}ties-in-reordered-list", len(set(offs)) < len(offs))
    return a, b, moved


# --------------------------------------------------------------------------- #
# strategies: recipes
# --------------------------------------------------------------------------- #
@st.composite
def spec_st(draw):
    how = draw(st.sampled_from(HOWS))
    kind = draw(st.sampled_from(KINDS))
    sp = dict(how=how, kind=kind, k=draw(st.integers(0, 40)))
    if how in ("append", "concat"):
        sp["split"] = draw(st.integers(0, 6))
    return sp


@st.composite
def perm_st(draw, names=NAMED + ("other",)):
    out = {}
    for n in names:
        if draw(st.integers(0, 4)) != 0:
            out[n] = draw(spec_st())
    if not out:
        out[names[0]] = draw(spec_st())
    return out


# --------------------------------------------------------------------------- #
# comparison by meaning
# --------------------------------------------------------------------------- #
def _rk(row):
    def r(v):
        if isinstance(v, (bool, int, float)):
            v = float(v)
            return "nan" if math.isnan(v) else round(v, 6) + 0.0
        if isinstance(v, dict):
            return {k: r(x) for k, x in v.items()}
        if isinstance(v, (list, tuple)):
            return [r(x) for x in v]
        return v

    return canon(r(row))


def cmp_multiset(ctx, kind, where, a_rows, b_rows, rel=1e-9):
    """Row lists (dicts / tuples / scalars) equal as multisets, floats within rel."""
    if len(a_rows) != len(b_rows):
        ctx.fail(kind + "-count", f"{where}: {len(a_rows)} rows from the original order, {len(b_rows)} from the reordered chart")
        return False
    sa, sb = sorted(a_rows, key=_rk), sorted(b_rows, key=_rk)
    for x, y in zip(sa, sb):
        if not B.same_value(x, y, rel):
            ctx.fail(kind, f"{where}: original order gives {x!r}, reordered gives {y!r}"[:1500])
            return False
    return True


def cmp_value(ctx, kind, where, a, b, rel=1e-9):
    if not B.same_value(a, b, rel):
        ctx.fail(kind, f"{where}: original order gives {a!r}, reordered gives {b!r}"[:1500])
        return False
    return True


def cmp_content(ctx, kind, where, ca, cb, rel=1e-9):
    """B.content() of two charts / mapsets: metadata equal, lists equal as multisets."""
    if ca["kind"] != cb["kind"]:
        ctx.fail(kind + "-type", f"{where}: {ca['kind']} vs {cb['kind']}")
        return
    for k, v in ca["meta"].items():
        g = cb["meta"].get(k)
        if isinstance(v, dict) and "__list__" in v:
            cmp_multiset(ctx, f"{kind}-{k}", f"{where} {k}", v["rows"], g["rows"], rel)
        else:
            cmp_value(ctx, f"{kind}-meta-{k}", f"{where} {ca['kind']}.{k}", v, g, rel)
    if "maps" in ca:
        if len(ca["maps"]) != len(cb["maps"]):
            ctx.fail(kind + "-map-count", f"{where}: {len(ca['maps'])} vs {len(cb['maps'])}")
            return
        for i, (x, y) in enumerate(zip(ca["maps"], cb["maps"])):
            cmp_content(ctx, kind, f"{where} map {i}", x, y, rel)
        return
    for name, rows in ca["lists"].items():
        cmp_multiset(ctx, f"{kind}-{name}", f"{where} {name}", rows, cb["lists"].get(name, []), rel)


def _quiet(fn, *a, **k):
    with warnings.catch_warnings():
        warnings.simplefilter("ignore")
        return fn(*a, **k)


def baseline(ctx, what, fn, *a, **k):
    """f(A).  (True, result) or (False, None) when the original order is itself rejected."""
    try:
        return True, _quiet(fn, *a, **k)
    except Exception as e:  # noqa: BLE001 - outside the domain of the clause, counted
        ctx.label(f"baseline-raises:{what}:{type(e).__name__}")
        return False, None


# --------------------------------------------------------------------------- #
# generic charts (all five games) for the in-memory operations
# --------------------------------------------------------------------------- #
def _dedupe(rows, key):
    seen, out = set(), []
    for r in rows:
        k = key(r)
        if k in seen:
            continue
        seen.add(k)
        out.append(r)
    return out


def _tidy(chart, unique_notes=False, unique_svs=False, hits_holds_only=False):
    """Construction instead of exclusion: tempo points get distinct times; optionally SVs too and
    notes distinct in (time, column) across the note lists."""
    for c in chart["maps"] if "maps" in chart else [chart]:
        ls = c["lists"]
        ls["bpms"] = _dedupe(ls["bpms"], lambda r: r["offset"])
        if unique_svs and "svs" in ls:
            ls["svs"] = _dedupe(ls["svs"], lambda r: r["offset"])
        note_lists = [n for n in ls if n not in ("bpms", "svs", "stops")]
        if hits_holds_only:
            for n in note_lists:
                if n not in ("hits", "holds"):
                    ls[n] = []
        if unique_notes:
            seen = set()
            for n in note_lists:
                keep = []
                for r in ls[n]:
                    k = (r["offset"], r["column"])
                    if k in seen:
                        continue
                    seen.add(k)
                    keep.append(r)
                ls[n] = keep
    return chart


@st.composite
def rate_case_st(draw, tier):
    chart = _tidy(draw(B.st_any_container(tier)))
    r = draw(st.one_of(st.sampled_from([0.5, 0.75, 1.25, 1.5, 2.0]), st.floats(0.1, 10.0, allow_nan=False, exclude_min=True).map(lambda x: round(x, 4))))
    return dict(chart=chart, perm=draw(perm_st()), r=r)


def check_rate(case, ctx):
    chart, perm, r = case["chart"], case["perm"], case["r"]
    a, b, moved = pair(ctx, lambda: B.build(chart), perm)
    ctx.nt(moved)
    ctx.label("game=" + chart["game"])
    ok, ra = baseline(ctx, "rate", a.rate, r)
    if not ok:
        ctx.exclude("baseline-raises:rate")
    rb = ctx.call("rate", _quiet, b.rate, r)
    cmp_content(ctx, "rate", f"rate({r})", B.content(ra), B.content(rb))


# --------------------------------------------------------------------------- #
# conversions
# --------------------------------------------------------------------------- #
def _converters(game):
    import reamber.algorithms.convert as C

    table = {
        "osu": [("OsuToQua", C.OsuToQua.convert), ("OsuToSM", C.OsuToSM.convert), ("OsuToBMS", C.OsuToBMS.convert)],
        "qua": [("QuaToOsu", C.QuaToOsu.convert), ("QuaToSM", C.QuaToSM.convert), ("QuaToBMS", C.QuaToBMS.convert)],
        "sm": [("SMToOsu", C.SMToOsu.convert), ("SMToQua", C.SMToQua.convert), ("SMToBMS", C.SMToBMS.convert)],
        "bms": [("BMSToOsu", C.BMSToOsu.convert), ("BMSToQua", C.BMSToQua.convert), ("BMSToSM", C.BMSToSM.convert)],
        "o2j": [
            ("O2JToOsu", C.O2JToOsu.convert),
            ("O2JToQua", C.O2JToQua.convert),
            ("O2JToSM", C.O2JToSM.convert),
            ("O2JToSM.merge", C.O2JToSM.convert_merge),
            ("O2JToBMS", C.O2JToBMS.convert),
        ],
    }
    return table[game]


def _as_list(x):
    return list(x) if isinstance(x, (list, tuple)) else [x]


@st.composite
def convert_case_st(draw, tier):
    # key counts every target understands, so that most conversions are inside their documented domain
    g = draw(st.sampled_from(["osu", "qua", "sm", "bms", "o2j"]))
    keys = {"osu": draw(st.sampled_from([4, 7, 4, 7, 10])), "qua": draw(st.sampled_from([4, 7])), "sm": draw(st.sampled_from([4, 6, 8])), "bms": 8, "o2j": 7}[g]
    if g in ("sm", "o2j"):
        chart = draw(B.st_mapset(g, tier, keys=keys))
    else:
        chart = draw(B.st_chart(g, tier, keys=keys))
    return dict(chart=_tidy(chart), perm=draw(perm_st()))


def check_convert(case, ctx):
    chart, perm = case["chart"], case["perm"]
    game = chart["game"]
    a, b, moved = pair(ctx, lambda: B.build(chart), perm)
    ctx.nt(moved)
    ctx.label("game=" + game)
    done = 0
    for name, fn in _converters(game):
        ok, ra = baseline(ctx, name, fn, a)
        if not ok:
            continue
        rb = ctx.call(name, _quiet, fn, b)
        ra, rb = _as_list(ra), _as_list(rb)
        if len(ra) != len(rb):
            ctx.fail("convert-count", f"{name}: {len(ra)} results vs {len(rb)}")
            continue
        for i, (x, y) in enumerate(zip(ra, rb)):
            cmp_content(ctx, "convert", f"{name}[{i}]", B.content(x), B.content(y))
        ctx.label("conv=" + name)
        done += 1
    if not done:
        ctx.exclude("baseline-raises:every-converter")


# --------------------------------------------------------------------------- #
# full_ln
# --------------------------------------------------------------------------- #
@st.composite
def full_ln_case_st(draw, tier):
    chart = _tidy(draw(B.st_any(tier, max_rows=20 if tier == "thorough" else 8)), unique_notes=True, hits_holds_only=True)
    gap = draw(st.one_of(st.sampled_from([0, 50, 125, 150, 150.0]), st.floats(0, 400, allow_nan=False).map(lambda x: round(x * 8) / 8)))
    thres = draw(st.one_of(st.sampled_from([0, 100, 100.0, 125, 250]), st.floats(0, 400, allow_nan=False).map(lambda x: round(x * 8) / 8)))
    return dict(chart=chart, perm=draw(perm_st()), gap=gap, thres=thres)


def check_full_ln(case, ctx):
    from reamber.algorithms.generate import full_ln

    chart, perm = case["chart"], case["perm"]
    a, b, moved = pair(ctx, lambda: B.build(chart), perm)
    ctx.nt(moved)
    ctx.label("game=" + chart["game"])
    notes = [(r["offset"], r["column"]) for n in ("hits", "holds") for r in chart["lists"][n]]
    ctx.harness(len(set(notes)) == len(notes), "generator produced stacked notes")
    per_col = {}
    for t, c in notes:
        per_col.setdefault(c, []).append(t)
    ctx.label("column-with>=3-notes", any(len(v) >= 3 for v in per_col.values()))
    ctx.label("chord", len({t for t, _ in notes}) < len(notes))
    ok, ra = baseline(ctx, "full_ln", full_ln, a, gap=case["gap"], ln_as_hit_thres=case["thres"])
    if not ok:
        ctx.exclude("baseline-raises:full_ln")
    rb = ctx.call("full_ln", _quiet, full_ln, b, gap=case["gap"], ln_as_hit_thres=case["thres"])
    cmp_content(ctx, "full_ln", "full_ln", B.content(ra), B.content(rb))


# --------------------------------------------------------------------------- #
# dominant bpm, scroll speed, SV normalisation
# --------------------------------------------------------------------------- #
@st.composite
def analysis_case_st(draw, tier):
    big = tier == "thorough"
    game = draw(st.sampled_from(["osu", "osu", "qua", "qua", "sm", "bms", "o2j"]))
    chart = _tidy(draw(B.st_chart(game, tier, min_bpms=1, max_rows=24 if big else 9, empty_ok=draw(st.integers(0, 3)) == 0)), unique_svs=True)
    # a few more tempo points with repeated bpm values (the grouping by value is what dominant_bpm is about)
    ls = chart["lists"]
    vals = [r["bpm"] for r in ls["bpms"]] + [120.0, 150.0]
    times = {r["offset"] for r in ls["bpms"]}
    for _ in range(draw(st.one_of(st.integers(0, 6), st.integers(0, 40)) if big else st.integers(0, 4))):
        t = float(draw(st.one_of(st.integers(-4, 240).map(lambda i: i * 125), st.integers(-2000, 200000))))
        if t in times:
            continue
        times.add(t)
        row = dict(ls["bpms"][0])
        row.update(offset=t, bpm=draw(st.one_of(st.sampled_from(vals), B.bpm_st)))
        ls["bpms"].append(row)
    if draw(st.integers(0, 7)) == 0:
        # an exact tie on purpose: equal segments alternating between two bpm values, last object at the end
        n = 2 * draw(st.integers(1, 3))
        v = draw(st.lists(st.sampled_from([100.0, 120.0, 150.0, 200.0]), min_size=2, max_size=2, unique=True))
        proto = dict(ls["bpms"][0])
        ls["bpms"] = [dict(proto, offset=1000.0 * i, bpm=v[i % 2]) for i in range(n)]
        for name, rows in ls.items():
            if name != "bpms":
                ls[name] = [r for r in rows if 0.0 <= r["offset"] <= 1000.0 * n]
        if ls["hits"]:
            ls["hits"][0]["offset"] = 1000.0 * n
        else:
            ls["holds"] = (ls["holds"] or [])[:0]
            ls["bpms"].append(dict(proto, offset=1000.0 * n, bpm=v[0]))
    override = draw(st.one_of(st.sampled_from([120.0, 100.0, 200]), B.bpm_st))
    return dict(chart=chart, perm=draw(perm_st()), override=override)


def _dominant_reference(chart):
    """Total active time per bpm value between the first tempo point and the last object
    (plain python over the generated rows) -> (totals dict, tie flag)."""
    ls = chart["lists"]
    pts = sorted((float(r["offset"]), float(r["bpm"])) for r in ls["bpms"])
    last = max(float(r["offset"]) for rows in ls.values() for r in rows)
    tot = {}
    for (t0, v), nxt in zip(pts, pts[1:] + [(last, None)]):
        tot[v] = tot.get(v, 0.0) + (nxt[0] - t0)
    best = max(tot.values())
    near = [v for v, d in tot.items() if abs(d - best) <= 1e-9 * max(1.0, abs(best))]
    return tot, near


def _series_rows(s):
    return [(float(i), float(v)) for i, v in zip(s.index.tolist(), s.tolist())]


def check_analysis(case, ctx):
    from reamber.algorithms.analysis.scroll_speed import scroll_speed
    from reamber.algorithms.generate.sv_normalize import sv_normalize
    from reamber.algorithms.utils.dominant_bpm import dominant_bpm

    chart, perm, override = case["chart"], case["perm"], case["override"]
    game = chart["game"]
    ls = chart["lists"]
    ctx.harness(len({r["offset"] for r in ls["bpms"]}) == len(ls["bpms"]), "two tempo points at one time")
    ctx.harness("svs" not in ls or len({r["offset"] for r in ls["svs"]}) == len(ls["svs"]), "two SVs at one time")
    tot, near = _dominant_reference(chart)
    tie = len(near) > 1
    a, b, moved = pair(ctx, lambda: B.build(chart), perm)
    bp_a, bp_b = _seq(a.bpms), _seq(b.bpms)
    ctx.nt(moved)
    ctx.label("game=" + game)
    ctx.label("bpms-reordered", bp_a != bp_b)
    ctx.label("svs-reordered", "svs" in ls and _seq(a.svs) != _seq(b.svs))
    ctx.label("dominant-tie", tie)
    ctx.label(">=3-tempo-points", len(ls["bpms"]) >= 3)
    ctx.label("repeated-bpm-value", len(tot) < len(ls["bpms"]))
    ctx.label("sv-on-tempo-point", "svs" in ls and bool({r["offset"] for r in ls["svs"]} & {r["offset"] for r in ls["bpms"]}))

    same_dom = True
    ok, da = baseline(ctx, "dominant_bpm", dominant_bpm, a)
    if ok:
        db = ctx.call("dominant_bpm", _quiet, dominant_bpm, b)
        da, db = float(da), float(db)
        if not B.same_value(da, db, 1e-9):
            same_dom = False
            if tie and any(B.same_value(da, v, 1e-9) for v in near) and any(B.same_value(db, v, 1e-9) for v in near):
                ctx.label("dominant-tie-either-accepted")
            else:
                ctx.fail("dominant_bpm", f"original order gives {da}, reordered gives {db}; active time per bpm {tot}")

    for label, kw in (("override", dict(override_bpm=override)), ("dominant", {})):
        if label == "dominant" and tie and not same_dom:
            continue
        ok, sa = baseline(ctx, f"scroll_speed/{label}", scroll_speed, a, **kw)
        if ok:
            sb = ctx.call(f"scroll_speed/{label}", _quiet, scroll_speed, b, **kw)
            cmp_multiset(ctx, f"scroll_speed/{label}", f"scroll_speed({label})", _series_rows(sa), _series_rows(sb))
        if game in ("osu", "qua"):
            ok, na = baseline(ctx, f"sv_normalize/{label}", sv_normalize, a, **kw)
            if ok:
                nb = ctx.call(f"sv_normalize/{label}", _quiet, sv_normalize, b, **kw)
                if type(na) is not type(nb):
                    ctx.fail("sv_normalize-type", f"{type(na).__name__} vs {type(nb).__name__}")
                cmp_multiset(ctx, f"sv_normalize/{label}", f"sv_normalize({label})", B.rows(na), B.rows(nb))


# --------------------------------------------------------------------------- #
# hitsound copy
# --------------------------------------------------------------------------- #
HS_VALUES = [0, 0, 2, 4, 8, 2, 4, 8, 6, 10, 12, 14, 1, 3, 15]
FILES = ["a.wav", "b.wav", "c.ogg", "d.wav"]


@st.composite
def _hs_chart(draw, keys, pool, vols, n, sounding, n_samples):
    hits, holds = [], []
    for _ in range(n):
        row = dict(offset=draw(st.sampled_from(pool)), column=draw(st.integers(0, keys - 1)))
        if sounding:
            row.update(
                hitsound_set=draw(st.sampled_from(HS_VALUES)),
                sample_set=draw(st.sampled_from([0, 0, 0, 1, 2])),
                addition_set=draw(st.sampled_from([0, 0, 0, 1, 3])),
                custom_set=draw(st.sampled_from([0, 0, 0, 1])),
                volume=draw(st.sampled_from(vols)),
                hitsound_file=draw(st.sampled_from(FILES)) if draw(st.integers(0, 1)) == 0 else "",
            )
        else:
            row.update(hitsound_set=draw(st.sampled_from([0, 0, 0, 2, 8])), sample_set=0, addition_set=0, custom_set=0, volume=draw(st.sampled_from([0] + vols)), hitsound_file="")
        if draw(st.integers(0, 2)) == 0:
            row["length"] = draw(st.sampled_from([125.0, 250.0, 1000.0, 62.5]))
            holds.append(row)
        else:
            hits.append(row)
    tpool = pool + [0.0, -250.0]
    lists = dict(hits=hits, holds=holds, bpms=_dedupe(draw(B.st_rows("osu", "bpms", keys, 3, tpool, min_rows=1)), lambda r: r["offset"]), svs=draw(B.st_rows("osu", "svs", keys, 2, tpool)))
    meta = draw(B.st_meta("osu", keys))
    meta["samples"] = [dict(offset=draw(st.sampled_from(tpool)), sample_file="own.wav", volume=draw(st.sampled_from(vols))) for _ in range(n_samples)]
    return dict(game="osu", keys=keys, lists=lists, meta=meta)


@st.composite
def hitsound_case_st(draw, tier):
    big = tier == "thorough"
    pool = sorted({float(draw(st.one_of(st.integers(-4, 200).map(lambda i: i * 125), st.integers(-2000, 200000)))) for _ in range(draw(st.integers(1, 6 if big else 3)))})
    vols = draw(st.lists(st.sampled_from([0, 20, 30, 40, 70, 100]), min_size=1, max_size=3, unique=True))
    keys = draw(st.sampled_from([4, 7]))
    src = draw(_hs_chart(keys, pool, vols, draw(st.integers(1, 24 if big else 10)), True, draw(st.sampled_from([0, 0, 1]))))
    tgt = draw(_hs_chart(keys, pool, vols, draw(st.integers(0, 16 if big else 6)), False, draw(st.sampled_from([0, 0, 2]))))
    names = ("hits", "holds", "samples")
    return dict(src=src, tgt=tgt, perm_src=draw(perm_st(names)), perm_tgt=draw(perm_st(names)) if draw(st.booleans()) else {})


def _sounds(m):
    """per time: sorted list of sounds carried by the notes and by the event samples of an OsuMap"""
    out = {}
    for lst in (m.hits, m.holds):
        for r in B.rows(lst):
            t, v = float(r["offset"]), int(r["volume"])
            hs = int(r["hitsound_set"])
            for bit, nm in ((2, "clap"), (4, "finish"), (8, "whistle")):
                if hs & bit:
                    out.setdefault(t, []).append((nm, v))
            if r["hitsound_file"]:
                out.setdefault(t, []).append(("file:" + str(r["hitsound_file"]), v))
    for r in B.rows(m.samples):
        out.setdefault(float(r["offset"]), []).append(("file:" + str(r["sample_file"]), int(r["volume"])))
    return {t: sorted(v) for t, v in out.items()}


def _note_keys(m):
    ks = [(float(r["offset"]), int(r["column"]), None) for r in B.rows(m.hits)]
    ks += [(float(r["offset"]), int(r["column"]), float(r["length"])) for r in B.rows(m.holds)]
    return sorted(ks, key=lambda k: (k[0], k[1], -1.0 if k[2] is None else k[2]))


def check_hitsound(case, ctx):
    from reamber.algorithms.osu.hitsound_copy import hitsound_copy

    sa, sb, m1 = pair(ctx, lambda: B.build(case["src"]), case["perm_src"], tag="src:")
    ta, tb, m2 = pair(ctx, lambda: B.build(case["tgt"]), case["perm_tgt"], tag="tgt:")
    ctx.nt(m1 or m2)
    ctx.label("source-reordered", m1)
    ctx.label("target-reordered", m2)
    src_notes = case["src"]["lists"]["hits"] + case["src"]["lists"]["holds"]
    tgt_notes = case["tgt"]["lists"]["hits"] + case["tgt"]["lists"]["holds"]
    n_tgt = {}
    for r in tgt_notes:
        n_tgt[r["offset"]] = n_tgt.get(r["offset"], 0) + 1
    groups = {}
    for r in src_notes:
        if r["hitsound_file"]:
            groups.setdefault((r["offset"], r["volume"]), []).append(r["hitsound_file"])
    ctx.label(">=2-named-samples-in-one-volume-group", any(len(set(v)) >= 2 for v in groups.values()))
    ctx.label("named-samples-overflow-by>=2", any(len(set(v)) >= 2 and len(v) >= n_tgt.get(k[0], 0) + 2 for k, v in groups.items()))
    per_t = {}
    for r in src_notes:
        per_t.setdefault(r["offset"], set()).add(r["volume"])
    ctx.label(">=2-volume-groups-at-a-time", any(len(v) >= 2 for v in per_t.values()))
    ctx.label("stacked-target-notes", len({(r["offset"], r["column"]) for r in tgt_notes}) < len(tgt_notes))

    ok, ra = baseline(ctx, "hitsound_copy", hitsound_copy, sa, ta)
    if not ok:
        ctx.exclude("baseline-raises:hitsound_copy")
    rb = ctx.call("hitsound_copy", _quiet, hitsound_copy, sb, tb)
    na, nb = _note_keys(ra), _note_keys(rb)
    if na != nb:
        ctx.fail("hitsound-notes", f"notes of the result differ: {na} vs {nb}"[:1500])
    ua, ub = _sounds(ra), _sounds(rb)
    for t in sorted(set(ua) | set(ub)):
        if ua.get(t, []) != ub.get(t, []):
            ctx.fail("hitsound-sounds", f"sounds at {t}: original order {ua.get(t, [])}, reordered {ub.get(t, [])}")
            break
    sets_a = sorted((float(r["offset"]), int(r["sample_set"]), int(r["addition_set"]), int(r["custom_set"])) for l in (ra.hits, ra.holds) for r in B.rows(l))
    sets_b = sorted((float(r["offset"]), int(r["sample_set"]), int(r["addition_set"]), int(r["custom_set"])) for l in (rb.hits, rb.holds) for r in B.rows(l))
    if sets_a != sets_b:
        ctx.fail("hitsound-sets", f"sample/addition/custom sets per time differ: {sets_a} vs {sets_b}"[:1500])
    cmp_multiset(ctx, "hitsound-bpms", "bpms", B.rows(ra.bpms), B.rows(rb.bpms))
    cmp_multiset(ctx, "hitsound-svs", "svs", B.rows(ra.svs), B.rows(rb.svs))


# --------------------------------------------------------------------------- #
# written files
# --------------------------------------------------------------------------- #
def _strip(rows, drop=()):
    return [{k: v for k, v in r.items() if k not in drop} for r in rows]


@st.composite
def write_osu_case_st(draw, tier):
    from vlib.gen import osu as G

    big = tier == "thorough"
    # shuffle=False: the generated lists are in time order (the file of A is then in time order whatever the writer does)
    chart = draw(G.chart_strategy(tier, kind="memory", max_notes=40 if big else 12, max_tempo=10 if big else 4, meta=draw(st.sampled_from(["plain", "plain", "rich"])), shuffle=draw(st.booleans())))
    return dict(chart=chart, perm=draw(perm_st(("hits", "holds", "bpms", "svs", "samples"))))


def check_write_osu(case, ctx):
    from vlib.gen import osu as G
    from vlib.ref import osu as R

    chart, perm = case["chart"], case["perm"]
    a, b, moved = pair(ctx, lambda: G.build(chart), perm)
    ctx.nt(moved)
    ctx.label("chord-hit+hold", bool({o["offset"] for o in chart["hits"]} & {o["offset"] for o in chart["holds"]}))
    ok, ta = baseline(ctx, "osu.write", a.write)
    if not ok:
        ctx.exclude("baseline-raises:osu.write")
    tb = ctx.call("osu.write", _quiet, b.write)
    try:
        pa = R.parse("\n".join(ta).split("\n"))
    except Exception as e:  # noqa: BLE001
        ctx.label("baseline-unparseable")
        ctx.exclude(f"baseline-unparseable:osu:{type(e).__name__}")
    pb = ctx.call("reference-parse", R.parse, "\n".join(tb).split("\n"))
    file_only = ("x", "y", "type", "effects", "layer", "quoted", "meter", "tfmt", "beat_length")
    for name in ("hits", "holds", "bpms", "svs", "samples"):
        cmp_multiset(ctx, f"osu-file-{name}", f".osu {name}", _strip(pa[name], file_only), _strip(pb[name], file_only))
    cmp_value(ctx, "osu-file-meta", ".osu metadata", pa["meta"], pb["meta"])
    cmp_value(ctx, "osu-file-keys", ".osu keys", pa["keys"], pb["keys"])
    if bool(pa["syntax"].get("objects_sorted")) != bool(pb["syntax"].get("objects_sorted")):
        ctx.fail("osu-file-objects-order", f"[HitObjects] in time order: {pa['syntax'].get('objects_sorted')} for the original order, {pb['syntax'].get('objects_sorted')} for the reordered chart")
    ctx.label("objects-sorted-in-file", bool(pa["syntax"].get("objects_sorted")))


@st.composite
def write_qua_case_st(draw, tier):
    from vlib.gen import qua as G

    big = tier == "thorough"
    chart = draw(G.chart_strategy(tier, document=False, max_notes=40 if big else 12, max_points=10 if big else 4, meta=draw(st.sampled_from(["plain", "plain", "rich", "none"])), default_rows=False))
    return dict(chart=chart, perm=draw(perm_st(("hits", "holds", "bpms", "svs"))))


def check_write_qua(case, ctx):
    from vlib.gen import qua as G
    from vlib.ref import qua as R

    chart, perm = case["chart"], case["perm"]
    a, b, moved = pair(ctx, lambda: G.build(chart), perm)
    ctx.nt(moved)
    ok, ta = baseline(ctx, "qua.write", a.write)
    if not ok:
        ctx.exclude("baseline-raises:qua.write")
    tb = ctx.call("qua.write", _quiet, b.write)
    try:
        pa = R.parse(ta)
    except Exception as e:  # noqa: BLE001
        ctx.exclude(f"baseline-unparseable:qua:{type(e).__name__}")
    pb = ctx.call("reference-parse", R.parse, tb)
    for name in ("hits", "holds", "bpms", "svs"):
        cmp_multiset(ctx, f"qua-file-{name}", f".qua {name}", pa[name], pb[name])
    cmp_value(ctx, "qua-file-meta", ".qua metadata", pa["meta"], pb["meta"])
    cmp_value(ctx, "qua-file-keys", ".qua keys", pa["keys"], pb["keys"])


@st.composite
def write_sm_case_st(draw, tier):
    from vlib.gen import sm as G

    sk = draw(G.mapset_strategy(tier, mode="snap", tempo="grid48", chart_types="writable", max_charts=2 if tier == "quick" else 3))
    # stops (an "other" list of the chart): 0..3 on whole beats, distinct lengths, stored in a drawn order
    beats = draw(st.lists(st.integers(0, 16), max_size=3, unique=True))
    stops = [[b, [125.0, 250.0, 500.0][i]] for i, b in enumerate(beats)]
    return dict(skeleton=sk, stops=stops, perm=draw(perm_st(("hits", "holds", "bpms", "other"))))


def _sm_denotation(p):
    charts = []
    for c in p["charts"]:
        d = {k: c[k] for k in ("chart_type", "description", "difficulty", "difficulty_val", "groove_radar", "keys")}
        for k in ("hits", "mines", "lifts", "fakes", "keysounds"):
            d[k] = sorted((o["beat"], o["column"]) for o in c[k])
        for k in ("holds", "rolls"):
            d[k] = sorted((o["beat"], o["column"], o["length_beats"]) for o in c[k])
        charts.append(d)
    return dict(meta=p["meta"], offset_ms=p["offset_ms"], bpms=p["bpms"], stops=sorted(map(tuple, p["stops"])), charts=charts)


def check_write_sm(case, ctx):
    from vlib.gen import sm as G
    from vlib.ref import sm as R

    sk, perm = case["skeleton"], case["perm"]

    def make():
        ms = G.build(sk)
        if case.get("stops"):
            from reamber.sm.SMStop import SMStop
            from reamber.sm.lists.SMStopList import SMStopList
            from vlib.ref.timing import BeatTimeline

            tl = BeatTimeline(float(sk["offset_ms"]), [(G.fr(b), float(v)) for b, v in sk["tempo"]])
            for m in ms.maps:
                m.stops = SMStopList([SMStop(tl.ms(b), ln) for b, ln in case["stops"]])
        return ms

    a, b, moved = pair(ctx, make, perm)
    ctx.nt(moved)
    ctx.label("tempo-reordered", _seq(a.maps[0].bpms) != _seq(b.maps[0].bpms))
    ctx.label(">=3-tempo-points", len(sk["tempo"]) >= 3)
    ctx.label(">=2-charts", len(sk["charts"]) >= 2)
    ctx.label(">=2-stops", len(case.get("stops") or []) >= 2)
    ctx.label("stops-reordered", _seq(a.maps[0].stops) != _seq(b.maps[0].stops))
    ok, ta = baseline(ctx, "sm.write", a.write)
    if not ok:
        ctx.exclude("baseline-raises:sm.write")
    tb = ctx.call("sm.write", _quiet, b.write)
    try:
        pa = R.parse(ta)
    except Exception as e:  # noqa: BLE001
        ctx.exclude(f"baseline-unparseable:sm:{type(e).__name__}")
    # before F27 the writer padded empty measures with 4-wide rows whatever the key count (not a matter of
    # row order): tolerated in the baseline (the label is 0 on the repaired tree and comes back with
    # revert_F27), every other syntactic problem puts the case outside the domain
    codes_a = sorted({p[0] for p in pa["problems"]})
    if set(codes_a) - {"row-width-mixed"}:
        ctx.exclude("baseline-unparseable:sm:" + codes_a[0])
    ctx.label("baseline-has-4-wide-padding-rows", bool(codes_a))
    pb = ctx.call("reference-parse", R.parse, tb)
    da, db = _sm_denotation(pa), _sm_denotation(pb)
    cmp_value(ctx, "sm-file-problems", ".sm syntactic problems", codes_a, sorted({p[0] for p in pb["problems"]}))
    for k in ("meta", "offset_ms", "bpms", "stops"):
        cmp_value(ctx, f"sm-file-{k}", f".sm {k}", da[k], db[k])
    if len(da["charts"]) != len(db["charts"]):
        ctx.fail("sm-file-chart-count", f"{len(da['charts'])} vs {len(db['charts'])}")
        return
    for i, (x, y) in enumerate(zip(da["charts"], db["charts"])):
        for k in x:
            cmp_value(ctx, f"sm-file-{k}", f".sm chart {i} {k}", x[k], y[k])


@st.composite
def write_bms_case_st(draw, tier):
    from vlib.gen import bms as G

    big = tier == "thorough"
    sk = draw(G.chart_strategy(tier, purpose="write", offgrid=False, max_notes=60 if big else 16, max_tempo=12 if big else 5, min_tempo=draw(st.sampled_from([1, 2, 3]))))
    return dict(skeleton=sk, perm=draw(perm_st(("hits", "holds", "bpms"))))


def check_write_bms(case, ctx):
    from vlib.gen import bms as G
    from vlib.ref import bms as R

    sk, perm = case["skeleton"], case["perm"]
    a, b, moved = pair(ctx, lambda: G.build(sk), perm)
    ctx.nt(moved)
    ctx.label("tempo-reordered", _seq(a.bpms) != _seq(b.bpms))
    ctx.label(">=3-tempo-points", len(sk["tempo"]) >= 3)
    cfg = G.channel_config(sk["layout"])
    ok, ta = baseline(ctx, "bms.write", a.write, note_channel_config=cfg)
    if not ok:
        ctx.exclude("baseline-raises:bms.write")
    tb = ctx.call("bms.write", _quiet, b.write, note_channel_config=cfg)
    pa = R.parse(ta, sk["layout"])
    if pa["conflicts"] or pa["bad_lines"]:
        ctx.exclude("baseline-unparseable:bms:" + ",".join(pa["conflicts"] or ["bad-lines"]))
    pb = ctx.call("reference-parse", R.parse, tb, sk["layout"])
    for k in ("title", "artist", "version", "lnobj", "samples", "tempo", "conflicts", "bad_lines"):
        cmp_value(ctx, f"bms-file-{k}", f".bms {k}", pa[k], pb[k])
    hdr = lambda p: {k: v for k, v in p["header"].items() if k != "BPM"}  # noqa: E731
    cmp_value(ctx, "bms-file-header", ".bms header", hdr(pa), hdr(pb))
    for k in ("hits", "holds"):
        cmp_multiset(ctx, f"bms-file-{k}", f".bms {k}", _strip(pa[k], ("offset", "length")), _strip(pb[k], ("offset", "length")))


# --------------------------------------------------------------------------- #
SUBS = [
    Sub("rate", check_rate, strategy=rate_case_st, examples={"quick": 240, "thorough": 220}, shards={"quick": 1, "thorough": 16}),
    Sub("convert", check_convert, strategy=convert_case_st, examples={"quick": 200, "thorough": 220}, shards={"quick": 2, "thorough": 16}),
    Sub("full_ln", check_full_ln, strategy=full_ln_case_st, examples={"quick": 400, "thorough": 400}, shards={"quick": 1, "thorough": 16}),
    Sub("analysis", check_analysis, strategy=analysis_case_st, examples={"quick": 230, "thorough": 300}, shards={"quick": 3, "thorough": 16}),
    Sub("hitsound", check_hitsound, strategy=hitsound_case_st, examples={"quick": 200, "thorough": 220}, shards={"quick": 2, "thorough": 16}),
    Sub("write_osu", check_write_osu, strategy=write_osu_case_st, examples={"quick": 280, "thorough": 220}, shards={"quick": 1, "thorough": 16}),
    Sub("write_qua", check_write_qua, strategy=write_qua_case_st, examples={"quick": 320, "thorough": 220}, shards={"quick": 1, "thorough": 16}),
    Sub("write_sm", check_write_sm, strategy=write_sm_case_st, examples={"quick": 220, "thorough": 150}, shards={"quick": 3, "thorough": 16}),
    Sub("write_bms", check_write_bms, strategy=write_bms_case_st, examples={"quick": 340, "thorough": 180}, shards={"quick": 2, "thorough": 16}),
]

MANIFEST = dict(
    technique="metamorphic property-based testing: f(chart) vs f(chart with reordered rows) for every listed operation; written files compared as denotations through independent reference parsers",
    level_text="Exploration: generated charts of all five games are built twice from the same items (original order; reordered by reverse / rotation / shuffle / swap / append-without-sort / concatenation / reverse sort) and every listed operation (write osu, Quaver, StepMania, BMS; all 17 converters; rate; full_ln; hitsound_copy; dominant_bpm; scroll_speed; sv_normalize) is run on both; results are compared as multisets / denotations by meaning.",
    level_note="trusted: vlib/ref parsers for the written files, vlib/gen builders, the reordering helper in vlib/props/C15.py; excluded by construction: two tempo points at one time, two SVs at one time (analysis), stacked notes (full_ln, StepMania/BMS writing); dominant-bpm ties accept either maximiser",
)
