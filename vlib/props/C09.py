"""C09 Read -> convert -> write yields a valid target file with the source's timeline."""
from __future__ import annotations

import os
import tempfile
from fractions import Fraction as F
from math import gcd

from hypothesis import strategies as st

from vlib.core import Sub, fr, frs
from vlib.gen import bms as GB
from vlib.gen import osu as GO
from vlib.gen import qua as GQ
from vlib.gen import sm as GS
from vlib.ref import bms as RB
from vlib.ref import ojn as RJ
from vlib.ref import osu as RO
from vlib.ref import qua as RQ
from vlib.ref import sm as RS
from vlib.ref.timing import BeatTimeline

PROPERTY_ID = "C09"
RULE = (
    "One beat-space skeleton per case (pair source->target drawn from the 16 converter pairs and kept in the case; key "
    "count; 1..4 tempo points (thorough 8) with <=3-decimal bpm, first one = file offset; <=16 notes (thorough 48) built by a "
    "per-column walk on the 1/48-beat grid, holds end before the column's next note, last column always used; 0..3 SVs for "
    "osu<->Quaver) is rendered to a source FILE with the existing renderers (vlib/gen/{osu,qua,sm,bms}.py, vlib/ref/ojn.encode): "
    "osu/Quaver get integer milliseconds (class ms-exact: bpm with an integral beat length and grid points that are whole ms; "
    "class ms-rounded: any 1/48 point rounded to the next ms), StepMania 1..2 charts (thorough 3) sharing the tempo list, O2Jam "
    "three difficulties with their own tempo events, BMS any of the five layouts. The file is read by reamber (str/bytes or "
    "read_file), converted with the pair's converter (default arguments, sometimes move_right_by 0/1), each resulting chart "
    "written (write() or write_file) and parsed by the independent reference parser of the TARGET format; the source file is "
    "parsed by the reference parser of the SOURCE format (self-checked against the skeleton in every case). Classes: 'mild' "
    "(tempo changes on measure lines: objects, columns, tempo times and values, key count, SVs compared), 'mid' (StepMania/"
    "BMS/O2Jam sources with tempo changes inside a measure: object times, and every source change time is a tempo point of "
    "the target), 'badkeys' (pairs with raise_bad_mode and a key count the target lacks: ValueError, nothing written). "
    "One sub-check per pair, so the 16 pairs receive the same number of cases. "
    "Non-trivial = the source chart has a hold and >= 2 tempo points."
)
ASSUMPTIONS = [
    "resolution: <= 1 ms inclusive for osu/Quaver targets (integer ms, truncation); for StepMania/BMS targets a time may differ by "
    "(1/96 + 1/192) beat at the local tempo of the written file when the source stores integer ms or its tempo list was re-seated "
    "(class mid), and by 1e-6*max(1,|ms|) when both sides are beat based with tempo changes on measure lines",
    "BMS has no file offset: X->BMS is compared relative to the source's first tempo point; StepMania carries #OFFSET and is "
    "compared in absolute time",
    "key count of the target (CircleSize, Mode, StepMania row width) must equal the source's; BMS declares none; every source "
    "chart uses its last column (several converters derive the key count from the highest used column)",
    "move_right_by (BMS targets) shifts columns by the documented amount; O2JToBMS defaults to 1",
    "SVs are asserted only between osu and Quaver (the only pair of formats that both store them)",
    "StepMania sources use the chart types for which reamber's and StepMania's key tables agree (dance-single/double/solo/"
    "threepanel/routine, kb7-single); O2Jam tempo events lie after measure 0; consecutive tempo points differ in bpm",
    "class mid: mid-measure tempo positions are whole beats, halves, quarters, eighths, thirds or k/48 beats for StepMania and BMS sources "
    "(their readers re-seat the list onto measure lines) and whole/half/quarter beats for O2Jam sources (its reader keeps the points where "
    "they are and the StepMania writer prints #BPMS beats with two decimals, C03)",
    "class mid: bpm values of the target are not compared (re-seating rewrites partial-measure bpm values by design, C11)",
    "metadata is plain ASCII and is not compared (C08 does)",
    "validity: osu = strict parse of vlib/ref/osu.py + objects in time order; Quaver = loads, ref.document_problems empty, Mode "
    "known and every lane within it; StepMania = ref parse without problems, one chart, only taps and holds, row width = "
    "chart type's key count; BMS = every '#' line is header or data grammar, no conflicts (two objects in one cell, LNOBJ "
    "without head, ...)",
]

SOURCES = ("osu", "qua", "sm", "bms", "ojn")
TARGETS = ("osu", "qua", "sm", "bms")
PAIRS = [(s, d) for s in SOURCES for d in TARGETS if s != d]
assert len(PAIRS) == 16
MS_FORMATS = ("osu", "qua")
RAISING = {("osu", "qua"), ("osu", "sm"), ("sm", "qua"), ("bms", "qua")}  # converters with raise_bad_mode
QUA_KEYS = (4, 7, 8)
SM_TYPES = {3: ["dance-threepanel"], 4: ["dance-single"], 6: ["dance-solo"], 7: ["kb7-single"], 8: ["dance-double", "dance-routine"]}
SM_KEYS = tuple(SM_TYPES)
#: ms per beat for the ms-exact class (all give a bpm with <= 3 decimals)
INT_L = [200, 240, 250, 300, 320, 375, 400, 480, 500, 600, 640, 750, 800, 960, 1000]
BEAT_BPMS = [60.0, 90.0, 120.0, 125.0, 150.0, 175.5, 200.0, 240.0, 133.333, 99.999, 180.25, 72.5]
STEP_DENS = [1, 1, 2, 2, 4, 4, 3, 8, 6, 12, 16, 24, 48]
BEAT_TOL = float(F(1, 96) + F(1, 192))
WORDS = ["song", "Artist", "v1", "Hard", "x y", "A-Z", "map (remix)", "100%"]
LAYOUT_COLS = {name: len(RB.columns_of(name)) for name in RB.LAYOUT_NAMES}


# --------------------------------------------------------------------------- #
# strategy
# --------------------------------------------------------------------------- #
def _good_keys(src, dst):
    """key counts that the source format can declare and the target can hold"""
    s = {"osu": range(1, 19), "qua": QUA_KEYS, "sm": SM_KEYS, "bms": range(1, 19), "ojn": (7,)}[src]
    d = {"osu": range(1, 19), "qua": QUA_KEYS, "sm": SM_KEYS, "bms": range(1, 18)}[dst]
    return sorted(set(s) & set(d))


def _bad_keys(src, dst):
    s = {"osu": range(1, 19), "sm": SM_KEYS, "bms": range(1, 17)}[src]
    d = {"qua": QUA_KEYS, "sm": SM_KEYS}[dst]
    return sorted(set(s) - set(d))


def _segments(tempo, exact_ms):
    """[(start beat, end beat | None, grid step)]; grid step = 1/48, or the coarsest 1/d (d | 48) whose
    multiples are whole milliseconds when the segment's beat length is an integral number of ms"""
    out = []
    for i, (b, bpm) in enumerate(tempo):
        end = fr(tempo[i + 1][0]) if i + 1 < len(tempo) else None
        g = F(1, 48)
        if exact_ms:
            L = F(60000) / F(str(bpm))
            assert L.denominator == 1
            g = F(1, gcd(48, int(L)))
        out.append((fr(b), end, g))
    return out


@st.composite
def _next_pos(draw, lo, strict, segs):
    """a grid position >= lo (> lo when strict), inside the segment that holds lo or at the start of the next"""
    i = 0
    while segs[i][1] is not None and segs[i][1] <= lo:
        i += 1
    if i + 1 < len(segs) and draw(st.integers(0, 5)) == 0:
        i += 1
    b0, b1, g = segs[i]
    dens = [d for d in STEP_DENS if (F(1, d) / g).denominator == 1]
    s = F(1, draw(st.sampled_from(dens)))
    base = max(lo, b0)
    k = -((-(base - b0)) // s)  # ceil
    if strict and b0 + k * s == lo:
        k += 1
    pos = b0 + (k + draw(st.integers(0, 3))) * s
    if b1 is not None and pos >= b1:
        pos = b1 if (b1 > lo or not strict) else pos
    return pos


@st.composite
def _notes(draw, keys, max_notes, segs, want_hold):
    """[[column, beat, length|None]] by a walk per column; column keys-1 is always used"""
    n_cols = draw(st.integers(1, min(keys, 4)))
    others = draw(st.lists(st.integers(0, keys - 1), min_size=n_cols - 1, max_size=n_cols - 1, unique=True)) if keys > 1 else []
    cols = sorted(set(others) | {keys - 1})
    per_col = max(1, max_notes // len(cols))
    notes = []
    for c in cols:
        n = draw(st.integers(1, per_col))
        cur, strict = F(draw(st.sampled_from([0, 0, 0, 1, 2, 4, 5]))), False
        for _ in range(n):
            pos = draw(_next_pos(cur, strict, segs))
            ln = None
            if draw(st.integers(0, 2)) == 0 or (want_hold and not notes):
                tail = draw(_next_pos(pos, True, segs))
                ln = tail - pos
            notes.append([c, frs(pos), None if ln is None else frs(ln)])
            cur, strict = pos + (ln or 0), True
    return notes


def _bpm_st(src, prev):
    if src in MS_FORMATS:
        base = st.sampled_from(INT_L).map(lambda L: 60000.0 / L)
    elif src == "ojn":
        base = st.one_of(st.sampled_from([60.0, 90.0, 120.0, 125.0, 150.0, 175.5, 200.0, 240.0]), st.integers(30 * 8, 300 * 8).map(lambda k: k / 8))
    elif src == "bms":
        base = st.one_of(st.sampled_from(BEAT_BPMS), st.integers(40, 255).map(float), st.integers(30000, 300000).map(lambda k: k / 1000))
    else:
        base = st.one_of(st.sampled_from(BEAT_BPMS), st.integers(30000, 300000).map(lambda k: k / 1000))
    return base.filter(lambda v: v != prev)


@st.composite
def _tempo(draw, src, n, mid, first_bpm=None):
    beat = F(0)
    bpm = first_bpm if first_bpm is not None else draw(_bpm_st(src, None))
    out = [[frs(beat), bpm]]
    for i in range(1, n):
        if mid and (i == 1 or draw(st.booleans())):
            d = draw(st.sampled_from([1, 1, 2, 4] if src == "ojn" else [1, 1, 2, 2, 4, 8, 3, 48]))
            k = draw(st.integers(1, 6 * d).filter(lambda k: (F(k, d) % 4) != 0))
            beat = beat + F(k, d)
        else:
            beat = (beat // 4 + draw(st.integers(1, 3))) * 4
        bpm = draw(_bpm_st(src, bpm))
        out.append([frs(beat), bpm])
    return out


@st.composite
def case_st(draw, tier, pair=None):
    big = tier == "thorough"
    src, dst = pair or draw(st.sampled_from(PAIRS))
    classes = ["mild"] * 6
    if src not in MS_FORMATS:
        classes += ["mid"] * 2
    if (src, dst) in RAISING:
        classes += ["badkeys"]
    cls = draw(st.sampled_from(classes))
    mid = cls == "mid"
    exact_ms = src in MS_FORMATS and draw(st.integers(0, 2)) != 0
    n_charts = {"sm": draw(st.integers(1, 3 if big else 2)), "ojn": 3}.get(src, 1)
    max_notes = max(2, (48 if big else 16) // n_charts)
    n_t = draw(st.sampled_from([1, 2, 2, 3, 3, 4] + ([5, 8] if big else [])))
    if mid:
        n_t = max(2, n_t)
    tempo = draw(_tempo(src, n_t, mid and src != "ojn"))
    if src in MS_FORMATS:
        t0 = draw(st.sampled_from([0, 0, 1000, 1000, 250, 37, 12345, -500]))
    elif src == "sm":
        t0 = draw(st.sampled_from([0, 0, 1000, 1000, 250, 37.5, 12345, -500, 9.25]))
    else:
        t0 = 0
    good = _good_keys(src, dst)
    charts = []
    for ci in range(n_charts):
        if cls == "badkeys" and (ci == 0 or draw(st.booleans())):
            keys = draw(st.sampled_from(_bad_keys(src, dst)))
        else:
            pref = [k for k in (4, 7) if k in good]
            keys = draw(st.sampled_from(good + pref * 3))
        ch = dict(keys=keys)
        ct = tempo
        if src == "ojn":
            n_c = draw(st.sampled_from([1, 2, 2, 3, 4])) if not mid else draw(st.integers(2, 4))
            ct = draw(_tempo(src, n_c, mid, first_bpm=tempo[0][1]))
            ch["tempo"] = ct
        segs = _segments(ct, exact_ms and not mid)
        ch["notes"] = draw(_notes(keys, max_notes, segs, want_hold=draw(st.integers(0, 3)) != 0))
        if src == "sm":
            ch["chart_type"] = draw(st.sampled_from(SM_TYPES[keys]))
            ch["difficulty"] = draw(st.sampled_from(GS.DIFFICULTIES))
            ch["difficulty_val"] = draw(st.integers(1, 20))
        charts.append(ch)
    case = dict(src=src, dst=dst, cls=cls, ms="exact" if exact_ms else "rounded", t0=t0, tempo=tempo, charts=charts)
    if src in MS_FORMATS:
        # scroll velocities: carried over between osu and Quaver, mere bystanders for StepMania / BMS targets (they must
        # not move the timeline).  Some sit before the first tempo point (legal in both formats).
        segs = _segments(tempo, exact_ms)
        svs = []
        for _ in range(draw(st.integers(0, 3))):
            if draw(st.integers(0, 3)) == 0:
                pos = -F(draw(st.integers(1, 8)))  # whole beats: an integer number of ms in the ms-exact class
            else:
                pos = draw(_next_pos(F(draw(st.integers(0, 8))), False, segs))
            svs.append([frs(pos), draw(st.sampled_from([0.5, 0.75, 1.25, 1.5, 2.0, 1.0, 0.8, 3.25]))])
        case["svs"] = sorted({s[0]: s for s in svs}.values(), key=lambda s: fr(s[0]))
    kmax = max(c["keys"] for c in charts)
    if src == "bms":
        case["layout"] = draw(st.sampled_from([n for n in ["BME", "BME", "BME"] + RB.LAYOUT_NAMES if LAYOUT_COLS[n] >= kmax]))
        case["order"] = draw(st.sampled_from(["sorted", "sorted", "shuffled", "split"]))
        case["seed"] = draw(st.integers(0, 999))
    if dst == "bms":
        shift = draw(st.sampled_from([None, None, 0, 1])) if src in ("osu", "qua", "ojn") else None
        case["shift"] = shift
        eff = shift if shift is not None else (1 if src == "ojn" else 0)
        case["layout_dst"] = draw(st.sampled_from([n for n in ["BME", "BME", "BME", "PMS_BME", "BMS"] if LAYOUT_COLS[n] >= kmax + eff]))
    if src in MS_FORMATS:
        # order of the timing-point / SV / note entries in the source file (the formats do not prescribe one)
        case["file_order"] = draw(st.sampled_from([None, None, None, "reverse", "rotate"]))
    case["title"] = draw(st.sampled_from(WORDS))
    case["artist"] = draw(st.sampled_from(WORDS))
    case["via_file"] = draw(st.integers(0, 3)) == 0
    return case


# --------------------------------------------------------------------------- #
# skeleton -> what it denotes (exact), and -> source file
# --------------------------------------------------------------------------- #
def _chart_tempo(case, ch):
    return ch.get("tempo") or case["tempo"]


def _exact_ms(t0, tempo):
    """beat -> exact ms (Fraction) for a tempo list whose bpm are decimal literals"""
    pts = [(fr(b), F(str(v))) for b, v in tempo]
    times = [F(str(t0))]
    for (b0, v0), (b1, _) in zip(pts[:-1], pts[1:]):
        times.append(times[-1] + (b1 - b0) * 60000 / v0)

    def ms(beat):
        beat = fr(beat)
        i = 0
        while i + 1 < len(pts) and pts[i + 1][0] <= beat:
            i += 1
        return times[i] + (beat - pts[i][0]) * 60000 / pts[i][1]

    return ms, times


def _ms_int(case, x: F) -> int:
    if case["ms"] == "exact":
        assert x.denominator == 1, f"ms-exact class produced {x}"
        return int(x)
    return int(round(x))


def denoted(case):
    """what the skeleton means, per chart: hits (col, ms), holds (col, ms, len), tempo (ms, bpm), svs"""
    out = []
    for ch in case["charts"]:
        tempo = _chart_tempo(case, ch)
        ms, times = _exact_ms(case["t0"], tempo)
        if case["src"] in MS_FORMATS:
            q = lambda b: float(_ms_int(case, ms(b)))  # noqa: E731
        else:
            q = lambda b: float(ms(b))  # noqa: E731
        hits, holds = [], []
        for c, b, ln in ch["notes"]:
            if ln is None:
                hits.append((c, q(b)))
            else:
                t0, t1 = q(b), q(fr(b) + fr(ln))
                holds.append((c, t0, t1 - t0))
        m = dict(
            keys=ch["keys"],
            hits=sorted(hits),
            holds=sorted(holds),
            tempo=[(float(t), float(v)) for t, (_, v) in zip(times, tempo)],
            svs=sorted((q(b), float(v)) for b, v in case.get("svs", [])),
        )
        out.append(m)
    return out


def _file_order(case, rows):
    how = case.get("file_order")
    rows = list(rows)
    if not how or len(rows) < 2:
        return rows
    return rows[::-1] if how == "reverse" else rows[len(rows) // 2:] + rows[: len(rows) // 2]


def make_source(case):
    """-> (payload for read(), bytes for a file, list of reference models (one per chart))"""
    src = case["src"]
    den = denoted(case)
    if src == "osu":
        d = den[0]
        chart = GO.minimal_chart(
            d["keys"],
            hits=_file_order(case, [(int(t), c) for c, t in d["hits"]]),
            holds=_file_order(case, [(int(t), c, int(ln)) for c, t, ln in d["holds"]]),
            bpms=_file_order(case, [(t, v) for t, v in d["tempo"]]),
            svs=_file_order(case, [(int(t), v) for t, v in d["svs"]]),
            meta=dict(title=case["title"], artist=case["artist"], title_unicode=case["title"], artist_unicode=case["artist"]),
        )
        lines = GO.render(chart)
        p = RO.parse(lines, strict=True)
        model = dict(
            keys=p["keys"],
            hits=sorted((o["column"], o["offset"]) for o in p["hits"]),
            holds=sorted((o["column"], o["offset"], o["length"]) for o in p["holds"]),
            tempo=sorted((o["offset"], o["bpm"]) for o in p["bpms"]),
            svs=sorted((o["offset"], o["multiplier"]) for o in p["svs"]),
        )
        return list(lines), "\n".join(lines).encode("utf8"), [model]
    if src == "qua":
        d = den[0]
        chart = dict(
            keys=d["keys"],
            hits=_file_order(case, [dict(offset=int(t), column=c, keysounds=[]) for c, t in d["hits"]]),
            holds=_file_order(case, [dict(offset=int(t), column=c, length=int(ln), keysounds=[]) for c, t, ln in d["holds"]]),
            bpms=_file_order(case, [dict(offset=int(t), bpm=v) for t, v in d["tempo"]]),
            svs=_file_order(case, [dict(offset=int(t), multiplier=v) for t, v in d["svs"]]),
            meta=dict(Title=case["title"], Artist=case["artist"], Creator="c", DifficultyName="d", AudioFile="a.mp3"),
        )
        text = GQ.render(chart)
        p = RQ.parse(text)
        model = dict(
            keys=p["keys"],
            hits=sorted((o["column"], float(o["offset"])) for o in p["hits"]),
            holds=sorted((o["column"], float(o["offset"]), float(o["length"])) for o in p["holds"]),
            tempo=sorted((float(o["offset"]), float(o["bpm"])) for o in p["bpms"]),
            svs=sorted((float(o["offset"]), float(o["multiplier"])) for o in p["svs"]),
        )
        return text, text.encode("utf8"), [model]
    if src == "sm":
        sk = dict(
            meta=dict(title=case["title"], artist=case["artist"], credit="c", music="a.ogg"),
            offset_ms=float(case["t0"]),
            tempo=[[b, v] for b, v in case["tempo"]],
            charts=[
                dict(
                    chart_type=ch["chart_type"],
                    keys=ch["keys"],
                    description="",
                    difficulty=ch["difficulty"],
                    difficulty_val=ch["difficulty_val"],
                    groove_radar=[0.0] * 5,
                    notes=[["hits" if ln is None else "holds", c, b, ln] for c, b, ln in ch["notes"]],
                    rows=None,
                    style={},
                )
                for ch in case["charts"]
            ],
            style=dict(tags=["TITLE", "ARTIST", "CREDIT", "MUSIC", "OFFSET", "BPMS", "STOPS"], bpm_enc=[["f9", "repr"]] * len(case["tempo"])),
        )
        text = GS.render(sk)
        p = RS.parse(text)
        assert not p["problems"], p["problems"]
        tempo = [(t, v) for t, (_, v) in zip(p["bpms_ms"], p["bpms"])]
        models = [
            dict(
                keys=c["keys"],
                hits=sorted((o["column"], o["offset"]) for o in c["hits"]),
                holds=sorted((o["column"], o["offset"], o["length"]) for o in c["holds"]),
                tempo=tempo,
                svs=[],
            )
            for c in p["charts"]
        ]
        return text, text.encode("utf8"), models
    if src == "bms":
        ch = case["charts"][0]
        exbpms, tempo = {}, []
        for i, (b, v) in enumerate(case["tempo"]):
            if i == 0:
                tempo.append([b, v, "hdr"])
            elif float(v) == int(v) and 1 <= v <= 255 and i % 2:
                tempo.append([b, float(v), "03"])
            else:
                k = RB.b36(i)
                exbpms[k] = v
                tempo.append([b, v, "08:" + k])
        ids = ["0A", "0B", "1Z"]
        skel = dict(
            layout=case["layout"],
            title=case["title"],
            artist=case["artist"],
            version="7",
            bpm0=case["tempo"][0][1],
            lnobj="ZZ",
            samples={"0A": "kick.wav"},
            exbpms=exbpms,
            headers=[],
            tempo=tempo,
            notes=[
                dict(column=c, beat=b, length=ln, id=ids[j % 3], sample={"0A": "kick.wav"}.get(ids[j % 3], ""))
                for j, (c, b, ln) in enumerate(ch["notes"])
            ],
            noise=[],
        )
        lines = GB.render(skel, order=case["order"], seed=case["seed"], decorate=False)
        p = RB.parse(list(lines), case["layout"])
        assert not p["bad_lines"] and not p["conflicts"], (p["bad_lines"], p["conflicts"])
        tl = BeatTimeline(0.0, [(F(b), v) for b, v in p["tempo"]])
        model = dict(
            keys=ch["keys"],
            hits=sorted((o["column"], o["offset"]) for o in p["hits"]),
            holds=sorted((o["column"], o["offset"], o["length"]) for o in p["holds"]),
            tempo=[(t, v) for t, (_, v) in zip(tl.times, p["tempo"])],
            svs=[],
        )
        return list(lines), GB.to_bytes(lines), [model]
    if src == "ojn":
        skel = _ojn_skeleton(case)
        data = RJ.encode(skel)
        dec = RJ.decode(data)
        models = [
            dict(
                keys=7,
                hits=sorted((o["column"], o["offset"]) for o in c["hits"]),
                holds=sorted((o["column"], o["offset"], o["length"]) for o in c["holds"]),
                tempo=[(o["offset"], o["bpm"]) for o in c["bpms"]],
                svs=[],
            )
            for c in dec["charts"]
        ]
        return data, data, models
    raise AssertionError(src)


def _lcm(a, b):
    return a * b // gcd(a, b)


def _ojn_skeleton(case):
    header = dict(
        song_id=1000,
        signature="ojn",
        encode_version=2.9000000953674316,
        genre=1,
        bpm=case["tempo"][0][1],
        level=[3, 12, 25, 0],
        old_encode_version=29,
        old_song_id=1000,
        old_genre="",
        bmp_size=0,
        old_file_version=0,
        title=case["title"],
        artist=case["artist"],
        creator="c",
        ojm_file="o2ma1000.ojm",
        duration=[60, 60, 60],
    )
    charts = []
    for ch in case["charts"]:
        groups = {}

        def add(beat, channel, ev):
            pos = fr(beat) / 4
            m = int(pos)
            groups.setdefault((m, channel), []).append((pos - m, ev))

        for j, (c, b, ln) in enumerate(ch["notes"]):
            val, vp = 1 + j % 50, 0
            if ln is None:
                add(b, c + 2, [val, vp, 0])
            else:
                add(b, c + 2, [val, vp, 2])
                add(fr(b) + fr(ln), c + 2, [val, vp, 3])
        for b, v in ch["tempo"][1:]:
            add(b, 1, [v])
        pk = []
        for (m, chn), evs in sorted(groups.items()):
            n = 1
            for p, _ in evs:
                n = _lcm(n, p.denominator)
            pk.append(dict(measure=m, channel=chn, slots=n, events=[[int(p * n)] + ev for p, ev in sorted(evs, key=lambda t: t[0])]))
        charts.append(dict(packages=pk))
    return dict(header=header, charts=charts, cover="")


# --------------------------------------------------------------------------- #
# reamber side
# --------------------------------------------------------------------------- #
_EXT = {"osu": ".osu", "qua": ".qua", "sm": ".sm", "bms": ".bme", "ojn": ".ojn"}


def _read(ctx, case, payload, raw):
    src = case["src"]
    if src == "osu":
        from reamber.osu.OsuMap import OsuMap as K
    elif src == "qua":
        from reamber.quaver.QuaMap import QuaMap as K
    elif src == "sm":
        from reamber.sm.SMMapSet import SMMapSet as K
    elif src == "bms":
        from reamber.bms.BMSMap import BMSMap as K
    else:
        from reamber.o2jam.O2JMapSet import O2JMapSet as K
    extra = (GB.channel_config(case["layout"]),) if src == "bms" else ()
    if not case["via_file"]:
        return ctx.call("read", K.read, payload, *extra)
    with tempfile.TemporaryDirectory(prefix="c09_") as d:
        path = os.path.join(d, "in" + _EXT[src])
        with open(path, "wb") as fh:
            fh.write(raw)
        return ctx.call("read_file", K.read_file, path, *extra)


def _convert(case):
    """-> (callable(obj) -> list of target objects, is raise_bad_mode converter)"""
    import reamber.algorithms.convert as C

    src, dst = case["src"], case["dst"]
    name = {"osu": "Osu", "qua": "Qua", "sm": "SM", "bms": "BMS", "ojn": "O2J"}
    conv = getattr(C, f"{name[src]}To{name[dst]}")
    kw = {}
    if dst == "bms" and case.get("shift") is not None:
        kw["move_right_by"] = case["shift"]

    def run(obj, **more):
        r = conv.convert(obj, **kw, **more)
        return list(r) if isinstance(r, list) else [r]

    return run


def _write(ctx, case, obj, i):
    """-> text | list of lines | bytes, as the target's writer produced it"""
    dst = case["dst"]
    extra = (GB.channel_config(case["layout_dst"]),) if dst == "bms" else ()
    if not case["via_file"]:
        return ctx.call(f"write[{i}]", obj.write, *extra)
    with tempfile.TemporaryDirectory(prefix="c09_") as d:
        path = os.path.join(d, "out" + _EXT[dst])
        ctx.call(f"write_file[{i}]", obj.write_file, path, *extra)
        with open(path, "rb") as fh:
            data = fh.read()
    if dst == "bms":
        return data
    try:
        text = data.decode("utf8")
    except UnicodeDecodeError as e:
        ctx.fail("written-file-not-utf8", str(e))
        ctx.stop()
    return text.split("\n") if dst == "osu" else text


# --------------------------------------------------------------------------- #
# target file -> model (+ validity problems)
# --------------------------------------------------------------------------- #
def parse_target(ctx, case, out):
    """-> model dict (keys, hits, holds, tempo, svs[, hits_b ...]) or None (after ctx.fail)"""
    dst = case["dst"]
    if dst == "osu":
        lines = list(out) if not isinstance(out, str) else out.split("\n")
        lines = [ln for part in lines for ln in str(part).split("\n")]
        try:
            p = RO.parse(lines, strict=True)
        except RO.OsuFormatError as e:
            ctx.fail("invalid-osu", f"{e.problems[:5]}")
            return None
        if not p["syntax"]["objects_sorted"]:
            ctx.fail("invalid-osu-order", "hit objects are not in time order")
        return dict(
            keys=p["keys"],
            hits=sorted((o["column"], o["offset"]) for o in p["hits"]),
            holds=sorted((o["column"], o["offset"], o["length"]) for o in p["holds"]),
            tempo=sorted((o["offset"], o["bpm"]) for o in p["bpms"]),
            svs=sorted((o["offset"], o["multiplier"]) for o in p["svs"]),
        )
    if dst == "qua":
        if not isinstance(out, str):
            ctx.fail("invalid-qua", f"write returned {type(out).__name__}")
            return None
        try:
            doc = RQ.load(out)
        except Exception as e:  # noqa: BLE001 - not a YAML mapping
            ctx.fail("invalid-qua", f"{type(e).__name__}: {str(e)[:200]}")
            return None
        probs = RQ.document_problems(doc)
        for kind, msg in probs:
            ctx.fail("invalid-qua:" + kind, msg)
        try:
            p = RQ.interpret(doc)
        except Exception as e:  # noqa: BLE001
            if not probs:
                ctx.fail("invalid-qua", f"{type(e).__name__}: {str(e)[:200]}")
            return None
        lanes = [o["column"] for o in p["hits"] + p["holds"]]
        if p["keys"] is None:
            ctx.fail("invalid-qua:mode", f"Mode={doc.get('Mode')!r}")
        elif lanes and not (min(lanes) >= 0 and max(lanes) < p["keys"]):
            ctx.fail("invalid-qua:lane", f"lanes {min(lanes) + 1}..{max(lanes) + 1} in {doc.get('Mode')}")
        if any(o["bpm"] is None for o in p["bpms"]) or any(o["multiplier"] is None for o in p["svs"]):
            ctx.fail("invalid-qua:omitted-value", "a timing point without Bpm / SV without Multiplier")
            return None
        return dict(
            keys=p["keys"],
            hits=sorted((o["column"], float(o["offset"])) for o in p["hits"]),
            holds=sorted((o["column"], float(o["offset"]), float(o["length"])) for o in p["holds"]),
            tempo=sorted((float(o["offset"]), float(o["bpm"])) for o in p["bpms"]),
            svs=sorted((float(o["offset"]), float(o["multiplier"])) for o in p["svs"]),
        )
    if dst == "sm":
        if not isinstance(out, str):
            ctx.fail("invalid-sm", f"write returned {type(out).__name__}")
            return None
        try:
            p = RS.parse(out)
        except RS.SMRefError as e:
            ctx.fail("invalid-sm", str(e))
            return None
        if p["problems"]:
            ctx.fail("invalid-sm", f"{p['problems'][:4]}")
        if len(p["charts"]) != 1:
            ctx.fail("invalid-sm:chart-count", f"{len(p['charts'])} charts in a converted file")
            return None
        c = p["charts"][0]
        want = GS.WRITABLE_KEYS.get(c["chart_type"])
        if want is None or c["row_widths"] not in ([want], []) or (c["keys"] is not None and c["keys"] != want):
            ctx.fail("invalid-sm:chart-type", f"type {c['chart_type']!r} with row widths {c['row_widths']}")
        extra = {k: len(c[k]) for k in ("mines", "lifts", "fakes", "keysounds", "rolls") if c[k]}
        if extra:
            ctx.fail("invalid-sm:kinds", f"{extra}")
        if p["stops"]:
            ctx.fail("invalid-sm:stops", f"{p['stops'][:3]}")
        return dict(
            keys=want,
            hits=sorted((o["column"], o["offset"]) for o in c["hits"]),
            holds=sorted((o["column"], o["offset"], o["length"]) for o in c["holds"]),
            tempo=[(t, v) for t, (_, v) in zip(p["bpms_ms"], p["bpms"])],
            svs=[],
            offset_ms=p["offset_ms"],
        )
    if dst == "bms":
        if not isinstance(out, (bytes, bytearray)):
            ctx.fail("invalid-bms", f"write returned {type(out).__name__}")
            return None
        try:
            p = RB.parse(bytes(out), case["layout_dst"])
        except UnicodeDecodeError as e:
            ctx.fail("invalid-bms", f"not shift_jis: {e}")
            return None
        if p["bad_lines"] or p["conflicts"] or p["comments"]:
            ctx.fail("invalid-bms", f"bad lines {p['bad_lines'][:3]} conflicts {p['conflicts']} non-command lines {p['comments'][:3]}")
        if p["bpm0"] is None or any(o["offset"] is None for o in p["hits"] + p["holds"]):
            ctx.fail("invalid-bms:tempo", "no tempo list can be built")
            return None
        if p["ignored"]:
            ctx.fail("invalid-bms:foreign-channel", f"{p['ignored']} objects in channels outside the layout")
        tl = BeatTimeline(0.0, [(F(b), v) for b, v in p["tempo"]])
        return dict(
            keys=None,
            hits=sorted((o["column"], o["offset"]) for o in p["hits"]),
            holds=sorted((o["column"], o["offset"], o["length"]) for o in p["holds"]),
            tempo=[(t, v) for t, (_, v) in zip(tl.times, p["tempo"])],
            svs=[],
        )
    raise AssertionError(dst)


# --------------------------------------------------------------------------- #
# comparison
# --------------------------------------------------------------------------- #
class _Tol:
    """time comparison of one (case, target chart).

    ms     osu/Quaver target: integer ms, <= 1 ms inclusive
    exact  beat-based source and target, tempo changes on measure lines: 1e-6 relative
    beat   StepMania/BMS target fed from integer ms or from a re-seated tempo list: both times are mapped
           into the written file's own beat space and may differ by 1/96 + 1/192 beat (snap, then row)
    """

    def __init__(self, case, tgt_tempo):
        self.kind = "ms" if case["dst"] in MS_FORMATS else ("beat" if (case["src"] in MS_FORMATS or case["cls"] == "mid") else "exact")
        self.tl = None
        pts = sorted((t, v) for t, v in tgt_tempo)
        if self.kind == "beat" and pts and all(v > 0 for _, v in pts):
            beats = [F(0)]
            for (t0, v0), (t1, _) in zip(pts[:-1], pts[1:]):
                beats.append(beats[-1] + F((t1 - t0) * v0 / 60000.0))
            if all(b1 > b0 for b0, b1 in zip(beats[:-1], beats[1:])):
                self.tl = BeatTimeline(pts[0][0], list(zip(beats, [v for _, v in pts])))

    def ok(self, got, exp, slack=1.0):
        if self.kind == "ms":
            return abs(got - exp) <= 1.0 + 1e-6 * max(1.0, abs(exp))
        if self.kind == "exact" or self.tl is None:
            return abs(got - exp) <= slack * 1e-6 * max(1.0, abs(exp))
        return abs(self.tl.beat_of(got) - self.tl.beat_of(exp)) <= BEAT_TOL + 1e-7

    def text(self):
        return {"ms": "<= 1 ms", "exact": "1e-6 relative", "beat": "(1/96 + 1/192) beat of the written file"}[self.kind]


def _cmp_objects(ctx, what, got, exp, tol, shift_col, dt):
    """got/exp: sorted tuples (col, ms[, len]); expected columns + shift_col, expected times - dt"""
    exp = sorted((o[0] + shift_col, o[1] - dt) + tuple(o[2:]) for o in exp)
    if len(got) != len(exp):
        ctx.fail(f"{what}-count", f"{len(got)} in the target file, {len(exp)} in the source: got {got[:8]} expected {exp[:8]}")
        return
    if [g[0] for g in got] != [e[0] for e in exp]:
        ctx.fail(f"{what}-column", f"columns {[g[0] for g in got]} expected {[e[0] for e in exp]}")
        return
    for g, e in zip(got, exp):
        if not tol.ok(g[1], e[1]):
            ctx.fail(f"{what}-time", f"column {e[0]}: {g[1]!r} in the target file, source says {e[1]!r} (tolerance {tol.text()})")
            return
        if len(e) > 2 and not tol.ok(g[1] + g[2], e[1] + e[2], slack=2.0):
            ctx.fail(f"{what}-length", f"column {e[0]} head {e[1]!r}: length {g[2]!r}, source says {e[2]!r} (tolerance {tol.text()} on the tail)")
            return


def _cmp_tempo(ctx, case, got, exp, tol, dt):
    exp = [(t - dt, v) for t, v in exp]
    if case["cls"] == "mid":
        for t, v in exp:
            if not any(tol.ok(gt, t) for gt, _ in got):
                ctx.fail("tempo-point-missing", f"source tempo change at {t!r} ms ({v} bpm) is no tempo point of the target: {got[:10]}")
                return
        return
    if len(got) != len(exp):
        ctx.fail("tempo-count", f"target {got[:10]} source {exp[:10]}")
        return
    for (gt, gv), (et, ev) in zip(sorted(got), sorted(exp)):
        if not tol.ok(gt, et):
            ctx.fail("tempo-time", f"{gt!r} in the target file, source says {et!r} ({ev} bpm; tolerance {tol.text()})")
            return
        if abs(gv - ev) > 1e-9 * max(1.0, abs(ev)):
            ctx.fail("tempo-value", f"at {et!r} ms: {gv!r} bpm in the target file, source says {ev!r}")
            return


def _labels(ctx, case, models):
    src, dst, cls = case["src"], case["dst"], case["cls"]
    ctx.label(f"class={cls}")  # the sub-check name (= the pair) prefixes every label in the evidence
    if src in MS_FORMATS and cls == "mild":
        ctx.label("ms-" + case["ms"])
    ctx.label("via-file", case["via_file"])
    ctx.label("charts>=2", len(models) >= 2)
    for m in models:
        ctx.label(f"keys={m['keys']}")
        ctx.label("hold", bool(m["holds"]))
        ctx.label("tempo-points=%s" % min(len(m["tempo"]), 4))
        ctx.label("svs", bool(m["svs"]))
        ctx.label("sv-before-first-tempo-point", any(fr(b) < 0 for b, _ in case.get("svs", [])))
        ctx.label("source-entries-out-of-time-order", bool(case.get("file_order")) and len(m["tempo"]) >= 2)
        ctx.label("first-tempo!=0", m["tempo"][0][0] != 0)
        ctx.label("note-at-tempo-change", any(o[1] == t for o in m["hits"] + m["holds"] for t, _ in m["tempo"][1:]))
        ctx.label("hold-over-tempo-change", any(o[1] < t < o[1] + o[2] for o in m["holds"] for t, _ in m["tempo"][1:]))
        ctx.label("fractional-ms", any(o[1] != int(o[1]) for o in m["hits"] + m["holds"]))
    if dst == "bms":
        ctx.label("move_right_by=%s" % case.get("shift"))
        ctx.label("bms-layout=" + case["layout_dst"])
    if src == "bms":
        ctx.label("bms-src-layout=" + case["layout"])
        ctx.label("bms-src-order=" + case["order"])
    if cls != "badkeys":
        ctx.nt(any(m["holds"] and len(m["tempo"]) >= 2 for m in models))


def _self_check(ctx, case, models):
    """the reference reading of the rendered file is what the skeleton denotes (else: harness error)"""
    den = denoted(case)
    ctx.harness(len(den) == len(models), f"{len(models)} charts parsed, {len(den)} generated")
    for d, m in zip(den, models):
        for k in ("hits", "holds", "tempo", "svs"):
            a, b = d[k], m[k]
            ok = len(a) == len(b) and all(
                all(abs(p - q) <= 1e-6 * max(1.0, abs(p)) for p, q in zip(x, y)) for x, y in zip(a, b)
            )
            ctx.harness(ok, f"renderer/reference disagree on {k}: skeleton {a[:6]} parsed {b[:6]}")
        ctx.harness(m["keys"] in (None, d["keys"]) or case["src"] == "bms", f"keys {m['keys']} vs {d['keys']}")


def check(case, ctx):
    src, dst, cls = case["src"], case["dst"], case["cls"]
    payload, raw, models = make_source(case)
    _self_check(ctx, case, models)
    _labels(ctx, case, models)
    convert = _convert(case)

    obj = _read(ctx, case, payload, raw)
    if cls == "badkeys":
        ctx.raises("convert(raise_bad_mode=True)", (ValueError,), convert, obj, raise_bad_mode=True)
        ctx.raises("convert(default)", (ValueError,), convert, obj)
        ctx.nt(any(m["holds"] and len(m["tempo"]) >= 2 for m in models))
        return
    targets = ctx.call("convert", convert, obj)
    if len(targets) != len(models):
        ctx.fail("chart-count", f"{len(targets)} target charts for {len(models)} source charts")
        return
    shift_col = 0
    if dst == "bms":
        shift_col = case["shift"] if case.get("shift") is not None else (1 if src == "ojn" else 0)
    for i, (t, m) in enumerate(zip(targets, models)):
        out = _write(ctx, case, t, i)
        g = parse_target(ctx, case, out)
        if g is None:
            continue
        dt = m["tempo"][0][0] if dst == "bms" else 0.0
        tol = _Tol(case, g["tempo"])
        _cmp_objects(ctx, "hit", g["hits"], m["hits"], tol, shift_col, dt)
        _cmp_objects(ctx, "hold", g["holds"], m["holds"], tol, shift_col, dt)
        _cmp_tempo(ctx, case, g["tempo"], m["tempo"], tol, dt)
        if g["keys"] is not None and g["keys"] != m["keys"]:
            ctx.fail("key-count", f"target declares {g['keys']} keys, source chart {i} has {m['keys']}")
        if dst == "sm":
            t0 = m["tempo"][0][0]
            if not tol.ok(g["offset_ms"], t0):
                ctx.fail("sm-offset", f"#OFFSET puts beat 0 at {g['offset_ms']!r} ms, the source's first tempo point is at {t0!r} ms")
        if src in MS_FORMATS and dst in MS_FORMATS:
            _cmp_svs(ctx, g["svs"], m["svs"])


def _cmp_svs(ctx, got, exp):
    if len(got) != len(exp):
        ctx.fail("sv-count", f"{len(got)} SVs in the target file, {len(exp)} in the source: got {got[:6]} expected {exp[:6]}")
        return
    for (gt, gv), (et, ev) in zip(sorted(got), sorted(exp)):
        if abs(gt - et) > 1.0 + 1e-9:
            ctx.fail("sv-time", f"{gt!r} in the target file, source says {et!r}")
            return
        if abs(gv - ev) > 1e-9 * max(1.0, abs(ev)):
            ctx.fail("sv-value", f"at {et!r} ms: {gv!r} in the target file, source says {ev!r}")
            return


def _known_smtoosu_keys(case, f):
    """SMToOsu leaves CircleSize at 4 (proposed_fixes/C09_smtoosu_keys.md)"""
    return case["src"] == "sm" and case["dst"] == "osu" and any(c["keys"] != 4 for c in case["charts"])


def _known_sm_pad_width(case, f):
    """SMMap.write pads empty measures with '0000' whatever the key count (proposed_fixes/C03_pad_width.md)"""
    if case["dst"] != "sm" or all(c["keys"] == 4 for c in case["charts"]):
        return False
    return "row-width-mixed" in f.msg or ("row widths [" in f.msg and "4" in f.msg.split("row widths")[-1])


KNOWN_PREDICATES = {"smtoosu_keys": _known_smtoosu_keys, "sm_pad_width": _known_sm_pad_width}


def _pair_strategy(pair):
    return lambda tier: case_st(tier, pair)


# one sub-check per converter pair: the 16 pairs get the same number of cases, and failures are bucketed per pair
SUBS = [
    Sub(f"{s_}->{d_}", check, strategy=_pair_strategy((s_, d_)), examples={"quick": 200, "thorough": 700}, shards={"quick": 1, "thorough": 4})
    for s_, d_ in PAIRS
]

MANIFEST = dict(
    technique="property-based testing of the read -> convert -> write composition: Hypothesis-generated beat-space skeletons rendered to "
    "source files of all five games, run through reamber's reader, each of the 16 converters and the target writer; the written file is "
    "parsed by an independent reference parser of the target format and compared with the independent reference reading of the source file",
    level_text="Exploration: every run pushes the same number of generated source files through each of the 16 source->target pairs "
    "(one sub-check per pair; ~1800 files in the quick tier, ~45000 in the thorough tier) and compares what two independent parsers say "
    "about the source file and about the written target file: same hits and holds in the same columns, same tempo change times and "
    "values, same key count, SVs between osu and Quaver, plus the target format's validity predicate. Classes counted in the evidence: "
    "integer-ms sources on and off the ms grid, first tempo point != 0 (file offset), holds across tempo changes, several charts per "
    "file, BMS layouts and column shifts, mid-measure tempo changes (re-seated lists), unsupported key counts (documented ValueError). "
    "Sampling cannot prove absence; the composition has few branches per pair and every pair/class combination is labelled.",
    level_note="trusted: the reference parsers vlib/ref/{osu,qua,sm,bms,ojn}.py and vlib/ref/timing.py, the renderers of vlib/gen (self-checked "
    "against the skeleton in every case), PyYAML, Hypothesis; domain: mild configuration (1/48-beat grid, <= 3-decimal bpm, first tempo "
    "point = file offset, last column used, no stops, 4/4), metadata not compared",
)
