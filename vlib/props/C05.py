"""C05 BMS writing produces a file that denotes the in-memory chart."""
from __future__ import annotations

import os
import tempfile
from fractions import Fraction as F
from math import gcd

from hypothesis import strategies as st

from vlib.core import Sub, close
from vlib.gen import bms as gen
from vlib.ref import bms as ref

PROPERTY_ID = "C05"
RULE = (
    "In-memory BMSMaps built through the public constructors from Hypothesis-generated beat-space skeletons "
    "(vlib/gen/bms.py, purpose=write) for each of the five channel layouts: 1..40 tempo points on measure lines "
    "(4/4, gaps of 1,2,3,7 measures), bpm classes '<=3 decimals' and 'arbitrary float' (labelled); per lane a forward "
    "walk of hits and holds on k/D beats (D from 22 denominators <= 96, three per chart, so that one measure/channel "
    "often needs several lines) and, in a labelled class, off-grid positions (denominators 97, 101, 1000, 10007, 65537; "
    ">= 1/48 beat apart); samples known / without #WAV / unknown / empty; measures 0..999; an optional shift of every "
    "time (first tempo point not at 0 ms); output taken from write() or write_file(). Sub-check 'bigtempo' enumerates "
    "deterministic charts with 36, 37 (quick) and 35, 36, 37, 71, 72, 100, 330 points on measure lines, 1000 points on every "
    "measure line and 1294 points on beat lines (thorough) over layouts and bpm classes; 'limit' holds 1295 and 1296 "
    "points. Oracle: vlib/ref/bms.py on the written bytes (line grammar, lanes of the layout, LNOBJ pairing, #WAV and "
    "#BPMxx tables), positions compared in beat space with exact Fractions, tempo lists as step functions. "
    "Non-trivial = a hold, or one (measure, lane channel) written on >= 2 lines, or >= 36 tempo points, or a layout "
    "other than BME with at least one note."
)
ASSUMPTIONS = [
    "in-memory times are produced from exact beat positions by vlib/ref/timing (one float multiplication per tempo "
    "segment); the exact beat is taken as the beat the in-memory ms denotes (difference ~1e-12 beat)",
    "'on the snap grid' = the position's fraction of a beat has a denominator <= 96 (every such fraction is a slot "
    "of reamber's default Snapper); everything else is 'off-grid' and may move by <= 1/192 beat (+1e-9)",
    "objects of one lane are distinct grid positions (on-grid charts) or >= 1/48 beat apart (charts with off-grid "
    "objects), so no two objects share a (lane, grid slot); the first tempo point is the earliest time of the chart; "
    "an off-grid object within 1/96 beat of the end of measure 999 is excluded (it may snap to measure 1000)",
    "BMS has no file offset: in-memory times are compared relative to the first tempo point (file time 0 = beat 0)",
    "written tempo values must equal the in-memory ones within 0.0005 (the 3 written decimals), exactly (rel 1e-9) in the "
    "'<=3 decimals' class; tempo lists are compared as step functions over beats (a redundant point may be omitted)",
    "sample ids are only asserted for notes whose sample is a value of the #WAV table; notes with an unknown or empty "
    "sample only need a syntactically valid id",
    "ids of the in-memory tables are upper-case base-36 pairs, the LNOBJ id is neither a #WAV id nor the writer's "
    "default id '01'; header values are shift_jis text without leading/trailing blanks",
    "charts with more than 1000 tempo points cannot keep them on measure lines within measures 000..999: the 1294/1295 "
    "point charts put them on beat lines (1..3 beats apart), which is outside the quantifier's 'on measure lines' and "
    "labelled 'tempo:on-beat-lines'",
    "ms comparison ('<=3 decimals' class, on-grid objects): |a-b| <= 1e-6*max(1,|a|)",
]

EPS_BEAT = 1e-9
OFFGRID_TOL = 1.0 / 192 + EPS_BEAT
BPM_TEXT_TOL = 0.0005 + 1e-9
SHIFTS = [0.0, 0.0, 0.0, 0.125, 1234.5, 100000.25]


# --------------------------------------------------------------------------- #
# cases
# --------------------------------------------------------------------------- #
@st.composite
def write_case(draw, tier):
    chart = draw(gen.chart_strategy(tier, purpose="write", max_tempo=40))
    via = draw(st.sampled_from(["bytes", "bytes", "file"]))
    shift = draw(st.sampled_from(SHIFTS))
    # row order of the in-memory lists: a chart is a set of rows (the library itself makes unsorted lists: append)
    order = {name: draw(st.sampled_from([None, None, None, "reverse", "rotate", "evens-first"])) for name in ("bpms", "hits", "holds")}
    return dict(chart=chart, via=via, shift=shift, order=order)


def _dense_skeleton(n_points: int, layout: str, variant: int, bpm_class: str) -> dict:
    """n_points <= 1000 tempo points, one on every measure line 000..n-1."""
    skel = gen.big_tempo_skeleton(n_points, layout, variant, bpm_class, on_measure_lines=False)
    for i, t in enumerate(skel["tempo"]):
        t[0] = gen.frs(F(i * ref.BEATS_PER_MEASURE))
    return skel


def big_skeleton(case: dict) -> dict:
    mode = case["mode"]
    if case["n"] > 1295:  # beyond two base-36 digits: 1295 points plus extra ones a beat apart
        skel = big_skeleton(dict(case, n=1295))
        last = F(skel["tempo"][-1][0])
        for j in range(case["n"] - 1295):
            skel["tempo"].append([gen.frs(last + j + 1), 150.0 + j, "08:ZZ"])
        return skel
    if mode == "dense":
        return _dense_skeleton(case["n"], case["layout"], case["variant"], case["bpm_class"])
    return gen.big_tempo_skeleton(
        case["n"], case["layout"], case["variant"], case["bpm_class"], on_measure_lines=(mode == "lines")
    )


def big_cases(tier):
    out = []

    def add(n, layout, variant, bpm_class, mode="lines", via="bytes", shift=0.0):
        out.append(dict(n=n, layout=layout, variant=variant, bpm_class=bpm_class, mode=mode, via=via, shift=shift))

    if tier == "quick":
        add(36, "BME", 0, "3dec")
        add(37, "PMS", 1, "float")
        add(37, "BMS", 2, "3dec", via="file", shift=1234.5)
        add(36, "PMS_5B", 3, "float")
        return out
    for v, lay in enumerate(ref.LAYOUT_NAMES):
        for n in (35, 36, 37, 71, 72, 100, 330):
            add(n, lay, v, "3dec" if (n + v) % 2 else "float", via="file" if n == 37 else "bytes", shift=SHIFTS[(n + v) % len(SHIFTS)])
    add(1000, "BME", 7, "3dec", mode="dense")
    add(1000, "PMS_BME", 8, "float", mode="dense")
    add(1000, "BMS", 9, "float", mode="beats")
    add(1294, "BME", 10, "3dec", mode="beats")
    add(1294, "PMS", 11, "float", mode="beats", via="file")
    add(1294, "PMS_5B", 12, "3dec", mode="beats", shift=1234.5)
    return out


def limit_cases(tier):
    # both tiers (3 s): 1295 points is the documented limit (F28), 1296 the documented rejection
    return [
        dict(n=1295, layout="BME", variant=20, bpm_class="3dec", mode="beats", via="bytes", shift=0.0),
        dict(n=1296, layout="BME", variant=21, bpm_class="3dec", mode="beats", via="bytes", shift=0.0),
    ]


# --------------------------------------------------------------------------- #
# helpers (no reamber)
# --------------------------------------------------------------------------- #
def _on_grid(b: F) -> bool:
    return b.denominator <= gen.SNAP_MAX_DEN


def _lcm(a: int, b: int) -> int:
    return a * b // gcd(a, b)


def _active(steps, beat):
    v = steps[0][1]
    for b, x in steps:
        if b <= beat:
            v = x
        else:
            break
    return v


def _expected_lanes(skel):
    lanes = {}
    for n in skel["notes"]:
        b = F(n["beat"])
        t = None if n["length"] is None else b + F(n["length"])
        lanes.setdefault(int(n["column"]), []).append(dict(kind="hit" if t is None else "hold", beat=b, tail=t, note=n))
    for v in lanes.values():
        v.sort(key=lambda d: d["beat"])
    return lanes


def _file_lanes(parsed):
    lanes = {}
    for h in parsed["hits"]:
        lanes.setdefault(h["column"], []).append(dict(kind="hit", beat=F(h["beat"]), tail=None, rec=h))
    for h in parsed["holds"]:
        lanes.setdefault(h["column"], []).append(dict(kind="hold", beat=F(h["beat"]), tail=F(h["tail_beat"]), rec=h))
    for v in lanes.values():
        v.sort(key=lambda d: d["beat"])
    return lanes


def _shift_map(m, shift):
    if not shift:
        return
    for lst in (m.hits, m.holds, m.bpms):
        if len(lst):
            lst.offset = lst.offset + shift


def _labels(ctx, skel, case, exp_lanes):
    tempo = skel["tempo"]
    notes = skel["notes"]
    pos = [e["beat"] for v in exp_lanes.values() for e in v] + [e["tail"] for v in exp_lanes.values() for e in v if e["tail"] is not None]
    tempo_beats = [F(t[0]) for t in tempo]
    values = set(skel["samples"].values())
    ctx.label("layout=" + skel["layout"])
    ctx.label("via=" + case["via"])
    ctx.label("shifted", bool(case["shift"]))
    ctx.label("bpm-class=" + skel["bpm_class"])
    ctx.label("offgrid-objects", any(not _on_grid(p) for p in pos))
    ctx.label("ongrid-only", bool(pos) and all(_on_grid(p) for p in pos))
    ctx.label("holds", any(n["length"] is not None for n in notes))
    ctx.label("holds:across-measure", any(e["tail"] is not None and e["beat"] // 4 != e["tail"] // 4 for v in exp_lanes.values() for e in v))
    ctx.label(
        "holds:across-tempo-point",
        any(e["tail"] is not None and any(e["beat"] < tb <= e["tail"] for tb in tempo_beats) for v in exp_lanes.values() for e in v),
    )
    n = len(tempo)
    ctx.label("tempo:1" if n == 1 else "tempo:2-9" if n < 10 else "tempo:10-35" if n < 36 else "tempo:>=36")
    ctx.label("tempo:not-on-measure-lines", any(b % ref.BEATS_PER_MEASURE for b in tempo_beats))
    ctx.label("tempo:repeated-value", any(a[1] == b[1] for a, b in zip(tempo, tempo[1:])))
    ctx.label("sample:known", any(x["sample"] and x["sample"] in values for x in notes))
    ctx.label("sample:unknown", any(x["sample"] and x["sample"] not in values for x in notes))
    ctx.label("sample:empty", any(not x["sample"] for x in notes))
    ctx.label("default-id-01-in-wav-table", "01" in skel["samples"])
    ctx.label("lnobj=" + ("default" if skel["lnobj"] is None else "ZZ" if skel["lnobj"] == "ZZ" else "other"))
    ctx.label("measure>=100", any(p >= 400 for p in pos))
    ctx.label("measure=999", any(p >= 3996 for p in pos))
    ctx.label("empty-chart", not notes)
    ctx.label("chord", len({e["beat"] for v in exp_lanes.values() for e in v}) < sum(len(v) for v in exp_lanes.values()))
    # expected side of the "several lines" rule: on-grid objects of one (measure, lane) whose joint
    # subdivision is >= 100 although each of at least two differs
    groups = {}
    for col, v in exp_lanes.items():
        for e in v:
            for p in (e["beat"], e["tail"]):
                if p is not None and _on_grid(p):
                    q = p / ref.BEATS_PER_MEASURE
                    groups.setdefault((col, int(q)), set()).add((q - int(q)).denominator)
    big = False
    for dens in groups.values():
        if len(dens) >= 2:
            l = 1
            for d in dens:
                l = _lcm(l, d)
            big = big or l >= 100
    ctx.label("lane-measure-lcm>=100", big)


def _reorder(ctx, m, order):
    """Permute the rows of the chart's lists (same rows, other order) through the public list constructor."""
    for name, how in order.items():
        lst = getattr(m, name)
        n = len(lst)
        if not how or n < 2:
            continue
        if how == "reverse":
            perm = list(range(n - 1, -1, -1))
        elif how == "rotate":
            perm = list(range(n // 2, n)) + list(range(n // 2))
        else:
            perm = list(range(0, n, 2)) + list(range(1, n, 2))
        setattr(m, name, type(lst)(lst.df.iloc[perm].reset_index(drop=True)))
        ctx.label(f"rows-reordered:{name}")


# --------------------------------------------------------------------------- #
# the check
# --------------------------------------------------------------------------- #
def _run_writer(ctx, skel, case):
    from reamber.bms import BMSMap  # noqa: F401  (import check before building)

    m = gen.build(skel)
    _shift_map(m, case["shift"])
    _reorder(ctx, m, case.get("order") or {})
    cfg = gen.channel_config(skel["layout"])
    if case["via"] == "bytes":
        data = ctx.call("write", m.write, note_channel_config=cfg)
    else:
        fd, path = tempfile.mkstemp(suffix=".bms", prefix="verif_c05_")
        os.close(fd)
        try:
            ctx.call("write_file", m.write_file, path, note_channel_config=cfg)
            with open(path, "rb") as fh:
                data = fh.read()
        finally:
            os.unlink(path)
    if not isinstance(data, (bytes, bytearray)):
        ctx.fail("syntax", f"write produced {type(data).__name__}, not bytes")
        ctx.stop()
    return bytes(data)


def _check_written(ctx, skel, case, data):
    layout = skel["layout"]
    parsed = ref.parse(data, layout)
    tl = gen.timeline(skel)
    exp_lanes = _expected_lanes(skel)
    three_dec = skel["bpm_class"] == "3dec"

    multi_line = any(v > 1 for k, v in parsed["lines_per_key"].items() if k[3:] in ref.LAYOUTS[layout])
    ctx.label("lines:several-per-measure-lane", multi_line)
    ctx.label("lines:>=100-slots", any(len(ln) - 7 >= 200 for ln in ref.split_lines(data) if ln[1:2].isdigit()))
    ctx.nt(
        any(n["length"] is not None for n in skel["notes"])
        or multi_line
        or len(skel["tempo"]) >= 36
        or (layout != "BME" and bool(skel["notes"]))
    )

    # ---- syntax -----------------------------------------------------------
    for ln in parsed["bad_lines"][:3]:
        ctx.fail("syntax", f"line matches neither '#KEY value' nor '#mmmcc:<base-36 pairs>': {ln[:120]!r}")
    for ln in parsed["comments"][:3]:
        ctx.fail("syntax", f"non-blank line that is not a command: {ln[:120]!r}")
    conf = set(parsed["conflicts"])
    if "time-signature" in conf:
        ctx.fail("time-signature", "a channel 02 line was written for a chart whose tempo points are all 4/4")
    if "stop" in conf:
        ctx.fail("stop-channel", "a channel 09 object was written")
    if "duplicate-header" in conf:
        ctx.fail("header-duplicate", "a header key occurs twice")
    if "lane-same-position" in conf:
        ctx.fail("lane-collision", "two objects of one lane at one position in the file")

    # ---- header -----------------------------------------------------------
    ctx.eq("header-title", parsed["title"], skel["title"])
    ctx.eq("header-artist", parsed["artist"], skel["artist"])
    ctx.eq("header-playlevel", parsed["version"], skel["version"])
    bpm_first = float(skel["tempo"][0][1])
    if parsed["bpm0"] is None:
        ctx.fail("header-bpm", "no (numeric) #BPM header")
    elif abs(parsed["bpm0"] - bpm_first) > BPM_TEXT_TOL:
        # A tempo object at position 0 of the file replaces the header value from beat 0 on, so the timeline (asserted
        # below) is unaffected; the writer takes #BPM from row 0 of the list, which is the first tempo point only when
        # the rows are in time order.  Without such an object the header IS the initial tempo and must be right.
        eff0 = parsed["tempo"][0][1] if parsed["tempo"] else None  # effective tempo at beat 0 (a change at 0 wins over #BPM)
        if eff0 is not None and abs(eff0 - bpm_first) <= BPM_TEXT_TOL and (case.get("order") or {}).get("bpms"):
            ctx.label("header-bpm-differs-but-overridden-at-beat-0")
        else:
            ctx.fail("header-bpm", f"#BPM {parsed['bpm0']!r}, first in-memory tempo {bpm_first!r}")
    for k, v in skel["headers"]:
        if parsed["header"].get(k) != v:
            ctx.fail("header-misc", f"#{k}: got={parsed['header'].get(k)!r} expected={v!r}")

    # ---- tempo ------------------------------------------------------------
    exp_t = [(F(b), float(v)) for b, v, _ in skel["tempo"]]
    got_t = [(F(b), v) for b, v in parsed["tempo"]]
    if "unknown-exbpm" in conf:
        ctx.fail("tempo-value", "a channel 08 object names an id without a #BPMxx header")
    if "tempo-same-position" in conf:
        ctx.fail("tempo-position", "two tempo objects on one position")
    if any(v is None for _, v in got_t):
        pass  # reported as header-bpm
    else:
        same_positions = [b for b, _ in exp_t] == [b for b, _ in got_t]
        ctx.label("tempo:list-differs-but-checked-as-function", not same_positions)
        for b in sorted({b for b, _ in exp_t} | {b for b, _ in got_t}):
            e, g = _active(exp_t, b), _active(got_t, b)
            tol = 1e-9 * max(1.0, abs(e)) if three_dec else BPM_TEXT_TOL
            if abs(e - g) > tol:
                kind = "tempo-value" if same_positions else "tempo-position"
                ctx.fail(
                    kind,
                    f"at beat {b}: file tempo {g!r}, in-memory {e!r}; file has {len(got_t)} points, memory {len(exp_t)}; "
                    f"first differing position: {next(((x[0], y[0]) for x, y in zip(got_t, exp_t) if x[0] != y[0]), None)}",
                )
                break
        if not same_positions and len(got_t) > len(exp_t):
            ctx.fail("tempo-position", f"file has {len(got_t)} tempo points, memory {len(exp_t)}")

    # ---- objects: counts, lanes, pairing -------------------------------------
    got_lanes = _file_lanes(parsed)
    n_hits_e = sum(1 for v in exp_lanes.values() for e in v if e["kind"] == "hit")
    n_holds_e = sum(1 for v in exp_lanes.values() for e in v if e["kind"] == "hold")
    n_hits_g, n_holds_g = len(parsed["hits"]), len(parsed["holds"])
    per_lane = lambda lanes, kind: {c: sum(1 for e in v if e["kind"] == kind) for c, v in sorted(lanes.items()) if any(e["kind"] == kind for e in v)}  # noqa: E731
    foreign = parsed["ignored"]
    lanes_ok = True  # False: objects sit in other lanes than expected, comparing lane by lane is meaningless
    if foreign:
        lanes_ok = False
        ctx.fail("lane", f"{foreign} object(s) in channels that are neither tempo nor lanes of layout {layout}")
    raw_e = n_hits_e + 2 * n_holds_e
    raw_g = n_hits_g + 2 * n_holds_g
    orphan = "lnobj-without-head" in conf
    detail = (
        f"file hits {per_lane(got_lanes, 'hit')} holds {per_lane(got_lanes, 'hold')}; "
        f"memory hits {per_lane(exp_lanes, 'hit')} holds {per_lane(exp_lanes, 'hold')}"
    )
    if orphan:
        ctx.fail("hold-pairing", "an LNOBJ object without a preceding head in its lane; " + detail)
    if n_hits_g != n_hits_e or n_holds_g != n_holds_e:
        if raw_g + foreign == raw_e and foreign:
            pass  # the missing objects are the ones in foreign channels: reported as 'lane'
        elif raw_g + foreign != raw_e and not orphan:
            ctx.fail("hit-count", f"{raw_g + foreign} note objects in the file, {raw_e} expected (hits + 2*holds); " + detail)
        elif not orphan:
            ctx.fail("hold-pairing", "objects are paired differently: " + detail)
    elif per_lane(got_lanes, "hit") != per_lane(exp_lanes, "hit") or per_lane(got_lanes, "hold") != per_lane(exp_lanes, "hold"):
        lanes_ok = False
        ctx.fail("lane", detail)
    if not lanes_ok:
        return

    # ---- objects: positions, samples, ms ---------------------------------------
    values = set(skel["samples"].values())
    for col, ev in sorted(exp_lanes.items()):
        gv = got_lanes.get(col, [])
        if len(gv) != len(ev):
            continue  # reported above
        if [e["kind"] for e in ev] != [g["kind"] for g in gv]:
            ctx.fail("hold-pairing", f"lane {col}: kinds in order {[g['kind'] for g in gv]} expected {[e['kind'] for e in ev]}")
            continue
        for e, g in zip(ev, gv):
            ok = True
            for what, pe, pg in (("", e["beat"], g["beat"]), ("tail-", e["tail"], g["tail"])):
                if pe is None:
                    continue
                if _on_grid(pe):
                    if abs(pg - pe) > EPS_BEAT:
                        ok = False
                        ctx.fail(what + "position-ongrid", f"lane {col}: file beat {pg} ({float(pg):.9f}), memory beat {pe} ({float(pe):.9f})")
                elif abs(pg - pe) > OFFGRID_TOL:
                    ok = False
                    ctx.fail(
                        what + "position-offgrid",
                        f"lane {col}: file beat {pg} ({float(pg):.9f}), memory beat {pe} ({float(pe):.9f}), "
                        f"moved {float(abs(pg - pe)) * 192:.4f}/192 beat",
                    )
            smp = e["note"]["sample"]
            if ok and smp and smp in values and g["rec"]["sample"] != smp:
                ctx.fail(
                    "sample",
                    f"lane {col} beat {e['beat']} ({e['kind']}): id {g['rec']['id']} -> #WAV {g['rec']['sample']!r}, memory sample {smp!r}",
                )
            if three_dec and ok and g["rec"]["offset"] is not None:
                if _on_grid(e["beat"]):
                    t0 = tl.ms(e["beat"])
                    if not close(g["rec"]["offset"], t0, 1e-6, 1e-6):
                        ctx.fail("ms-exact", f"lane {col} beat {e['beat']}: file time {g['rec']['offset']!r} ms, memory {t0!r} ms (relative to the first tempo point)")
                    if e["tail"] is not None and _on_grid(e["tail"]):
                        ln = tl.ms(e["tail"]) - t0
                        if not close(g["rec"]["length"], ln, 1e-6, 1e-6):
                            ctx.fail("ms-exact", f"lane {col} beat {e['beat']}: file hold length {g['rec']['length']!r} ms, memory {ln!r} ms")


def _domain(ctx, exp_lanes):
    """An off-grid object less than 1/96 beat before the end of measure 999 may snap to measure 1000,
    which '#mmm' cannot express: outside the domain (measures <= 999)."""
    for v in exp_lanes.values():
        for e in v:
            for p in (e["beat"], e["tail"]):
                if p is not None and not _on_grid(p) and p > gen.MAX_BEAT - F(1, 96):
                    ctx.exclude("off-grid object within 1/96 beat of the end of measure 999")


def check_write(case, ctx):
    skel = case["chart"]
    _domain(ctx, _expected_lanes(skel))
    _labels(ctx, skel, case, _expected_lanes(skel))
    data = _run_writer(ctx, skel, case)
    _check_written(ctx, skel, case, data)


def check_big(case, ctx):
    skel = big_skeleton(case)
    ctx.label("big:n=%d" % case["n"])
    ctx.label("big:mode=" + case["mode"])
    ctx.label("tempo:on-beat-lines", case["mode"] == "beats")
    _labels(ctx, skel, case, _expected_lanes(skel))
    data = _run_writer(ctx, skel, case)
    _check_written(ctx, skel, case, data)


def check_limit(case, ctx):
    """1295 points: the last id the two base-36 digits can express ('ZZ'); 1296: documented rejection."""
    skel = big_skeleton(case)
    ctx.label("limit:n=%d" % case["n"])
    ctx.label("tempo:on-beat-lines")
    if case["n"] > 1295:
        m = gen.build(skel)
        ctx.raises("write>1295", (AssertionError,), m.write, note_channel_config=gen.channel_config(skel["layout"]))
        return
    _labels(ctx, skel, case, _expected_lanes(skel))
    data = _run_writer(ctx, skel, case)
    _check_written(ctx, skel, case, data)


def _limit_1295(case, failure) -> bool:
    return isinstance(case, dict) and case.get("n") == 1295 and failure.kind == "exc:write:AssertionError"


KNOWN_PREDICATES = {"bpm_limit_1295_rejected": _limit_1295}

SUBS = [
    Sub(
        "write",
        check_write,
        strategy=write_case,
        examples={"quick": 280, "thorough": 2000},
        shards={"quick": 16, "thorough": 16},
    ),
    Sub("bigtempo", check_big, enumerate=big_cases, shards={"quick": 4, "thorough": 16}, exhaustive=False),
    Sub("limit", check_limit, enumerate=limit_cases, shards={"quick": 2, "thorough": 2}, exhaustive=False),
]

MANIFEST = dict(
    technique="property-based testing: Hypothesis-generated in-memory BMS charts (exact beat-space skeletons -> ms through the reference tempo integrator) written with BMSMap.write / write_file and interpreted by an independent BMS reader; positions compared as exact Fractions in beat space",
    level_text="Exploration: thousands of generated charts per run over the five channel layouts (1..40 tempo points, both bpm classes, on-grid and off-grid objects, holds, three sample classes, shifted time origin) plus deterministic charts with 36..1294 tempo points: every written line is valid, every hit / hold head+LNOBJ pair lands in the lane of the layout at the in-memory beat (exact on the snap grid, <= 1/192 beat off it), no object is merged or dropped, the tempo step function of the file equals the in-memory one to the written 3 decimals. Sampling cannot prove absence.",
    level_note="trusted: vlib/ref/bms.py (BMS rules), vlib/ref/timing.py, Hypothesis; domain: 4/4, tempo points on measure lines (beat lines for the >1000-point charts), objects of a lane on distinct slots (>= 1/48 beat apart when off-grid), upper-case ids, no object before the first tempo point",
)
