"""C13 Rate change scales time uniformly, composes, and survives a write."""
from __future__ import annotations

import copy
import math

from hypothesis import strategies as st

from vlib.core import Sub
from vlib.gen import build as B

PROPERTY_ID = "C13"
RULE = (
    "Hypothesis-generated charts (osu, Quaver, BMS), mapsets (StepMania, O2Jam; 1..3 charts) and plain reamber.base.MapSet "
    "containers of osu / Quaver / BMS charts, with some lists empty, "
    "duplicated/negative/fractional offsets, via the public constructors (whole-number StepMania file-level times typed "
    "float, int or numpy int64); rates from {1/2,3/4,1,5/4,3/2,2} and floats in "
    "(0.1,10). Oracle: plain-data model (every offset and length / r, every bpm * r, everything else equal; osu preview "
    "and sample events, StepMania sample window and file offset scale), strict snapshot of the input before/after, "
    "rate(1) identity, rate(a).rate(b) == rate(a*b) (rel 1e-9). The 'write-osu' / 'write-qua' sub-checks build format-valid "
    "osu and Quaver charts, rate them, write them and parse the text with the independent reference parsers (vlib/ref/osu.py, "
    "vlib/ref/qua.py): the text must denote the model-scaled chart with every time moved < 1 ms (rated StepMania mapsets are "
    "written and parsed back in C03's rated histories). "
    "Non-trivial = r != 1 and the chart has >=1 hold and >=2 tempo points."
)
ASSUMPTIONS = [
    "values compared by meaning (rate goes through the stack, which changes dtypes and row labels)",
    "Quaver song_preview_time and the O2Jam header bpm are not asserted either way (the statement names only osu and StepMania file-level fields)",
    "rel 1e-9 on scaled floats",
]

RATES = [0.5, 0.75, 1.0, 1.25, 1.5, 2.0]
rate_st = st.one_of(st.sampled_from(RATES), st.floats(0.1, 10.0, allow_nan=False, exclude_min=True).map(lambda x: round(x, 4)))


@st.composite
def _generic_set(draw, tier):
    """A plain reamber.base.MapSet holding 1..3 charts of one game (osu, Quaver or BMS have no set class of their own)."""
    g = draw(st.sampled_from(["osu", "osu", "qua", "bms"]))
    keys = draw(st.sampled_from(B.KEYS[g]))
    return dict(game=g, generic=True, keys=keys, maps=[draw(B.st_chart(g, tier, keys=keys)) for _ in range(draw(st.integers(1, 3)))], meta={})


def _build(chart):
    if chart.get("generic"):
        from reamber.base.MapSet import MapSet

        return MapSet([B.build(c) for c in chart["maps"]])
    return B.build(chart)


@st.composite
def case_st(draw, tier):
    c = draw(st.one_of(B.st_any_container(tier), B.st_any_container(tier), B.st_any_container(tier), _generic_set(tier)))
    r = draw(rate_st)
    r2 = draw(rate_st)
    # how whole-number file-level times of a StepMania mapset are typed: float (what the reader stores), a Python int (typed
    # in by a user) or numpy's int64 (what QuaToSM stores: Quaver start times are YAML integers)
    return dict(chart=c, r=r, r2=r2, file_num=draw(st.sampled_from(["float", "float", "int", "int64"])))


def _scale_rows(rows, r):
    out = []
    for row in rows:
        n = dict(row)
        if "offset" in n:
            n["offset"] = n["offset"] / r
        if "length" in n:
            n["length"] = n["length"] / r
        if "bpm" in n:
            n["bpm"] = n["bpm"] * r
        out.append(n)
    return out


def _expected(cont, r):
    """content() of the input -> expected content() of rate(r)."""
    e = copy.deepcopy(cont)
    if "maps" in e:
        e["maps"] = [_expected(m, r) for m in e["maps"]]
        if e["kind"] == "SMMapSet":
            for k in ("sample_start", "sample_length", "offset"):
                if e["meta"].get(k) is not None:
                    e["meta"][k] = e["meta"][k] / r
        return e
    e["lists"] = {k: _scale_rows(v, r) for k, v in e["lists"].items()}
    if e["kind"] == "OsuMap":
        e["meta"]["preview_time"] = e["meta"]["preview_time"] / r
        e["meta"]["samples"]["rows"] = _scale_rows(e["meta"]["samples"]["rows"], r)
    return e


UNASSERTED_META = {"QuaMap": {"song_preview_time"}, "O2JMapSet": {"bpm"}}


def _rowkey(row):
    return tuple((k, round(v, 4) if isinstance(v, float) and not math.isnan(v) else repr(v)) for k, v in sorted(row.items()))


def _cmp_rows(ctx, kind, where, got, exp, rel=1e-9):
    if len(got) != len(exp):
        ctx.fail(kind + "-len", f"{where}: {len(got)} rows, expected {len(exp)}")
        return
    pairs = list(zip(got, exp))
    if not all(g.keys() == e.keys() and all(B.same_value(g[k], e[k], rel) for k in e) for g, e in pairs):
        pairs = list(zip(sorted(got, key=_rowkey), sorted(exp, key=_rowkey)))  # a chart is a set of rows
    for g, e in pairs:
        if set(g) != set(e):
            ctx.fail(kind + "-columns", f"{where}: columns {sorted(g)} expected {sorted(e)}")
            return
        for k in e:
            if not B.same_value(g[k], e[k], rel):
                ctx.fail(f"{kind}-{k}", f"{where}: {k} got {g[k]!r} expected {e[k]!r} (row {e})")
                return


def _cmp_content(ctx, kind, got, exp, rel=1e-9):
    if got["kind"] != exp["kind"]:
        ctx.fail(kind + "-type", f"{got['kind']} vs {exp['kind']}")
        return
    skip = UNASSERTED_META.get(exp["kind"], set())
    for k, v in exp["meta"].items():
        if k in skip:
            continue
        g = got["meta"].get(k)
        if isinstance(v, dict) and "__list__" in v:
            _cmp_rows(ctx, f"{kind}-meta-{k}", k, g["rows"], v["rows"], rel)
        elif not B.same_value(g, v, rel):
            ctx.fail(f"{kind}-meta-{k}", f"{exp['kind']}.{k} got {g!r} expected {v!r}")
    if "maps" in exp:
        if len(got["maps"]) != len(exp["maps"]):
            ctx.fail(kind + "-map-count", f"{len(got['maps'])} vs {len(exp['maps'])}")
            return
        for gm, em in zip(got["maps"], exp["maps"]):
            _cmp_content(ctx, kind, gm, em, rel)
        return
    for name, rows in exp["lists"].items():
        _cmp_rows(ctx, f"{kind}-{name}", name, got["lists"].get(name, []), rows, rel)


def _stats(chart):
    maps = chart["maps"] if "maps" in chart else [chart]
    holds = sum(len(m["lists"].get("holds", [])) for m in maps)
    bpms = max(len(m["lists"].get("bpms", [])) for m in maps)
    empty = any(len(v) == 0 for m in maps for v in m["lists"].values())
    return holds, bpms, empty


def check_model(case, ctx):
    chart, r, r2 = case["chart"], case["r"], case["r2"]
    obj = _build(chart)
    if chart["game"] == "sm" and not chart.get("generic") and case.get("file_num", "float") != "float":
        import numpy as np

        typed = False
        for k in ("offset", "sample_start", "sample_length"):
            v = getattr(obj, k)
            if v is not None and float(v).is_integer():
                setattr(obj, k, int(v) if case["file_num"] == "int" else np.int64(v))
                typed = typed or v != 0
        ctx.label("sm-file-level-times-typed-" + case["file_num"], typed)
    before_strict = B.snapshot(obj)
    before = B.content(obj)
    holds, bpms, empty = _stats(chart)
    ctx.label("generic-MapSet-of-" + chart["game"], bool(chart.get("generic")))
    ctx.nt(r != 1.0 and holds >= 1 and bpms >= 2)
    ctx.label("game=" + chart["game"])
    ctx.label("has-empty-list", empty)
    ctx.label("r=1", r == 1.0)
    ctx.label("mapset", "maps" in chart)

    rated = ctx.call("rate", obj.rate, r)
    if type(rated) is not type(obj):
        ctx.fail("result-type", f"{type(rated).__name__} vs {type(obj).__name__}")
        return
    if rated is obj:
        ctx.fail("same-object", "rate returned its argument")
    if B.snapshot(obj) != before_strict:
        ctx.fail("input-modified", "the chart passed to rate() changed")
    _cmp_content(ctx, "scaled", B.content(rated), _expected(before, r))

    # identity
    one = ctx.call("rate(1)", obj.rate, 1.0)
    _cmp_content(ctx, "identity", B.content(one), before)

    # composition
    ab = ctx.call("rate(a*b)", obj.rate, r * r2)
    a_b = ctx.call("rate(a).rate(b)", rated.rate, r2)
    _cmp_content(ctx, "compose", B.content(a_b), B.content(ab), rel=1e-9)

    # the result is a new chart: editing it does not reach the original
    def _edit(x):
        for m in (x.maps if hasattr(x, "maps") else [x]):
            st_ = m.stack()
            st_.offset += 12345.0
            st_.bpm *= 3.0

    ctx.call("edit-result", _edit, rated)
    if B.snapshot(obj) != before_strict:
        ctx.fail("result-shares-state", "editing the rated chart changed the original")



# --------------------------------------------------------------------------- #
# rate -> write: the written file of the rated chart denotes the scaled timeline
# (osu and Quaver here; StepMania and BMS rated histories are written in C03 / C05's own checks)
# --------------------------------------------------------------------------- #
WRITE_RATES = [0.5, 0.75, 1.25, 1.5, 2.0]
wrate_st = st.one_of(st.sampled_from(WRITE_RATES), st.floats(0.25, 4.0, allow_nan=False).map(lambda x: round(x, 3)))


@st.composite
def write_osu_case(draw, tier):
    from vlib.gen import osu as G

    chart = draw(G.chart_strategy(tier, kind="memory", allow_negative_values=True, max_notes=16 if tier == "quick" else None))
    return dict(chart=chart, r=draw(wrate_st))


def _scale_osu(can, r):
    e = copy.deepcopy(can)
    for name in ("hits", "holds", "bpms", "svs", "samples"):
        for o in e[name]:
            o["offset"] = o["offset"] / r
            if "length" in o:
                o["length"] = o["length"] / r
            if "bpm" in o:
                o["bpm"] = o["bpm"] * r
    e["meta"]["preview_time"] = e["meta"]["preview_time"] / r
    return e


def check_write_osu(case, ctx):
    from vlib.gen import osu as G
    from vlib.props import C01
    from vlib.ref import osu as R

    chart, r = case["chart"], case["r"]
    can = G.canonical(chart)
    exp = _scale_osu(can, r)
    ctx.nt(r != 1.0 and len(can["holds"]) >= 1 and len(can["bpms"]) >= 2)
    ctx.label("r<1", r < 1)
    ctx.label("r>1", r > 1)
    ctx.label("has-sv", bool(can["svs"]))
    ctx.label("has-samples", bool(can["samples"]))
    m = ctx.call("build", G.build, chart)
    rated = ctx.call("rate", m.rate, r)
    lines = C01._write_map(ctx, rated, False)
    w = C01._strict(ctx, lines, "rated-osu-malformed")
    rules = dict(C01.G6_RULES, preview_time="trunc")
    C01._report(ctx, "rated-osu", R.diff_charts(C01._ascii_meta(exp), w, time="trunc", rel=1e-9, meta_rules=rules))


@st.composite
def write_qua_case(draw, tier):
    from vlib.gen import qua as Q

    chart = draw(Q.chart_strategy(tier, document=False, times="int", default_rows=False, max_notes=16 if tier == "quick" else None))
    return dict(chart=chart, r=draw(wrate_st))


def _scale_qua(can, r, k=1):
    """offsets and lengths * k / r, bpm * r / k (k: integer pre-stretch keeping entries >= 2 ms apart after the rate)."""
    e = copy.deepcopy(can)
    for name in ("hits", "holds", "bpms", "svs"):
        for o in e[name]:
            o["offset"] = o["offset"] * k / r
            if "length" in o:
                o["length"] = o["length"] * k / r
            if o.get("bpm") is not None:
                o["bpm"] = o["bpm"] * r / k
    return e


def check_write_qua(case, ctx):
    from vlib.gen import qua as Q
    from vlib.props import C06

    chart, r = case["chart"], case["r"]
    k = max(1, math.ceil(r))
    base = _scale_qua(Q.canonical(chart), 1.0, k)  # stretched source: integer times, entries >= 2k ms apart
    pre = dict(chart)
    for name in ("hits", "holds", "bpms", "svs"):
        pre[name] = [dict(o, **{f: o[f] * k for f in ("offset", "length") if f in o}) for o in chart[name]]
    exp = _scale_qua(Q.canonical(pre), r)
    ctx.nt(r != 1.0 and len(exp["holds"]) >= 1 and len(exp["bpms"]) >= 2)
    ctx.label("r<1", r < 1)
    ctx.label("r>1", r > 1)
    ctx.label("has-sv", bool(exp["svs"]))
    m = ctx.call("build", Q.build, pre)
    rated = ctx.call("rate", m.rate, r)
    text, _ = C06._write(ctx, "write", rated, "str")
    skip = [kk for kk in ("SongPreviewTime",)]
    meta_keys = [kk for kk in Q.META_ATTR if kk not in skip]
    C06._check_written(ctx, "rated-qua", text, exp, meta_keys=meta_keys)


SUBS = [
    Sub("model", check_model, strategy=case_st, examples={"quick": 250, "thorough": 1200}, shards={"quick": 6, "thorough": 16}),
    Sub("write-osu", check_write_osu, strategy=write_osu_case, examples={"quick": 120, "thorough": 700}, shards={"quick": 4, "thorough": 16}),
    Sub("write-qua", check_write_qua, strategy=write_qua_case, examples={"quick": 120, "thorough": 700}, shards={"quick": 4, "thorough": 16}),
]

MANIFEST = dict(
    technique="property-based testing: generated charts of all five games vs a plain-data scaling model; metamorphic relations rate(1)=id, rate(a).rate(b)=rate(ab); write-back through independent reference parsers",
    level_text="Exploration: generated charts/mapsets of all five games (empty lists, ties, negative and fractional times) and rates are compared field by field with a plain-data model, with a strict before/after snapshot of the argument; the written file of the rated chart is parsed by reference interpreters that share no code with reamber.",
    level_note="trusted: vlib/gen/build.py views (rows/content/snapshot), the reference parsers for the write-back sub-check; Quaver preview time and O2Jam header bpm unasserted",
)
