"""C06 Quaver file and in-memory chart denote the same chart, both directions."""
from __future__ import annotations

import json
import os
import tempfile

from hypothesis import strategies as st

from vlib.core import Sub
from vlib.gen.qua import STRING_KEYS, build, canonical, chart_strategy, needs_quoting, render, snapshot
from vlib.ref import qua as ref

PROPERTY_ID = "C06"
RULE = (
    "Sub-check 'read': Hypothesis-generated plain-data charts (keys 4/7/8 + optional scratch lane, <=24 notes "
    "(thorough 120) placed by walking each column so that notes never overlap, hits only / holds only / both / no "
    "notes, <=5 timing points, <=6 SVs, shuffled lists, identical duplicates, times int or multiples of 1/8 ms incl. "
    "0 and negatives, metadata subset with strings that need YAML quoting / unicode / control characters) rendered "
    "to .qua text by vlib/gen/qua.render with the format's freedom: StartTime omitted at time 0 (no/some/all items), "
    "KeySounds omitted/empty/non-empty, Bpm or Multiplier omitted, '{}' items, empty sections '[]', key order, "
    "section order, hit/hold interleaving, flow vs block items, sequence indentation, CRLF, comments, '---', plain/"
    "single/double quoting; the renderer is self-checked in every case (ref.parse(render(c)) == c, else harness "
    "error). Entry through read(str) / read(list of lines) / read_file(temp file). Oracle: yaml.safe_load + "
    "vlib/ref/qua.py. Sub-check 'memory': the same generator without file hints and with arbitrary float times, "
    "built through public constructors (item lists in shuffled order, XList.empty(n) + column assignment incl. "
    "all-default rows, DataFrame), written with write() / write_file(). "
    "Non-trivial = the document omits an item key (StartTime/KeySounds/Bpm/Multiplier), or the chart has a hold, or "
    "a metadata string that needs YAML quoting."
)
ASSUMPTIONS = [
    "PyYAML safe_load is the trusted YAML reader; vlib/ref/qua.py (hand-written interpretation) is the chart meaning",
    "omitted Bpm / Multiplier: only 'finite number, same on re-read, survives write+read' is asserted (format default not checkable offline)",
    "omitted metadata keys (incl. Mode): no value asserted, only that what was read survives the round trip",
    "all three sections are present (possibly '[]'); Lane is always present; no top-level or item keys outside the ones reamber models",
    "holds in documents have EndTime > 0 and >= StartTime + 1 (Quaver itself treats EndTime <= 0 as 'not a long note')",
    "inside one list, entries that are not identical are >= 2 ms apart (per column for notes) so that 'moved < 1 ms' has a unique matching",
    "times |t| <= 1e7 ms, finite bpm/multiplier; tags contain no white space",
    "anchors/aliases in the written YAML (shared KeySounds lists) are accepted: safe_load resolves them",
]


# --------------------------------------------------------------------------- #
# strategies
# --------------------------------------------------------------------------- #
@st.composite
def read_case(draw, tier):
    chart = draw(chart_strategy(tier, document=True))
    via = draw(st.sampled_from(["str", "str", "str", "lines", "file"]))
    return {"chart": chart, "via": via}


@st.composite
def memory_case(draw, tier):
    chart = draw(chart_strategy(tier, document=False))
    via = draw(st.sampled_from(["str", "str", "str", "file"]))
    return {"chart": chart, "via": via}


# --------------------------------------------------------------------------- #
# helpers
# --------------------------------------------------------------------------- #
def _read(ctx, what, text, via):
    from reamber.quaver.QuaMap import QuaMap

    if via == "str":
        return ctx.call(what, QuaMap.read, text)
    if via == "lines":
        return ctx.call(what, QuaMap.read, text.split("\n"))
    with tempfile.TemporaryDirectory(prefix="c06_") as d:
        path = os.path.join(d, "chart.qua")
        with open(path, "w", encoding="utf-8", newline="") as fh:
            fh.write(text)
        return ctx.call(what + "_file", QuaMap.read_file, path)


def _write(ctx, what, m, via):
    """-> (text, re-read chart or None).  With via == 'file' the chart is written with
    write_file and read back with read_file from the same temp file."""
    from reamber.quaver.QuaMap import QuaMap

    if via != "file":
        return ctx.call(what, m.write), None
    with tempfile.TemporaryDirectory(prefix="c06_") as d:
        path = os.path.join(d, "chart.qua")
        ctx.call(what + "_file", m.write_file, path)
        with open(path, "r", encoding="utf-8", newline="") as fh:
            text = fh.read()
        m2 = ctx.call("read_file(written)", QuaMap.read_file, path)
    return text, m2


def _report(ctx, prefix, diffs):
    for kind, msg in diffs:
        ctx.fail(f"{prefix}:{kind}", msg)
    return not diffs


def _check_written(ctx, prefix, text, expected, **diff_kw):
    """Write-direction clauses for one written text.  Returns the chart it denotes or None."""
    if not isinstance(text, str):
        ctx.fail(f"{prefix}:not-text", f"write returned {type(text).__name__}")
        return None
    try:
        doc = ref.load(text)
    except Exception as e:  # noqa: BLE001 - any loader error = the written text is not a YAML mapping
        ctx.fail(f"{prefix}:unloadable", f"{type(e).__name__}: {str(e)[:300]}\n{text[:400]}")
        return None
    ok = _report(ctx, f"{prefix}:format", ref.document_problems(doc))
    try:
        wchart = ref.interpret(doc)
    except Exception as e:  # noqa: BLE001
        if ok:
            ctx.fail(f"{prefix}:uninterpretable", f"{type(e).__name__}: {str(e)[:300]}")
        return None
    _report(ctx, prefix, ref.chart_diff(wchart, expected, time_lt=1.0, **diff_kw))
    return wchart


def _canon(x) -> str:
    return json.dumps(x, sort_keys=True, default=repr)


def _labels(ctx, chart, document):
    c = canonical(chart)
    ctx.label(f"keys={c['keys']}")
    nh, nl = len(c["hits"]), len(c["holds"])
    ctx.label("notes=" + ("none" if nh + nl == 0 else "hits-only" if nl == 0 else "holds-only" if nh == 0 else "both"))
    ctx.label("empty:TimingPoints", not c["bpms"])
    ctx.label("empty:SliderVelocities", not c["svs"])
    ctx.label("keysounds-nonempty", any(n["keysounds"] for n in c["hits"] + c["holds"]))
    allt = [n["offset"] for n in c["hits"] + c["holds"] + c["bpms"] + c["svs"]] + [n["length"] for n in c["holds"]]
    ctx.label("float-times", any(isinstance(t, float) and t != int(t) for t in allt))
    ctx.label("negative-times", any(t < 0 for t in allt))
    lanes = [n["column"] for n in c["hits"] + c["holds"]]
    ctx.label("scratch-lane", c["keys"] is not None and any(l >= c["keys"] for l in lanes))
    strings = [v for k, v in c["meta"].items() if k in STRING_KEYS] + [" ".join(c["meta"].get("Tags", []))]
    quoted = any(s != "" and needs_quoting(s) for s in strings)
    ctx.label("quoted-string", quoted)
    ctx.label("non-ascii-string", any(any(ord(ch) > 127 for ch in s) for s in strings))
    ctx.label("tags>=2", len(c["meta"].get("Tags", [])) >= 2)
    ctx.label("meta-nested-list", any(c["meta"].get(k) for k in ("EditorLayers", "CustomAudioSamples", "SoundEffects")))
    omitted = False
    if document:
        def om(name, key):
            return [key not in n["_r"]["keys"] for n in chart[name]]

        hs, ls = om("hits", "StartTime"), om("holds", "StartTime")
        ctx.label("omit:hit.StartTime", any(hs))
        ctx.label("omit:hit.StartTime(all hits)", bool(hs) and all(hs))
        ctx.label("omit:hit.StartTime(some hits)", any(hs) and not all(hs))
        ctx.label("omit:hold.StartTime", any(ls))
        ctx.label("omit:hold.StartTime(all holds)", bool(ls) and all(ls))
        ctx.label("omit:hold.StartTime(some holds)", any(ls) and not all(ls))
        ks = om("hits", "KeySounds") + om("holds", "KeySounds")
        ctx.label("omit:KeySounds", any(ks))
        ctx.label("omit:KeySounds(all)", bool(ks) and all(ks))
        ctx.label("omit:KeySounds(some)", any(ks) and not all(ks))
        ctx.label("omit:Bpm", any(p["bpm"] is None for p in c["bpms"]))
        ctx.label("omit:Multiplier", any(p["multiplier"] is None for p in c["svs"]))
        ctx.label("omit:tp.StartTime", any(om("bpms", "StartTime")))
        ctx.label("omit:sv.StartTime", any(om("svs", "StartTime")))
        ctx.label("item:{}", any(not n["_r"]["keys"] for n in chart["bpms"] + chart["svs"]))
        ctx.label("omit:Mode", c["keys"] is None)
        omitted = any(hs + ls + ks + om("bpms", "StartTime") + om("svs", "StartTime")) or any(
            p["bpm"] is None for p in c["bpms"]
        ) or any(p["multiplier"] is None for p in c["svs"])
        sty = chart.get("style", {})
        ctx.label("layout:flow-items", any(n["_r"].get("flow") for n in chart["hits"] + chart["holds"] + chart["bpms"] + chart["svs"]))
        ctx.label("layout:crlf", sty.get("eol") == "\r\n")
        ctx.label("layout:reordered-top", sty.get("order") is not None and sty["order"][-3:] != list(ref.SECTIONS))
        ctx.label("layout:seq-indent", sty.get("seq_indent") == 2)
    else:
        b = chart.get("build", {})
        for name in ("hits", "holds", "bpms", "svs"):
            ctx.label(f"build:{name}={b.get(name, 'ctor')}", bool(c[name]))
        ctx.label("build:default-rows", bool(b.get("default_rows")) and any(c[n] for n in ("hits", "holds", "bpms", "svs")))
        ctx.label("unsorted", any([n["offset"] for n in c[name]] != sorted(n["offset"] for n in c[name]) for name in ("hits", "holds", "bpms", "svs")))
    ctx.nt(omitted or nl > 0 or quoted)


# --------------------------------------------------------------------------- #
# sub-check: document -> chart -> document
# --------------------------------------------------------------------------- #
def check_read(case, ctx):
    chart = case["chart"]
    text = render(chart)
    exp = canonical(chart)
    back = ref.parse(text)
    ctx.harness(back == exp, f"renderer self-check failed: parse(render(c)) != c\n{_canon(back)[:600]}\n{_canon(exp)[:600]}\n{text[:600]}")
    _labels(ctx, chart, True)
    ctx.label("via=" + case["via"])

    # (1) read direction against the reference
    m = _read(ctx, "read", text, case["via"])
    got = ctx.call("snapshot", snapshot, m)
    _report(ctx, "read", ref.chart_diff(got, exp))
    if ctx.failures:
        ctx.stop()
    if any(p["bpm"] is None for p in exp["bpms"]) or any(p["multiplier"] is None for p in exp["svs"]) or exp["keys"] is None:
        # omitted Bpm / Multiplier / Mode: no number is demanded, but the answer must not vary
        again = ctx.call("snapshot", snapshot, _read(ctx, "read", text, "str"))
        if _canon(again) != _canon(got):
            ctx.fail("read:not-deterministic", f"{_canon(again)[:400]} vs {_canon(got)[:400]}")

    # (2) write direction: the written document is well-formed and denotes what was read
    w, m2 = _write(ctx, "write", m, case["via"])
    wchart = _check_written(ctx, "write", w, got)
    if ctx.failures or wchart is None:
        ctx.stop()

    # (3) inverses
    if m2 is None:
        m2 = _read(ctx, "read(written)", w, "str")
    got2 = ctx.call("snapshot(reread)", snapshot, m2)
    _report(ctx, "read-write-read", ref.chart_diff(got2, got, time_lt=1.0))
    if ctx.failures:
        ctx.stop()
    w2 = ctx.call("write(reread)", m2.write)
    wchart2 = _check_written(ctx, "write2", w2, got2)
    if wchart2 is not None:
        _report(ctx, "write-read-write", ref.chart_diff(wchart2, wchart, time_lt=1.0))


# --------------------------------------------------------------------------- #
# sub-check: in-memory chart -> document -> chart
# --------------------------------------------------------------------------- #
def check_memory(case, ctx):
    chart = case["chart"]
    exp = canonical(chart)
    _labels(ctx, chart, False)
    ctx.label("via=" + case["via"])

    m = ctx.call("build", build, chart)
    got = ctx.call("snapshot", snapshot, m)
    _report(ctx, "build", ref.chart_diff(got, exp))
    if ctx.failures:
        ctx.stop()

    # (2) write direction against the description the chart was built from
    w, m2 = _write(ctx, "write", m, case["via"])
    wchart = _check_written(ctx, "write", w, exp)
    if wchart is not None:
        # every metadata field of the object (also the defaults) is in the document as held
        _report(ctx, "write", ref.chart_diff(wchart, got, time_lt=1.0, parts=("meta",)))
    if ctx.failures or wchart is None:
        ctx.stop()

    # writing is repeatable: the same chart written a second time denotes the same chart (a writer that edits the
    # chart it is given - e.g. the 0-based -> 1-based lane shift done in place - passes every single-write clause)
    w_again = ctx.call("write(again)", m.write)
    _check_written(ctx, "write-again", w_again, exp)
    if ctx.failures:
        ctx.stop()

    # (3) read-after-write gives the chart back; a second write denotes the same chart
    if m2 is None:
        m2 = _read(ctx, "read(written)", w, "str")
    got2 = ctx.call("snapshot(reread)", snapshot, m2)
    _report(ctx, "write-read", ref.chart_diff(got2, exp, time_lt=1.0))
    _report(ctx, "write-read", ref.chart_diff(got2, got, time_lt=1.0, parts=("meta",)))
    if ctx.failures:
        ctx.stop()
    w2 = ctx.call("write(reread)", m2.write)
    wchart2 = _check_written(ctx, "write2", w2, got2)
    if wchart2 is not None:
        _report(ctx, "write-read-write", ref.chart_diff(wchart2, wchart, time_lt=1.0))


# --------------------------------------------------------------------------- #
# sub-check: the real .qua files shipped with the repository (read direction, then one write/read)
# --------------------------------------------------------------------------- #
BUNDLED_DIR = os.path.join(os.environ.get("VERIF_REPO", "/repo"), "rsc", "maps", "qua")


def bundled_cases(tier):
    for fn in sorted(os.listdir(BUNDLED_DIR)) if os.path.isdir(BUNDLED_DIR) else []:
        if fn.endswith(".qua"):
            yield dict(file=fn)


def check_bundled(case, ctx):
    from reamber.quaver.QuaMap import QuaMap

    path = os.path.join(BUNDLED_DIR, case["file"])
    with open(path, encoding="utf8") as fh:
        text = fh.read()
    exp = ref.parse(text)
    ctx.label("bundled=" + case["file"])
    ctx.nt(bool(exp["holds"]) and bool(exp["svs"]))
    m = ctx.call("read_file", QuaMap.read_file, path)
    got = ctx.call("snapshot", snapshot, m)
    _report(ctx, "bundled:read", ref.chart_diff(got, exp))
    if ctx.failures:
        ctx.stop()
    w = ctx.call("write", m.write)
    _check_written(ctx, "bundled:write", w, got)


SUBS = [
    Sub("bundled", check_bundled, enumerate=bundled_cases, shards={"quick": 2, "thorough": 2}),
    Sub("read", check_read, strategy=read_case, examples={"quick": 200, "thorough": 1200}, shards={"quick": 8, "thorough": 16}, fuzz={"thorough": 150}),
    Sub("memory", check_memory, strategy=memory_case, examples={"quick": 200, "thorough": 1200}, shards={"quick": 8, "thorough": 16}),
]

MANIFEST = dict(
    technique="property-based testing: Hypothesis-generated plain-data charts rendered to .qua text with the format's syntactic freedom (read direction) or built in memory through public constructors (write direction); oracle = PyYAML safe_load + an independent interpretation of the loaded mapping; round trips in both orders",
    level_text="Exploration: thousands of generated documents and in-memory charts per run agree with the reference in the read direction, write a document that loads, uses only format keys/types, contains no NaN and denotes the same chart within < 1 ms, and round-trip in both orders. Every omitted-key class (none/some/all items), hits-only, holds-only, empty sections, quoting classes and build paths are counted in the evidence labels. Sampling cannot prove absence; histories through the converters are covered by C08/C09. The real .qua files shipped with the repository are read, compared and written back; thorough adds an atheris/libFuzzer campaign on the same strategy.",
    level_note="trusted: PyYAML safe_load, vlib/ref/qua.py (~120 lines), Hypothesis; the renderer is self-checked against the reference in every case; no number is demanded for an omitted Bpm/Multiplier; converter histories are not generated here",
)
