"""C11 Reseating tempo changes onto measure lines keeps every change at its time."""
from __future__ import annotations

import itertools
from fractions import Fraction as F

from hypothesis import strategies as st

from vlib.core import Sub, close, fr, frs

PROPERTY_ID = "C11"
RULE = (
    "Tempo lists with first change at measure 0 beat 0, metronome 4 (the only value any caller passes). "
    "Exhaustive: every set of 2..3 change positions on the half-beat grid within 12 beats x 3 bpm values each "
    "(quick; 2..4 changes within 16 beats in thorough). Random (Hypothesis): 1..8 changes at cumulative positions "
    "with denominators 1..96, bpm from nice values and floats in [1,1000], any initial offset, through the three "
    "entry points reseat_bpm_changes_snap(list), from_bpm_changes_snap(offset, list, reseat=True), TimingMap.reseat(). "
    "Sub-check 'sliver': positions a hair (1/10000 .. 1/100 beat) past a measure or beat line, both sides of the re-seater's "
    "two extend thresholds (0.001 measure, 0.001 beat), through the two entry points that take positions. Sub-check 'tie': "
    "two changes at one position (the later one wins). "
    "Oracle: own integration of input and output (each output point with its own metronome). "
    "Non-trivial = at least one change off a measure line."
)
ASSUMPTIONS = [
    "metronome 4 on input (SMMap/BMSMap readers pass nothing else); outputs containing another metronome are not re-seated a second time (excluded.mixed_metronome_output)",
    "float comparisons: rel 1e-6 on ms and bpm",
]

BPMS3 = [60.0, 120.0, 200.0]


def _integrate(init, pts):
    """pts: (bpm, metronome, measure, beat) sorted -> ms of each point"""
    t = float(init)
    out = [t]
    for (b0, m0, me0, be0), (b1, m1, me1, be1) in zip(pts[:-1], pts[1:]):
        beats = (me1 - me0) * F(m0) + (F(be1) - F(be0))
        t += float(beats) * 60000.0 / b0
        out.append(t)
    return out


def _bpm_at(pts, times, t):
    cur = None
    for p, x in zip(pts, times):
        if x <= t + 1e-6 * max(1.0, abs(t)):
            cur = p[0]
    return cur


def _same_step(pts1, t1, pts2, t2):
    allp = sorted(set(t1) | set(t2))
    for a, b in zip(allp, allp[1:] + [allp[-1] + 1000.0]):
        if b - a < 1e-6 * max(1.0, abs(a), abs(b)) + 1e-6:
            continue
        mid = (a + b) / 2
        x, y = _bpm_at(pts1, t1, mid), _bpm_at(pts2, t2, mid)
        if x is None or y is None or abs(x - y) > 1e-6 * max(abs(x), abs(y)):
            return (mid, x, y)
    return None


def enum_cases(tier):
    span, kmax = (24, 3) if tier == "quick" else (32, 4)
    grid = [F(k, 2) for k in range(1, span + 1)]
    for k in range(2, kmax + 1):
        for combo in itertools.combinations(grid, k - 1):
            for bp in itertools.product(BPMS3, repeat=k):
                pos = [F(0)] + list(combo)
                yield dict(init=0.0, entry="list", changes=[[b, frs(p)] for b, p in zip(bp, pos)])


bpm_st = st.one_of(st.sampled_from([60.0, 120.0, 173.5, 200.0]), st.floats(1.0, 1000.0, allow_nan=False), st.integers(20, 400).map(float))


# the re-seater's extend threshold is 0.001 of a measure (= 1/250 beat) past a measure line and 0.001 beat past a beat line
SLIVERS = [F(1, 10000), F(1, 1001), F(1, 1000), F(1, 999), F(3, 1000), F(1, 500), F(1, 250), F(1, 249), F(1, 200), F(1, 100)]


def sliver_case(tier):
    return random_case(tier, modes=("sliver", "sliver", "frac", "whole-interval", "to-measure-line"))


def tie_case(tier):
    return random_case(tier, modes=("tie", "frac", "frac", "whole-interval", "to-measure-line"))


@st.composite
def random_case(draw, tier, modes=("frac", "frac", "whole-interval", "to-measure-line")):
    MODES = list(modes)
    k = draw(st.integers(1, 8))
    den = draw(st.sampled_from([1, 2, 3, 4, 5, 6, 7, 8, 12, 16, 24, 32, 48, 96]))
    pos = [F(0)]
    for _ in range(k - 1):
        mode = draw(st.sampled_from(MODES))
        if mode == "sliver":
            # a hair past a measure or beat line, 1..3 measures / 1..7 beats after the previous change: the two
            # "extend" branches of the re-seater (threshold 0.001 measure = 1/250 beat), both sides of the threshold
            eps = draw(st.sampled_from(SLIVERS))
            if draw(st.booleans()):
                line = (pos[-1] // 4 + draw(st.integers(1, 3))) * 4
            else:
                line = pos[-1] // 1 + draw(st.integers(1, 7))
            pos.append(line + eps)
        elif mode == "tie":
            pos.append(pos[-1])  # two changes at one position (the later one wins from there on)
        elif mode == "whole-interval":
            pos.append(pos[-1] + 4 * draw(st.integers(1, 3)))
        elif mode == "to-measure-line":
            pos.append((pos[-1] // 4 + draw(st.integers(1, 3))) * 4)
        else:
            pos.append(pos[-1] + F(draw(st.integers(1, 6 * den)), den))
    bp = [draw(bpm_st) for _ in pos]
    init = draw(st.one_of(st.sampled_from([0.0, -1234.5, 500.0]), st.floats(-1e6, 1e6, allow_nan=False)))
    # TimingMap.reseat() goes through milliseconds and re-derives positions with the snapper (grid 1/1..1/96 beat):
    # positions finer than that grid (the slivers) are only meaningful for the two entry points that take positions
    entry = draw(st.sampled_from(["list", "from", "reseat"] if "sliver" not in MODES else ["list", "from"]))
    # the rows after the first may be handed over in any order (the re-seater sorts by position itself)
    order = draw(st.sampled_from([None, None, None, "reverse-tail", "rotate-tail"]))
    if order:
        return dict(init=init, entry=entry, order=order, changes=[[b, frs(p)] for b, p in zip(bp, pos)])
    return dict(init=init, entry=entry, changes=[[b, frs(p)] for b, p in zip(bp, pos)])


def check(case, ctx):
    from reamber.algorithms.timing.TimingMap import TimingMap
    from reamber.algorithms.timing.utils.BpmChangeSnap import BpmChangeSnap
    from reamber.algorithms.timing.utils.snap import Snap

    met = 4
    pos = [fr(p) for _, p in case["changes"]]
    bp = [float(b) for b, _ in case["changes"]]
    inp = [(b, met, int(p // met), p % met) for b, p in zip(bp, pos)]
    entry = case["entry"]
    init = float(case["init"]) if entry != "list" else 0.0
    t_in = _integrate(init, inp)
    off_measure = any(p % met != 0 for p in pos)
    ties = any(a == b for a, b in zip(pos, pos[1:]))  # two changes at one position: the later one wins from there on
    ctx.label("tie", ties)
    ctx.nt(off_measure)
    ctx.label("entry=" + entry)
    ctx.label("off-measure", off_measure)
    ctx.label("k=%d" % min(len(pos), 5))
    ctx.label("neg-init", init < 0)
    sl = [p % 1 for p in pos if 0 < p % 1 <= F(1, 100)]
    ctx.label("sliver<=threshold", any(x <= F(1, 250) for x in sl))
    ctx.label("sliver>threshold", any(x > F(1, 250) for x in sl))
    ctx.label("sliver-past-measure-line", any(0 < p % 4 <= F(1, 250) for p in pos))
    ctx.label("sliver-past-beat-line(F26 class)", _first_beat_sliver(case) is not None)

    L = [BpmChangeSnap(b, m, Snap(me, be, m)) for b, m, me, be in inp]
    if case.get("order") and len(L) > 2 and not ties:
        tail = L[1:]
        L = [L[0]] + (tail[::-1] if case["order"] == "reverse-tail" else tail[len(tail) // 2:] + tail[: len(tail) // 2])
        ctx.label("rows-handed-over-out-of-order")
    if entry == "list":
        R = ctx.call("reseat_bpm_changes_snap", TimingMap.reseat_bpm_changes_snap, L)
        out = [(float(r.bpm), r.metronome, r.snap.measure, r.snap.beat) for r in R]
        for r in out:
            if r[3] != 0:
                ctx.fail("not-on-measure", f"{r}")
        ms = [r[2] for r in out]
        if any((b < a) if ties else (b <= a) for a, b in zip(ms, ms[1:])):
            ctx.fail("measure-order", f"{ms}")
        if out and (out[0][2] != 0):
            ctx.fail("first-not-measure-0", f"{out[0]}")
        t_out = _integrate(init, out)
    else:
        if entry == "from":
            tm = ctx.call("from_bpm_changes_snap", TimingMap.from_bpm_changes_snap, init, L, True)
        else:
            tm0 = ctx.call("from_bpm_changes_snap(False)", TimingMap.from_bpm_changes_snap, init, L, False)
            tm = ctx.call("TimingMap.reseat", tm0.reseat)
        bco = tm.bpm_changes_offset
        t_out = [float(b.offset) for b in bco]
        bcs = ctx.call("bpm_changes_snap", tm.bpm_changes_snap)
        out = [(float(o.bpm), o.metronome, s.snap.measure, s.snap.beat) for o, s in zip(bco, bcs)]
        for (b, m, me, be), t in zip(out, t_out):
            if be != 0:
                ctx.fail("not-on-measure", f"{(b, m, me, be)} at {t}")
        if any((b < a) if ties else (b <= a) for a, b in zip(t_out, t_out[1:])):
            ctx.fail("time-order", f"{t_out}")
        # the snap view and the offset view of the result must agree
        t_chk = _integrate(t_out[0], out)
        for a, b in zip(t_out, t_chk):
            if not close(a, b):
                ctx.fail("snap-offset-views-disagree", f"{t_out} vs {t_chk}")
                break

    # every original change time is still a tempo point
    for i, t in enumerate(t_in):
        if not any(close(t, x) for x in t_out):
            ctx.fail("missing-change-time", f"change {i} at {t} not in {t_out}")
    # size: at most one extra point per original interval
    if len(out) > 2 * len(inp) - 1:
        ctx.fail("too-many-points", f"{len(out)} > {2 * len(inp) - 1}")
    for i in range(len(t_in)):
        lo = t_in[i]
        hi = t_in[i + 1] if i + 1 < len(t_in) else float("inf")
        eps = 1e-6 * max(1.0, abs(lo))
        inside = [x for x in t_out if lo + eps < x < hi - (1e-6 * max(1.0, abs(hi)) if hi != float("inf") else 0)]
        if len(inside) > 1:
            ctx.fail("more-than-one-insert", f"interval {i} [{lo},{hi}] has {inside}")
    # bpm kept where a whole number of measures follows (or it is the last change)
    for i, b in enumerate(bp):
        if i + 1 < len(bp) and pos[i + 1] == pos[i]:
            continue  # superseded at once by the next change at the same position
        if i == len(bp) - 1 or ((pos[i + 1] - pos[i]) % met == 0):
            got = _bpm_at(out, t_out, t_in[i])
            if got is None or abs(got - b) > 1e-6 * b:
                ctx.fail("bpm-not-kept", f"change {i}: bpm {b} -> {got}")

    # re-seating the seated list leaves the step function unchanged
    if any(r[1] != 4 for r in out):
        ctx.label("excluded.mixed_metronome_output")
        return
    L2 = [BpmChangeSnap(b, m, Snap(int(me), F(be), m)) for b, m, me, be in out]
    R2 = ctx.call("reseat-again", TimingMap.reseat_bpm_changes_snap, L2)
    out2 = [(float(r.bpm), r.metronome, r.snap.measure, r.snap.beat) for r in R2]
    t2 = _integrate(t_out[0], out2)
    d = _same_step(out, t_out, out2, t2)
    if d:
        ctx.fail("not-idempotent", f"bpm(t={d[0]}) {d[1]} -> {d[2]}")


def _first_beat_sliver(case):
    """index of the first change that lies within (0, 0.001] beat past a beat line which is not a measure line, counted
    from the previous change (the re-seater's 'extend by metronome' branch), or None"""
    pos = [fr(p) for _, p in case["changes"]]
    for i, (a, b) in enumerate(zip(pos, pos[1:]), start=1):
        d = b - a
        if 0 < d % 1 <= F(1, 1000) and (d // 1) % 4 != 0:
            return i
    return None


def _beat_sliver_time_lost(case, failure):
    """F26: the failing change / interval is at or after the first beat-line sliver of the list."""
    import re

    j = _first_beat_sliver(case)
    if j is None:
        return False
    m = re.search(r"(change|interval) (\d+)", failure.msg)
    if not m:
        return False
    idx = int(m.group(2))
    return idx >= (j if m.group(1) == "change" else j - 1)


KNOWN_PREDICATES = {"beat_sliver_time_lost": _beat_sliver_time_lost}

SUBS = [
    Sub("exhaustive-halfbeat", check, enumerate=enum_cases, shards={"quick": 8, "thorough": 16}, exhaustive=True),
    Sub("random", check, strategy=random_case, examples={"quick": 2500, "thorough": 12000}, shards={"quick": 8, "thorough": 16}),
    Sub("tie", check, strategy=tie_case, examples={"quick": 1200, "thorough": 6000}, shards={"quick": 4, "thorough": 16}),
    Sub("sliver", check, strategy=sliver_case, examples={"quick": 2000, "thorough": 8000}, shards={"quick": 8, "thorough": 16}),
]

MANIFEST = dict(
    technique="exhaustive enumeration on the half-beat grid + Hypothesis-generated tempo lists; oracle = own integration of input and output timelines",
    level_text="Exploration with an exhaustive core: every 2..3-change list on the half-beat grid within 12 beats (x27 bpm assignments; 7 668 lists) is checked in the quick tier, 2..4 changes within 16 beats in thorough, plus tens of thousands of random lists on grids 1/1..1/96 through all three entry points, lists with positions a hair past measure/beat lines (the re-seater's two 'extend' branches, both sides of both thresholds) and lists with two changes at one position. The five clauses of the statement are each a separate failure kind; one known finding (F26) is matched per failing case.",
    level_note="trusted: 30 lines of Fraction integration in the module; domain: metronome 4, first change at (0,0); outputs that contain a non-4 metronome are not re-seated again (counted as a label); TimingMap.reseat() (which goes through ms and the snapper) is only fed positions on the snap grid",
)
