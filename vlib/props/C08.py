"""C08 Converting between games preserves chart content exactly, from any source state."""
from __future__ import annotations

import math
import operator
import os

from hypothesis import strategies as st

from vlib import core
from vlib.core import Sub
from vlib.gen import build as B

PROPERTY_ID = "C08"
RULE = (
    "Hypothesis-generated source charts of all five games (osu, Quaver, BMS maps; StepMania and O2Jam mapsets of 1..3 "
    "charts; some lists empty, ties, negative/fractional times) built through the public constructors ('built' "
    "sub-check) or read from rendered .osu/.qua text ('read' sub-check), followed by a history of 0..4 steps given as "
    "plain data: sorted(reverse), after/before filters, append, stack arithmetic (+=, *=), conditional stack assignment "
    "(stack.loc[cond, prop] = / += / *=), rate(r), deepcopy. The same steps are applied to a plain-Python row model; "
    "model and chart are compared after every step (harness sanity). Then every converter of the source game runs "
    "(16 + O2JToSM.convert_merge; after the last step, or after every step when the case says so) with generated "
    "move_right_by and raise_bad_mode. Oracle: multisets of (offset, column+shift[, length]) / (offset, bpm) / "
    "(offset, multiplier) of each target chart equal the model's (rel 1e-12), no NaN/None cell, target columns == the "
    "target list class's declared fields, one target chart per source chart in order, title/artist/creator/difficulty "
    "token from the source, strict snapshot of the source unchanged; a key count the target cannot hold must raise "
    "ValueError when raise_bad_mode is left on. "
    "Non-trivial = the history contains at least one label-changing step (sorted, filter, stack op, rate) or the "
    "source has a hold and an SV."
)
ASSUMPTIONS = [
    "metadata is ASCII (shift_jis / unidecode are the identity on it); BMS bytes are compared decoded",
    "metadata clauses are asserted only for fields both games have and the converter maps: X->StepMania carries no "
    "difficulty name except BMSToSM (description); BMS has no creator",
    "the bpm metronome, hitsounds/keysounds/samples and file-level fields (audio, preview, offsets, key mode) are not "
    "asserted: the statement names only notes, tempo (time, bpm), SVs and title/artist/creator/difficulty name",
    "key count of BMSToQua / OsuToSM is the one the converter documents: highest used column + 1; a BMS chart without "
    "any note has no key count: BMSToQua must then raise ValueError with raise_bad_mode on and return a chart with mode "" otherwise (F30); OsuToSM on a note-less chart runs with raise_bad_mode=False",
    "O2JToBMS's documented default move_right_by=1 counts as the explicit shift when the argument is omitted",
    "a target chart is matched to the source chart at the same position",
    "rows are compared as multisets (row order and row labels are not part of the statement)",
    "history steps that raise or disagree with the plain model are counted as excluded (they belong to C12/C13/C16)",
    "'read' sub-check: the freshly read chart is the input, its rows (by meaning) start the model; charts whose read "
    "lists hold NaN (Quaver document omitting Bpm/Multiplier) or non-ASCII metadata are excluded",
]

# --------------------------------------------------------------------------- #
# converter table (from the signatures / docstrings in reamber/algorithms/convert)
# --------------------------------------------------------------------------- #
# shape: map = one Map; sms1 = SMMapSet holding one chart; maps = list of Map, one per source chart;
#        smss = list of SMMapSet of one chart each; sms_n = one SMMapSet with one chart per source chart
SPEC = {
    "BMSToOsu": dict(target="osu", shape="map", meta=("title", "artist", "diff")),
    "BMSToQua": dict(target="qua", shape="map", rbm="notes", ok_keys=(4, 7, 8), meta=("title", "artist", "diff")),
    "BMSToSM": dict(target="sm", shape="sms1", meta=("title", "artist", "diff")),
    "O2JToBMS": dict(target="bms", shape="maps", shift=1, meta=("title", "artist", "diff")),
    "O2JToOsu": dict(target="osu", shape="maps", meta=("title", "artist", "creator", "diff")),
    "O2JToQua": dict(target="qua", shape="maps", meta=("title", "artist", "creator", "diff")),
    "O2JToSM": dict(target="sm", shape="smss", meta=("title", "artist", "creator")),
    "O2JToSM.merge": dict(target="sm", shape="sms_n", cls="O2JToSM", fn="convert_merge", meta=("title", "artist", "creator")),
    "OsuToBMS": dict(target="bms", shape="map", shift=0, meta=("title", "artist", "diff")),
    "OsuToQua": dict(target="qua", shape="map", rbm="meta", ok_keys=(4, 7, 8), svs=True, meta=("title", "artist", "creator", "diff")),
    "OsuToSM": dict(target="sm", shape="sms1", rbm="notes", ok_keys=(3, 4, 6, 7, 8), meta=("title", "artist", "creator")),
    "QuaToBMS": dict(target="bms", shape="map", shift=0, meta=("title", "artist", "diff")),
    "QuaToOsu": dict(target="osu", shape="map", svs=True, meta=("title", "artist", "creator", "diff")),
    "QuaToSM": dict(target="sm", shape="sms1", meta=("title", "artist", "creator")),
    "SMToBMS": dict(target="bms", shape="maps", meta=("title", "artist", "diff")),
    "SMToOsu": dict(target="osu", shape="maps", meta=("title", "artist", "creator", "diff")),
    "SMToQua": dict(target="qua", shape="maps", rbm="meta", ok_keys=(4, 7, 8), meta=("title", "artist", "creator", "diff")),
}
CONVERTERS = {
    "osu": ["OsuToBMS", "OsuToQua", "OsuToSM"],
    "qua": ["QuaToBMS", "QuaToOsu", "QuaToSM"],
    "bms": ["BMSToOsu", "BMSToQua", "BMSToSM"],
    "sm": ["SMToBMS", "SMToOsu", "SMToQua"],
    "o2j": ["O2JToBMS", "O2JToOsu", "O2JToQua", "O2JToSM", "O2JToSM.merge"],
}
# BMSToQua on a BMS chart without notes used to raise "cannot convert float NaN to integer" whatever raise_bad_mode
# said (F30, fixed in /repo d2cf188): a note-less chart counts as an unsupported key mode (raise / mode "").
ASSERT_BMSTOQUA_WITHOUT_NOTES = os.environ.get("C08_ASSERT_BMSTOQUA_NO_NOTES", "1") == "1"
_MAP_CLASS = {"osu": "OsuMap", "qua": "QuaMap", "bms": "BMSMap", "sm": "SMMap", "o2j": "O2JMap"}
LABEL_CHANGING = {"sorted", "after", "before", "stack_add", "stack_mul", "stack_loc", "rate"}
_CMP = {">": operator.gt, ">=": operator.ge, "<": operator.lt, "<=": operator.le, "==": operator.eq}

# --------------------------------------------------------------------------- #
# generator
# --------------------------------------------------------------------------- #
RATES = [0.5, 0.75, 1.25, 1.5, 2.0]
_rate_st = st.one_of(st.sampled_from(RATES), st.floats(0.1, 10.0, allow_nan=False, exclude_min=True).map(lambda x: round(x, 4)))
_OPS = ["sorted", "after", "before", "append", "stack_add", "stack_mul", "stack_loc", "stack_loc", "rate", "rate", "deepcopy"]


def _pool_of(src):
    maps = src["maps"] if "maps" in src else [src]
    pool = sorted({float(r["offset"]) for m in maps for rows in m["lists"].values() for r in rows})
    return pool or [0.0]


@st.composite
def step_st(draw, game, keys, names, pool, nmaps):
    op = draw(st.sampled_from(_OPS))
    mi = draw(st.integers(0, nmaps - 1))
    t_st = st.one_of(st.sampled_from(pool), st.sampled_from(pool), st.floats(-3000.0, 250000.0, allow_nan=False).map(lambda x: round(x, 3)))
    if op == "sorted":
        return [op, dict(mi=mi, list=draw(st.sampled_from(names)), reverse=draw(st.sampled_from([True, True, True, False])))]
    if op in ("after", "before"):
        return [op, dict(mi=mi, list=draw(st.sampled_from(names)), t=draw(t_st), incl=draw(st.booleans()))]
    if op == "append":
        name = draw(st.sampled_from([n for n in names if n in ("hits", "holds", "bpms", "svs")]))
        row = draw(B.st_rows(game, name, keys, 1, pool, min_rows=1))[0]
        return [op, dict(mi=mi, list=name, row=row)]
    if op == "stack_add":
        return [op, dict(mi=mi, prop="offset", v=draw(st.sampled_from([1.5, -500.0, 1000.0, 0.1, 12345.678, 3, -1])))]
    if op == "stack_mul":
        return [op, dict(mi=mi, prop=draw(st.sampled_from(["offset", "length", "bpm"])), v=draw(st.sampled_from([2.0, 0.5, 1.5, 1.1, 3, 0.3])))]
    if op == "stack_loc":
        if draw(st.integers(0, 2)) == 0:
            cond = ["column", "==", draw(st.integers(0, keys - 1))]
        else:
            cond = ["offset", draw(st.sampled_from([">", ">=", "<", "<="])), draw(t_st)]
        how = draw(st.sampled_from(["column=", "column=", "offset+", "length*", "bpm*"]))
        if how == "column=":
            tgt = ["column", "set", draw(st.integers(0, keys - 1))]
        elif how == "offset+":
            tgt = ["offset", "add", draw(st.sampled_from([250.0, -125.0, 0.5, 7]))]
        elif how == "length*":
            tgt = ["length", "mul", draw(st.sampled_from([2.0, 0.5, 1.25]))]
        else:
            tgt = ["bpm", "mul", draw(st.sampled_from([2.0, 0.5, 1.1]))]
        return [op, dict(mi=mi, cond=cond, tgt=tgt)]
    if op == "rate":
        return [op, dict(r=draw(_rate_st))]
    return ["deepcopy", {}]


_opts_st = st.fixed_dictionaries(
    dict(
        shift=st.sampled_from([None, None, 0, 1, 1, 2, 3]),
        rbm=st.sampled_from([None, None, True, False]),
        every_step=st.sampled_from([False, False, True]),
    )
)


@st.composite
def history_st(draw, game, keys, names, pool, nmaps, max_steps=4):
    n = draw(st.sampled_from([k for k in (0, 1, 1, 2, 2, 3, 4) if k <= max_steps]))
    return [draw(step_st(game, keys, names, pool, nmaps)) for _ in range(n)]


@st.composite
def case_st(draw, tier):
    game = draw(st.sampled_from(B.games()))
    kw = {}
    if game == "osu":
        kw["keys"] = draw(st.sampled_from([4, 7, 4, 7, 8, 1, 10, 18, 6]))
    if game in ("sm", "o2j"):
        src = draw(B.st_mapset(game, tier, **kw))
        nmaps = len(src["maps"])
    else:
        src = draw(B.st_chart(game, tier, **kw))
        nmaps = 1
    names = [n for n in B.list_names(game)]
    hist = draw(history_st(game, src["keys"], names, _pool_of(src), nmaps))
    return dict(src=src, history=hist, opts=draw(_opts_st))


# --------------------------------------------------------------------------- #
# plain-Python model of the source
# --------------------------------------------------------------------------- #
def model_of(src):
    maps = src["maps"] if "maps" in src else [src]
    return [{name: [dict(r) for r in rows] for name, rows in m["lists"].items()} for m in maps]


def model_step(model, step):
    """Apply one history step to the model in place.  False = the step is skipped (would empty the tempo list)."""
    op, a = step
    if op == "deepcopy":
        return True
    if op == "rate":
        r = a["r"]
        for m in model:
            for rows in m.values():
                for row in rows:
                    if "offset" in row:
                        row["offset"] = row["offset"] / r
                    if "length" in row:
                        row["length"] = row["length"] / r
                    if "bpm" in row:
                        row["bpm"] = row["bpm"] * r
        return True
    m = model[a["mi"] % len(model)]
    if op == "sorted":
        m[a["list"]].sort(key=lambda r: r["offset"], reverse=a["reverse"])
        return True
    if op in ("after", "before"):
        cmp_ = _CMP[{("after", False): ">", ("after", True): ">=", ("before", False): "<", ("before", True): "<="}[(op, a["incl"])]]
        kept = [r for r in m[a["list"]] if cmp_(r["offset"], a["t"])]
        if a["list"] == "bpms" and not kept:
            return False
        m[a["list"]] = kept
        return True
    if op == "append":
        m[a["list"]].append(dict(a["row"]))
        return True
    if op in ("stack_add", "stack_mul"):
        p, v = a["prop"], a["v"]
        for rows in m.values():
            for row in rows:
                if p in row:
                    row[p] = row[p] + v if op == "stack_add" else row[p] * v
        return True
    if op == "stack_loc":
        (cp, cop, cv), (tp, how, tv) = a["cond"], a["tgt"]
        for rows in m.values():
            for row in rows:
                if cp in row and tp in row and _CMP[cop](row[cp], cv):
                    row[tp] = tv if how == "set" else (row[tp] + tv if how == "add" else row[tp] * tv)
        return True
    raise ValueError(op)


def real_step(obj, game, step):
    """The same step on the reamber object, written the way a user would. Returns the (possibly new) object."""
    op, a = step
    if op == "deepcopy":
        return obj.deepcopy()
    if op == "rate":
        return obj.rate(a["r"])
    maps = obj.maps if hasattr(obj, "maps") else [obj]
    m = maps[a["mi"] % len(maps)]
    if op == "sorted":
        setattr(m, a["list"], getattr(m, a["list"]).sorted(reverse=a["reverse"]))
    elif op == "after":
        setattr(m, a["list"], getattr(m, a["list"]).after(a["t"], include_end=a["incl"]))
    elif op == "before":
        setattr(m, a["list"], getattr(m, a["list"]).before(a["t"], include_end=a["incl"]))
    elif op == "append":
        item = B.item_class(game, a["list"])(**B._item_kwargs(game, a["list"], a["row"]))
        setattr(m, a["list"], getattr(m, a["list"]).append(item))
    elif op == "stack_add":
        s = m.stack()
        if a["prop"] == "offset":
            s.offset += a["v"]
        else:
            raise ValueError(a["prop"])
    elif op == "stack_mul":
        s = m.stack()
        if a["prop"] == "offset":
            s.offset *= a["v"]
        elif a["prop"] == "length":
            s.length *= a["v"]
        elif a["prop"] == "bpm":
            s.bpm *= a["v"]
        else:
            raise ValueError(a["prop"])
    elif op == "stack_loc":
        (cp, cop, cv), (tp, how, tv) = a["cond"], a["tgt"]
        s = m.stack()
        cond = _CMP[cop](getattr(s, cp), cv)
        if how == "set":
            s.loc[cond, tp] = tv
        elif how == "add":
            s.loc[cond, tp] += tv
        else:
            s.loc[cond, tp] *= tv
    else:
        raise ValueError(op)
    return obj


def _rowkey(row):
    return tuple((k, (0, float(v)) if isinstance(v, (int, float, bool)) and v == v else (1, repr(v))) for k, v in sorted(row.items()))


def _same_rows(got, exp, rel=1e-12):
    if len(got) != len(exp):
        return False
    if exp:  # only the declared fields (OsuSv items carry an undeclared 'metronome' column: known finding F23 of C16)
        got = [{k: r.get(k) for k in exp[0]} for r in got]
    for g, e in zip(sorted(got, key=_rowkey), sorted(exp, key=_rowkey)):
        if not B.same_value(g, e, rel):
            return False
    return True


def _model_agrees(obj, model):
    maps = obj.maps if hasattr(obj, "maps") else [obj]
    if len(maps) != len(model):
        return "map count"
    for i, (m, mm) in enumerate(zip(maps, model)):
        for name, rows in mm.items():
            if not _same_rows(B.rows(m.objs[name]), rows):
                return f"map {i} list {name}: {B.rows(m.objs[name])[:6]} vs model {rows[:6]}"
    return None


# --------------------------------------------------------------------------- #
# source facts
# --------------------------------------------------------------------------- #
def src_info_from_case(src):
    """per source chart: title/artist/creator/diff token + key count kept in metadata (None where the game keeps none)."""
    g, meta = src["game"], src.get("meta", {})
    out = []
    if g == "osu":
        out.append(dict(title=meta["title"], artist=meta["artist"], creator=meta["creator"], diff=meta["version"], keys=int(meta["circle_size"])))
    elif g == "qua":
        out.append(dict(title=meta["title"], artist=meta["artist"], creator=meta["creator"], diff=meta["difficulty_name"], keys=src["keys"]))
    elif g == "bms":
        out.append(dict(title=meta["title"], artist=meta["artist"], diff=meta["version"], keys=None))
    elif g == "sm":
        for m in src["maps"]:
            out.append(dict(title=meta["title"], artist=meta["artist"], creator=meta["credit"], diff=m["meta"]["difficulty"], keys=m["keys"]))
    elif g == "o2j":
        for i, _ in enumerate(src["maps"]):
            out.append(dict(title=meta["title"], artist=meta["artist"], creator=meta["creator"], diff=str(meta["level"][i]), keys=7))
    return out


def _note_keys(mm):
    cols = [r["column"] for name in ("hits", "holds") for r in mm.get(name, [])]
    return int(max(cols)) + 1 if cols else None


def _target_meta(target_game, tmap, container):
    if target_game == "osu":
        d = dict(title=tmap.title, artist=tmap.artist, creator=tmap.creator, diff=tmap.version)
    elif target_game == "qua":
        d = dict(title=tmap.title, artist=tmap.artist, creator=tmap.creator, diff=tmap.difficulty_name)
    elif target_game == "bms":
        d = dict(title=tmap.title, artist=tmap.artist, diff=tmap.version)
    else:
        d = dict(title=container.title, artist=container.artist, creator=container.credit, diff=tmap.description)
    return {k: B._py(v) for k, v in d.items()}


# --------------------------------------------------------------------------- #
# oracle
# --------------------------------------------------------------------------- #
def _bad_cell(v):
    if v is None:
        return True
    if isinstance(v, float):
        return math.isnan(v)
    if isinstance(v, (list, tuple)):
        return any(_bad_cell(x) for x in v)
    if isinstance(v, dict):
        return any(_bad_cell(x) for x in v.values())
    if isinstance(v, (str, bytes, int, bool)):
        return False
    try:
        import pandas as pd

        return bool(pd.isna(v))
    except (TypeError, ValueError):
        return False


def _num(v):
    try:
        return float(v)
    except (TypeError, ValueError):
        return float("nan")


def _sortkey(t):
    return tuple((1, 0.0) if math.isnan(x) else (0, x) for x in t)


def _ms_equal(got, exp, rel=1e-12):
    if len(got) != len(exp):
        return False
    g, e = sorted(got, key=_sortkey), sorted(exp, key=_sortkey)
    if g == e:
        return True
    for x, y in zip(g, e):
        for a, b in zip(x, y):
            if not (a == b or abs(a - b) <= rel * max(abs(a), abs(b))):
                return False
    return True


def _run(ctx, what, fn, *a, **k):
    """ctx.call that does not end the case: the remaining converters still run."""
    ctx.touched = True
    try:
        return True, fn(*a, **k)
    except (core._StopCase, core.HarnessError):
        raise
    except Exception as e:  # noqa: BLE001 - the property promises a result
        ctx.fail(f"exc:{what}:{type(e).__name__}", core._short_tb(e))
        return False, None


def _check_target(ctx, conv, spec, tmap, container, mm, info, shift, where):
    tg = spec["target"]
    if type(tmap).__name__ != _MAP_CLASS[tg]:
        ctx.fail(f"type:{conv}", f"{where}: {type(tmap).__name__}, expected {_MAP_CLASS[tg]}")
        return
    got = {}
    for name, tl in tmap.objs.items():
        declared = sorted(type(tl).props().names)
        cols = sorted(str(c) for c in tl.df.columns)
        if cols != declared:
            ctx.fail(f"fields:{conv}", f"{where} {name}: columns {cols}, declared {declared}")
        rows = B.rows(tl)
        got[name] = rows
        for r in rows:
            bad = [k for k, v in r.items() if _bad_cell(v)]
            if bad:
                ctx.fail(f"nan:{conv}", f"{where} {name}: missing value in {bad}: {r}")
                break

    def cells(name, cols):
        return [tuple(_num(r.get(c)) for c in cols) for r in got.get(name, [])]

    exp_hits = [(float(r["offset"]), float(r["column"] + shift)) for r in mm["hits"]]
    exp_holds = [(float(r["offset"]), float(r["column"] + shift), float(r["length"])) for r in mm["holds"]]
    exp_bpms = [(float(r["offset"]), float(r["bpm"])) for r in mm["bpms"]]
    for kind, g, e in (
        ("hits", cells("hits", ("offset", "column")), exp_hits),
        ("holds", cells("holds", ("offset", "column", "length")), exp_holds),
        ("bpms", cells("bpms", ("offset", "bpm")), exp_bpms),
    ):
        if not _ms_equal(g, e):
            ctx.fail(f"{kind}:{conv}", f"{where}: got {sorted(g, key=_sortkey)[:8]} ({len(g)}) expected {sorted(e)[:8]} ({len(e)}) shift={shift}")
    if spec.get("svs"):
        g = cells("svs", ("offset", "multiplier"))
        e = [(float(r["offset"]), float(r["multiplier"])) for r in mm["svs"]]
        if not _ms_equal(g, e):
            ctx.fail(f"svs:{conv}", f"{where}: got {sorted(g, key=_sortkey)[:8]} ({len(g)}) expected {sorted(e)[:8]} ({len(e)})")
    tm = _target_meta(tg, tmap, container)
    for f in spec["meta"]:
        if f == "diff":
            if not (isinstance(tm["diff"], str) and info["diff"] in tm["diff"]):
                ctx.fail(f"meta-diff:{conv}", f"{where}: difficulty name {tm['diff']!r} does not contain {info['diff']!r}")
        elif tm[f] != info[f]:
            ctx.fail(f"meta-{f}:{conv}", f"{where}: {f} {tm[f]!r}, source has {info[f]!r}")


def _check_result(ctx, conv, spec, res, model, infos, shift):
    shape, n = spec["shape"], len(model)
    pairs = None
    if shape == "map":
        pairs = [(res, res)]
    elif shape in ("sms1", "sms_n"):
        if type(res).__name__ != "SMMapSet":
            ctx.fail(f"type:{conv}", f"result is {type(res).__name__}, expected SMMapSet")
            return
        pairs = [(m, res) for m in res.maps]
    elif shape == "maps":
        if not isinstance(res, list):
            ctx.fail(f"type:{conv}", f"result is {type(res).__name__}, expected a list")
            return
        pairs = [(m, m) for m in res]
    elif shape == "smss":
        if not isinstance(res, list):
            ctx.fail(f"type:{conv}", f"result is {type(res).__name__}, expected a list")
            return
        pairs = []
        for s in res:
            if type(s).__name__ != "SMMapSet" or len(s.maps) != 1:
                ctx.fail(f"count:{conv}", f"element is {type(s).__name__} with {len(getattr(s, 'maps', []))} charts, expected an SMMapSet of one")
                return
            pairs.append((s.maps[0], s))
    if len(pairs) != n:
        ctx.fail(f"count:{conv}", f"{len(pairs)} target charts for {n} source charts")
        return
    for i, ((tmap, cont), mm, info) in enumerate(zip(pairs, model, infos)):
        _check_target(ctx, conv, spec, tmap, cont, mm, info, shift, f"chart {i}")


def convert_all(ctx, game, obj, model, infos, opts, tag=""):
    import reamber.algorithms.convert as C

    before = B.snapshot(obj)
    for conv in CONVERTERS[game]:
        spec = SPEC[conv]
        fn = getattr(getattr(C, spec.get("cls", conv)), spec.get("fn", "convert"))
        kwargs, shift = {}, 0
        if "shift" in spec:
            shift = spec["shift"]
            if opts["shift"] is not None:
                shift = kwargs["move_right_by"] = opts["shift"]
            ctx.label(f"shift={shift}")
        expect_raise = False
        if "rbm" in spec:
            rbm = opts["rbm"]
            if spec["rbm"] == "meta":
                keys = [i["keys"] for i in infos]
            else:
                keys = [_note_keys(mm) for mm in model]
            if any(k is None for k in keys):  # key count taken from the notes, and there is none
                ctx.label(f"no-notes:{conv}")
                if conv == "BMSToQua" and not ASSERT_BMSTOQUA_WITHOUT_NOTES:
                    ctx.label("not-run:no-notes:BMSToQua")
                    continue
                if conv == "OsuToSM":
                    rbm = False
            bad = any(k is None or k not in spec["ok_keys"] for k in keys)
            if rbm is not None:
                kwargs["raise_bad_mode"] = rbm
            expect_raise = bad and rbm is not False
            ctx.label(f"bad-mode-returned:{conv}", bad and not expect_raise)
        if expect_raise:
            ctx.label(f"raises:{conv}")
            ctx.raises(f"bad-mode:{conv}", (ValueError,), fn, obj, **kwargs)
        else:
            ok, res = _run(ctx, conv, fn, obj, **kwargs)
            if ok:
                ctx.label(f"ran:{conv}")
                _check_result(ctx, conv, spec, res, model, infos, shift)
        after = B.snapshot(obj)
        if after != before:
            ctx.fail(f"source-modified:{conv}", _diff(before, after))
            before = after


def _diff(a, b):
    if "maps" in a:
        for i, (x, y) in enumerate(zip(a["maps"], b["maps"])):
            if x != y:
                return f"chart {i}: " + _diff(x, y)
        return "mapset metadata or chart count changed"
    for k in a.get("lists", {}):
        if a["lists"][k] != b["lists"].get(k):
            return f"list {k}: {str(a['lists'][k])[:300]} -> {str(b['lists'].get(k))[:300]}"
    return "metadata changed"


def _bail(ctx, reason):
    """A history step misbehaved: not this property's business (C12/C13/C16)."""
    if ctx.failures:
        ctx.label("stopped:" + reason)
        ctx.stop()
    ctx.exclude(reason)


def _labels_nondefault(obj):
    maps = obj.maps if hasattr(obj, "maps") else [obj]
    for m in maps:
        for tl in m.objs.values():
            if list(tl.df.index) != list(range(len(tl.df))):
                return True
    return False


def _object_dtype(obj):
    maps = obj.maps if hasattr(obj, "maps") else [obj]
    return any(str(tl.df["offset"].dtype) == "object" for m in maps for tl in m.objs.values())


def run_history(ctx, game, obj, model, infos, history, opts):
    ops = [s[0] for s in history]
    ctx.label("game=" + game)
    ctx.label(f"steps={len(history)}")
    for o in set(ops):
        ctx.label("op=" + o)
    ctx.label("every-step", bool(opts["every_step"]) and len(history) > 0)
    ctx.label(f"charts={len(model)}", len(model) > 1)
    msg = _model_agrees(obj, model)
    ctx.harness(msg is None, f"model and built source disagree before any step: {msg}")
    applied = []
    for i in range(len(history) + 1):
        if i == len(history) or opts["every_step"]:
            hold_sv = any(mm.get("holds") and mm.get("svs") for mm in model)
            ctx.nt(bool(LABEL_CHANGING & set(applied)) or hold_sv)
            ctx.label("hold+sv", hold_sv)
            ctx.label("hits-empty&holds", any(not mm["hits"] and mm["holds"] for mm in model))
            ctx.label("holds-empty&hits", any(mm["hits"] and not mm["holds"] for mm in model))
            ctx.label("no-notes", any(not mm["hits"] and not mm["holds"] for mm in model))
            ctx.label("source-labels-nondefault", _labels_nondefault(obj))
            ctx.label("source-object-dtype", _object_dtype(obj))
            convert_all(ctx, game, obj, model, infos, opts)
        if i < len(history):
            step = history[i]
            trial = [{k: [dict(r) for r in v] for k, v in mm.items()} for mm in model]
            if not model_step(trial, step):
                ctx.label("step-skipped:would-empty-bpms")
                continue
            try:
                obj = real_step(obj, game, step)
            except Exception as e:  # noqa: BLE001
                _bail(ctx, f"history-op-raised:{step[0]}:{type(e).__name__}")
            model = trial
            applied.append(step[0])
            if _model_agrees(obj, model) is not None:
                _bail(ctx, f"history-op-disagrees:{step[0]}")


def check_built(case, ctx):
    src, hist, opts = case["src"], case["history"], case["opts"]
    game = src["game"]
    model = model_of(src)
    infos = src_info_from_case(src)
    obj = B.build(src)
    run_history(ctx, game, obj, model, infos, hist, opts)


# --------------------------------------------------------------------------- #
# 'read' origin: the source is a freshly read .osu / .qua text
# --------------------------------------------------------------------------- #
_word = st.builds(lambda a, b: (a + b).rstrip(), st.sampled_from(["T", "Ab", "x", "Zed"]), st.text(alphabet="abcXYZ 019_-", max_size=7))


@st.composite
def read_case_st(draw, tier):
    big = tier == "thorough"
    game = draw(st.sampled_from(["osu", "qua"]))
    if game == "osu":
        from vlib.gen import osu as GO

        doc = draw(GO.text_case_strategy(tier, keys=[4, 7, 4, 7, 8, 10, 1], meta="plain", max_notes=40 if big else 10, max_tempo=8 if big else 4))
        ch = doc["chart"]
        for f in ("title", "artist", "creator", "version"):
            ch["meta"][f] = draw(_word)
        keys = ch["keys"]
    else:
        from vlib.gen import qua as GQ

        ch = draw(GQ.chart_strategy(tier, document=True, omit=False, meta="plain", max_notes=40 if big else 10, max_points=8 if big else 4))
        for f in ("Title", "Artist", "Creator", "DifficultyName"):
            if f in ch["meta"]:
                ch["meta"][f] = draw(_word)
        doc = dict(chart=ch)
        keys = ch["keys"] or 4
    pool = sorted({float(o["offset"]) for n in ("hits", "holds", "bpms", "svs") for o in ch[n]}) or [0.0]
    hist = draw(history_st(game, keys, B.list_names(game), pool, 1))
    return dict(game=game, doc=doc, history=hist, opts=draw(_opts_st))


def _read_source(case):
    if case["game"] == "osu":
        from reamber.osu.OsuMap import OsuMap
        from vlib.gen import osu as GO

        return OsuMap.read(GO.render(case["doc"]["chart"], case["doc"].get("syntax")))
    from reamber.quaver.QuaMap import QuaMap
    from vlib.gen import qua as GQ

    return QuaMap.read(GQ.render(case["doc"]["chart"]).split("\n"))


def check_read(case, ctx):
    game = case["game"]
    try:
        obj = _read_source(case)
        model = [{name: B.rows(tl) for name, tl in obj.objs.items()}]
    except Exception as e:  # noqa: BLE001 - reading is C01 / C06's business
        ctx.exclude(f"read-raised:{type(e).__name__}")
    if any(_bad_cell(v) for rows in model[0].values() for r in rows for v in r.values()):
        ctx.exclude("read-source-has-missing-values")
    if game == "osu":
        info = dict(title=obj.title, artist=obj.artist, creator=obj.creator, diff=obj.version, keys=int(obj.circle_size))
    else:
        info = dict(title=obj.title, artist=obj.artist, creator=obj.creator, diff=obj.difficulty_name, keys=None)
    if not all(isinstance(info[k], str) and info[k].isascii() for k in ("title", "artist", "creator", "diff")):
        ctx.exclude("read-source-non-ascii-metadata")
    ctx.label("origin=read")
    run_history(ctx, game, obj, model, [info], case["history"], case["opts"])


SUBS = [
    Sub("built", check_built, strategy=case_st, examples={"quick": 260, "thorough": 1500}, shards={"quick": 8, "thorough": 16}),
    Sub("read", check_read, strategy=read_case_st, examples={"quick": 200, "thorough": 600}, shards={"quick": 2, "thorough": 16}),
]

MANIFEST = dict(
    technique="property-based testing: generated charts of all five games plus generated edit histories, mirrored on a plain-Python row model; all 16 converters and the merge variant compared with the model by multiset, with a strict before/after snapshot of the source",
    level_text="Exploration: thousands of generated (source chart, history, converter options) triples per run; every converter applicable to the source runs and its result is compared exactly with a plain-data model that never goes through reamber, for sources whose rows carry non-default labels, object dtype or empty lists. Sampling cannot prove absence; each converter, each history operation and each raise/return class is labelled and counted in the evidence.",
    level_note="trusted: vlib/gen/build.py (builders and by-meaning views), the 60-line row model in vlib/props/C08.py, Hypothesis; metronome/hitsound/file-level fields and the X->StepMania difficulty name are unasserted (see assumptions)",
)
