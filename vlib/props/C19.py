"""C19 Dominant bpm, scroll speed and SV normalisation follow their definitions."""
from __future__ import annotations

import itertools
import math
from fractions import Fraction as F

from hypothesis import strategies as st

from vlib.core import Sub
from vlib.gen import build as B

PROPERTY_ID = "C19"
RULE = (
    "Charts of all five games as plain data (osu/Quaver weighted, they carry SVs): 1..5 (thorough 40) tempo points at "
    "distinct times built by a forward walk (grid / integer / 3-decimal times, negative and large bases), bpm values "
    "drawn from a per-case palette of 1..3 values (repeated values, the close pair 120/120.4, arbitrary floats), rows "
    "of the tempo list sorted, reversed or shuffled; 1..8 (thorough 30) objects at or after the first tempo point: "
    "hits only / holds only / both, optionally ending before later tempo points, optionally a last hold whose tail is "
    "the latest time (StepMania: optional mines, rolls, stops, ...); 0..5 (thorough 12) SVs placed on a tempo point, "
    "on another SV, before the first tempo point, after the last object or in between; override None or a positive "
    "float. A second sub-check enumerates every tempo layout of <= 3 points on the lattice {0,100,200} (thorough "
    "{0,100,200,300}) x 2 bpm values x every row order x every placement of <= 2 SVs on the lattice from -100 to two "
    "steps past the last tempo slot (thorough: x 3 object layouts); game and override rotate with the case index. Oracle: plain-Python accumulation of "
    "active time per bpm value (Fractions) under each reading of 'last object'; step functions for the active bpm and "
    "the active SV. Non-trivial = >= 2 distinct bpm values and >= 1 SV."
)
ASSUMPTIONS = [
    "'last object' is read three ways (last start time of any list, last note start, last note end incl. hold tails; for StepMania with and "
    "without the non-hit/hold note lists); dominant_bpm is accepted if it is a maximiser under any of them; ties are free",
    "the reference of scroll_speed / sv_normalize without override may be any accepted maximiser, but one and the same for every row of the result",
    "scroll speed is asserted only at index entries at or after the first tempo point (before it no bpm is active; the statement defines nothing); "
    "the index must still contain every tempo and SV time",
    "an SV placed exactly on a tempo point applies from that time; a tempo point without an SV on it resets the multiplier to 1.0 "
    "(reamber issue #118, pinned by tests/algorithm_tests/analysis/test_scroll_speed.py); several SVs at one time allow any of their multipliers",
    "maximality is decided with 1e-6 ms slack on durations; speeds and multiplier*bpm compared with rel 1e-9",
    "fields of the returned SVs other than time and multiplier are not asserted",
]

SV_GAMES = ("osu", "qua")
NON_NOTE = ("bpms", "svs", "stops")
_DEFAULTS = {"keysounds": []}


# ---------------------------------------------------------------------------
# reference (plain python, no reamber)
# ---------------------------------------------------------------------------
def _ends(lists):
    """Candidate readings of 'last object' -> {name: time}."""
    all_starts = [r["offset"] for rows_ in lists.values() for r in rows_]
    out = {"any-list-start": max(all_starts)}
    core = [r for k in ("hits", "holds") for r in lists.get(k, [])]
    wide = [r for k, rows_ in lists.items() if k not in NON_NOTE for r in rows_]
    for tag, rows_ in (("note", core), ("note+", wide)):
        if rows_:
            out[tag + "-start"] = max(r["offset"] for r in rows_)
            out[tag + "-end"] = max(r["offset"] + r.get("length", 0.0) for r in rows_)
    return out


def _durations(tempo, end):
    """tempo: sorted [(t, bpm)] -> {bpm: Fraction ms active in [t0, end]}."""
    dur = {}
    e = F(end)
    for i, (t, b) in enumerate(tempo):
        hi = e if i + 1 == len(tempo) else min(F(tempo[i + 1][0]), e)
        seg = hi - F(t)
        dur[b] = dur.get(b, F(0)) + (seg if seg > 0 else F(0))
    return dur


def _maximisers(dur, slack=F(1, 10**6)):
    mx = max(dur.values())
    return {b for b, d in dur.items() if d >= mx - slack - mx * F(1, 10**12)}


def dominant_candidates(lists):
    tempo = sorted((r["offset"], r["bpm"]) for r in lists["bpms"])
    per = {}
    for name, e in _ends(lists).items():
        per[name] = _maximisers(_durations(tempo, e))
    return per


def bpm_at(tempo, t):
    cur = None
    for tt, b in tempo:
        if tt <= t:
            cur = (tt, b)
        else:
            break
    return cur


def sv_choices(tempo, svs, t):
    """Multipliers that may be active at t (t >= first tempo point)."""
    tb, _ = bpm_at(tempo, t)
    live = [(ts, m) for ts, m in svs if tb <= ts <= t]
    if not live:
        return [1.0]
    last = max(ts for ts, _ in live)
    return [m for ts, m in live if ts == last]


def _rel_ok(got, exp, rel=1e-9):
    if not (math.isfinite(got) and math.isfinite(exp)):
        return False
    return got == exp or abs(got - exp) <= rel * max(abs(got), abs(exp))


# ---------------------------------------------------------------------------
# generator
# ---------------------------------------------------------------------------
def _z(x: float) -> float:
    return float(x) + 0.0  # -0.0 -> 0.0


def _rnd(kind):
    if kind == "grid":
        return lambda x: _z(round(x / 125.0) * 125.0)
    if kind == "int":
        return lambda x: _z(round(x))
    return lambda x: _z(round(x, 3))


@st.composite
def case_st(draw, tier):
    big = tier == "thorough"
    game = draw(st.sampled_from(["osu", "osu", "osu", "qua", "qua", "sm", "bms", "o2j"]))
    keys = draw(st.sampled_from(B.KEYS[game]))
    kind = draw(st.sampled_from(["grid", "grid", "int", "float"]))
    rnd = _rnd(kind)
    unit = {"grid": 125.0, "int": 1.0, "float": 0.001}[kind]

    # tempo points: forward walk -> distinct times by construction
    n_bpm = draw(st.integers(2, 40 if big else 5)) if draw(st.integers(0, 7)) else 1
    t0 = rnd(draw(st.sampled_from([0.0, 0.0, 0.0, -1000.0, -250.0, 1234.0, 61000.0])))
    gap_st = st.one_of(
        st.sampled_from([125.0, 250.0, 250.0, 500.0, 1000.0]),
        st.integers(1, 5000).map(float),
        st.floats(0.001, 5000.0, allow_nan=False),
    )
    times = [t0]
    for _ in range(n_bpm - 1):
        nxt = rnd(times[-1] + draw(gap_st))
        if nxt <= times[-1]:
            nxt = rnd(times[-1] + unit)
        times.append(nxt)
    pal_kind = draw(st.sampled_from(["nice", "nice", "close", "any"]))
    if pal_kind == "nice":
        palette = draw(st.lists(st.sampled_from([60.0, 90.0, 100.0, 120.0, 150.0, 180.0, 200.0, 240.0]), min_size=1, max_size=3, unique=True))
    elif pal_kind == "close":
        palette = draw(st.sampled_from([[120.0, 120.4], [120.0, 120.4, 60.0], [150.4, 150.0], [99.5, 100.49, 100.0], [174.0, 174.001]]))
    else:
        palette = draw(st.lists(B.bpm_st, min_size=1, max_size=3, unique=True))
    bpm_vals = [draw(st.sampled_from(palette)) if draw(st.integers(0, 9)) else draw(B.bpm_st) for _ in times]
    tempo = list(zip(times, bpm_vals))
    order = draw(st.sampled_from(["sorted", "reversed", "shuffled", "shuffled"]))
    if order == "reversed":
        tempo = tempo[::-1]
    elif order == "shuffled":
        tempo = list(draw(st.permutations(tempo)))

    # objects, all at or after the first tempo point
    span = times[-1] - t0
    early = n_bpm >= 2 and draw(st.integers(0, 3)) == 0  # objects end before later tempo points
    top = times[draw(st.integers(0, n_bpm - 2))] if early else rnd(times[-1] + draw(st.sampled_from([0.0, 125.0, 1000.0, 5000.0, 30000.0])))
    note_t = st.one_of(
        st.sampled_from([t for t in times if t <= top]),
        st.floats(0.0, 1.0, allow_nan=False).map(lambda d: min(max(rnd(t0 + d * (top - t0)), t0), top)),
    )
    shape = draw(st.sampled_from(["hits", "holds", "both", "both"]))
    n_notes = draw(st.integers(1, 30 if big else 8))
    len_st = st.one_of(st.sampled_from([125.0, 250.0, 1000.0]), st.floats(0.5, 20000.0, allow_nan=False).map(lambda x: max(unit, rnd(x))))
    notes = []
    for _ in range(n_notes):
        is_hold = shape == "holds" or (shape == "both" and draw(st.booleans()))
        notes.append([draw(note_t), draw(st.integers(0, keys - 1)), draw(len_st) if is_hold else None])
    if shape != "hits" and draw(st.integers(0, 2)) == 0:
        # last object is a hold whose tail is the latest time of the chart
        start = max(x[0] for x in notes)
        notes.append([start, draw(st.integers(0, keys - 1)), rnd(max(span + t0, start) - start + draw(st.sampled_from([125.0, 1000.0, 40000.0])))])
    last_end = max(x[0] + (x[2] or 0.0) for x in notes)

    lists = {}
    n_hit = sum(1 for x in notes if x[2] is None)
    hit_rows = draw(B.st_rows(game, "hits", keys, n_hit, [0.0], min_rows=n_hit)) if n_hit else []
    hold_rows = draw(B.st_rows(game, "holds", keys, len(notes) - n_hit, [0.0], min_rows=len(notes) - n_hit)) if len(notes) > n_hit else []
    hi_i = ho_i = 0
    for t, c, ln in notes:
        if ln is None:
            hit_rows[hi_i].update(offset=t, column=c)
            hi_i += 1
        else:
            hold_rows[ho_i].update(offset=t, column=c, length=ln)
            ho_i += 1
    bpm_rows = draw(B.st_rows(game, "bpms", keys, n_bpm, [0.0], min_rows=n_bpm))
    for row, (t, b) in zip(bpm_rows, tempo):
        row.update(offset=t, bpm=b)

    sv_rows = []
    if game in SV_GAMES:
        n_sv = draw(st.integers(0, 12 if big else 5))
        sv_times = []
        for _ in range(n_sv):
            where = draw(st.sampled_from(["tempo", "tempo", "sv", "before", "after", "mid", "mid"]))
            if where == "tempo":
                t = draw(st.sampled_from(times))
            elif where == "sv" and sv_times:
                t = draw(st.sampled_from(sv_times))
            elif where == "before":
                t = rnd(t0 - draw(st.sampled_from([125.0, 250.0, 1000.0, 7.0])))
                if t >= t0:
                    t = rnd(t0 - max(unit, 1.0))
            elif where == "after":
                t = rnd(max(last_end, times[-1]) + draw(st.sampled_from([125.0, 500.0, 3000.0])))
            else:
                t = rnd(t0 + draw(st.floats(0.0, max(span, 1000.0), allow_nan=False)))
                if t < t0:
                    t = t0
            sv_times.append(t)
        sv_rows = draw(B.st_rows(game, "svs", keys, n_sv, [0.0], min_rows=n_sv)) if n_sv else []
        for row, t in zip(sv_rows, sv_times):
            row.update(offset=t)
        sv_rows = list(draw(st.permutations(sv_rows))) if sv_rows else []

    for name in B.list_names(game):
        if name == "hits":
            lists[name] = list(draw(st.permutations(hit_rows))) if hit_rows else []
        elif name == "holds":
            lists[name] = list(draw(st.permutations(hold_rows))) if hold_rows else []
        elif name == "bpms":
            lists[name] = bpm_rows
        elif name == "svs":
            lists[name] = sv_rows
        else:  # StepMania: fakes, lifts, keysounds, mines, rolls, stops
            k = draw(st.integers(0, 2)) if draw(st.integers(0, 3)) == 0 else 0
            rows_ = draw(B.st_rows(game, name, keys, k, [0.0], min_rows=k)) if k else []
            for row in rows_:
                row.update(offset=draw(note_t))
                if "length" in row:
                    row["length"] = draw(len_st)
            lists[name] = rows_
    if kind != "float" and draw(st.integers(0, 4)) == 0:
        # the whole chart shifted so that its latest row sits at exactly 0 ms (everything else at negative times)
        mx = max(r["offset"] for rows_ in lists.values() for r in rows_)
        for rows_ in lists.values():
            for r in rows_:
                r["offset"] = r["offset"] - mx
    chart = dict(game=game, keys=keys, lists=lists, meta=draw(B.st_meta(game, keys)))
    override = draw(
        st.one_of(
            st.none(),
            st.none(),
            st.sampled_from([100.0, 150.0, 1.0, 1000.0]),
            st.sampled_from(sorted(set(bpm_vals))),
            st.floats(0.01, 2000.0, allow_nan=False).map(lambda x: round(x, 4)),
        )
    )
    return dict(chart=chart, override=override)


# -- exhaustive lattice -------------------------------------------------------
def _row(game, name, **kw):
    row = dict(kw)
    for f in B.fields(game, name):
        if f not in row and f in _DEFAULTS:
            row[f] = list(_DEFAULTS[f])
    return row


def lattice_case(game, tempo, svs, notes, override):
    lists = {n: [] for n in B.list_names(game)}
    lists["bpms"] = [_row(game, "bpms", offset=float(t), bpm=float(b)) for t, b in tempo]
    lists["svs"] = [_row(game, "svs", offset=float(t), multiplier=float(m)) for t, m in svs]
    for t, ln in notes:
        if ln is None:
            lists["hits"].append(_row(game, "hits", offset=float(t), column=0))
        else:
            lists["holds"].append(_row(game, "holds", offset=float(t), column=1, length=float(ln)))
    return dict(chart=dict(game=game, keys=4, lists=lists, meta={}), override=override)


def lattice_cases(tier):
    lat = [0, 100, 200, 300] if tier == "thorough" else [0, 100, 200]
    last_hit, tail = lat[-1] + 100, lat[-1] + 200
    sv_lat = list(range(-100, tail + 1, 100))
    layouts = []
    for k in (1, 2, 3):
        for ts in itertools.combinations(lat, k):
            for vals in itertools.product([100.0, 200.0], repeat=k):
                for perm in itertools.permutations(list(zip(ts, vals))):
                    layouts.append(list(perm))
    sv_sets = [[]] + [[(a, 2.0)] for a in sv_lat] + [[(a, 2.0), (b, 0.5)] for a, b in itertools.combinations_with_replacement(sv_lat, 2)]
    note_variants = 3
    i = 0
    for tempo in layouts:
        t0 = min(t for t, _ in tempo)
        shapes = [
            [(t0, None), (last_hit, None)],  # hits; the last after every tempo point
            [(t0, None)],  # a single object on the first tempo point: later tempo points follow the last object
            [(t0, None), (t0 + 100, tail - (t0 + 100))],  # the last object is a hold, its tail the latest time
        ]
        for svs in sv_sets:
            if tier == "thorough":
                for shape in shapes:
                    yield lattice_case(("osu", "qua")[i % 2], tempo, svs, shape, (None, 150.0, None, None, 150.0)[i % 5])
                    i += 1
            else:
                yield lattice_case(("osu", "qua")[i % 2], tempo, svs, shapes[i % note_variants], (None, 150.0, None, None, 150.0)[i % 5])
                i += 1


# ---------------------------------------------------------------------------
# check
# ---------------------------------------------------------------------------
def _series_items(s):
    return [(float(t), float(v)) for t, v in zip(s.index.tolist(), s.tolist())]


def _labels(ctx, case, lists, tempo, svs, per, game):
    times = [t for t, _ in tempo]
    t0 = times[0]
    vals = [b for _, b in tempo]
    raw = [r["offset"] for r in lists["bpms"]]
    ctx.label("game=" + game)
    ctx.label("override" if case["override"] is not None else "no-override")
    ctx.label("tempo=1", len(tempo) == 1)
    _all = [r["offset"] for rows_ in case["chart"]["lists"].values() for r in rows_]
    ctx.label("latest-row-at-exactly-0ms", bool(_all) and max(_all) == 0 and min(_all) < 0)
    ctx.label("tempo>=6", len(tempo) >= 6)
    ctx.label("bpm-rows-unsorted", raw != sorted(raw))
    ctx.label("repeated-bpm-value", len(set(vals)) < len(vals))
    ctx.label("repeated-bpm-value-nonadjacent", len([k for k, _ in itertools.groupby(vals)]) > len(set(vals)))
    ctx.label(">=2-bpm-values", len(set(vals)) >= 2)
    ctx.label("close-bpm-values", any(a != b and round(a) == round(b) for a in vals for b in vals))
    sets = list(per.values())
    ctx.label("tie", any(len(s) >= 2 for s in sets))
    ctx.label("readings-disagree", any(s != sets[0] for s in sets))
    ctx.label("dominant-is-not-first-row", lists["bpms"][0]["bpm"] not in set().union(*sets))
    ctx.label("dominant-is-not-most-frequent", max(set(vals), key=vals.count) not in set().union(*sets))
    hits, holds = lists.get("hits", []), lists.get("holds", [])
    ctx.label("hits-only", bool(hits) and not holds)
    ctx.label("holds-only", bool(holds) and not hits)
    ctx.label("hits+holds", bool(hits) and bool(holds))
    ends = _ends(lists)
    ctx.label("last-hold-tail-is-latest", bool(holds) and ends["note-end"] > ends["any-list-start"])
    ctx.label("tempo-after-last-note", times[-1] > ends.get("note-start", ends["any-list-start"]))
    ctx.label("sm-extra-lists", any(lists.get(k) for k in ("fakes", "lifts", "keysounds", "mines", "rolls", "stops")))
    if game in SV_GAMES:
        sv_t = [t for t, _ in svs]
        ctx.label("no-sv", not svs)
        ctx.label("sv-on-tempo", any(t in times for t in sv_t))
        ctx.label("sv-on-sv", len(set(sv_t)) < len(sv_t))
        ctx.label("sv-on-sv-different-mult", any(a[0] == b[0] and a[1] != b[1] for a in svs for b in svs))
        ctx.label("sv-before-first-tempo", any(t < t0 for t in sv_t))
        ctx.label("sv-after-last-object", any(t > ends.get("note-end", ends["any-list-start"]) for t in sv_t))
        ctx.label("sv-between-tempo-points", any(t >= t0 and bpm_at(tempo, t)[0] != t for t in sv_t))
        ctx.label("tempo-point-resets-sv", any(any(a <= t < b for t in sv_t) and b not in sv_t for a, b in zip(times, times[1:])))
    ctx.nt(len(set(vals)) >= 2 and len(svs) >= 1)


def _unmodified(ctx, chart, m, before, override):
    """One strict snapshot at the end; only when it differs are the calls repeated one by one to name the culprit."""
    from reamber.algorithms.analysis import scroll_speed
    from reamber.algorithms.generate import sv_normalize
    from reamber.algorithms.utils import dominant_bpm

    if B.snapshot(m) == before:
        return
    who = []
    for name, fn in (("dominant_bpm", lambda x: dominant_bpm(x)), ("scroll_speed", lambda x: scroll_speed(x, override)), ("sv_normalize", lambda x: sv_normalize(x, override))):
        if name == "sv_normalize" and chart["game"] not in SV_GAMES:
            continue
        fresh = B.build(chart)
        try:
            fn(fresh)
        except Exception:  # noqa: BLE001 - already reported by the main path
            continue
        if B.snapshot(fresh) != before:
            who.append(name)
    ctx.fail("input-modified", f"the chart passed in changed (by: {', '.join(who) or 'a combination of the three calls'})")


def check(case, ctx):
    from reamber.algorithms.analysis import scroll_speed
    from reamber.algorithms.generate import sv_normalize
    from reamber.algorithms.utils import dominant_bpm

    chart, override = case["chart"], case["override"]
    game, lists = chart["game"], chart["lists"]
    tempo = sorted((r["offset"], r["bpm"]) for r in lists["bpms"])
    svs = [(r["offset"], r["multiplier"]) for r in lists.get("svs", [])]
    times = [t for t, _ in tempo]
    t0 = times[0]
    # the property's domain, by construction
    ctx.harness(len(set(times)) == len(times), "two tempo points share a time")
    note_starts = [r["offset"] for k, rows_ in lists.items() if k not in ("bpms", "svs") for r in rows_]
    ctx.harness(bool(note_starts) and min(note_starts) >= t0, "needs >= 1 object, none before the first tempo point")
    ctx.harness(override is None or override > 0, "override must be positive")
    ctx.harness(all(b > 0 for _, b in tempo), "bpm must be positive")

    per = dominant_candidates(lists)
    accepted = set().union(*per.values())
    _labels(ctx, case, lists, tempo, svs, per, game)

    m = B.build(chart)
    before = B.snapshot(m)

    # (1) dominant bpm -------------------------------------------------------
    dom = ctx.call("dominant_bpm", dominant_bpm, m)
    dom = ctx.call("dominant_bpm-as-float", float, dom)
    if dom not in {b for _, b in tempo}:
        ctx.fail("dominant-not-a-bpm-value", f"got {dom!r}, bpm values {sorted({b for _, b in tempo})}")
    elif dom not in accepted:
        e = _ends(lists)
        durs = {k: {b: float(d) for b, d in _durations(tempo, e[k]).items()} for k in e}
        ctx.fail("dominant-not-maximal", f"got {dom!r}; active ms per value under each reading of 'last object': {durs}")

    refs = [float(override)] if override is not None else sorted(accepted)

    # (2) scroll speed ---------------------------------------------------------
    s = ctx.call("scroll_speed", scroll_speed, m, override)
    items = ctx.call("scroll_speed-read", _series_items, s)
    idx = {t for t, _ in items}
    want_idx = set(times) | {t for t, _ in svs}
    missing = sorted(want_idx - idx)
    if missing:
        ctx.fail("speed-index-missing-" + ("tempo" if any(t in times for t in missing) else "sv"), f"breakpoints {missing} absent from index {sorted(idx)}")
    has_sv = game in SV_GAMES
    ctx.label("index-before-first-tempo", any(t < t0 for t in idx))
    problems = {}
    for ref in refs:
        bad = None
        for t, v in items:
            if t < t0:
                continue
            b = bpm_at(tempo, t)[1]
            mults = sv_choices(tempo, svs, t) if has_sv else [1.0]
            exp = [b / ref * mu for mu in mults]
            if not any(_rel_ok(v, x) for x in exp):
                bad = (t, v, b, mults, exp)
                break
        if bad is None:
            problems = {}
            break
        problems[ref] = bad
    if problems:
        ref, (t, v, b, mults, exp) = sorted(problems.items())[0]
        # name the clause: which single factor, replaced by another value of the chart, explains the number?
        all_mults = {mu for _, mu in svs} | {1.0}
        all_refs = {x for _, x in tempo} | ({float(override)} if override else set())
        if has_sv and any(_rel_ok(v, b / ref * mu) for mu in all_mults):
            kind = "speed-sv"
        elif any(_rel_ok(v, bb / ref * mu) for mu in mults for _, bb in tempo):
            kind = "speed-active-bpm"
        elif any(_rel_ok(v * r2, b * mu) for mu in mults for r2 in all_refs):
            kind = "speed-reference"
        else:
            kind = "speed-value"
        ctx.fail(kind, f"t={t}: speed {v!r}, expected one of {exp} (active bpm {b}, reference {ref}{' override' if override else ''}, allowed multipliers {mults}); index={items}")

    # (3) SV normalisation ---------------------------------------------------------
    if not has_sv:
        _unmodified(ctx, chart, m, before, override)
        return
    out = ctx.call("sv_normalize", sv_normalize, m, override)
    _unmodified(ctx, chart, m, before, override)
    if type(out) is not type(m.svs):
        ctx.fail("normalize-type", f"{type(out).__name__} vs {type(m.svs).__name__}")
    rows_ = ctx.call("sv_normalize-read", B.rows, out)
    got = sorted((float(r["offset"]), float(r["multiplier"])) for r in rows_)
    if len(got) != len(tempo):
        ctx.fail("normalize-count", f"{len(got)} SVs for {len(tempo)} tempo points: {got}")
    if [t for t, _ in got] != times:
        ctx.fail("normalize-times", f"SV times {[t for t, _ in got]} vs tempo times {times}")
        return
    problems = {}
    for ref in refs:
        bad = [(t, mu, b) for (t, mu), (_, b) in zip(got, tempo) if not _rel_ok(mu * b, ref)]
        if not bad:
            problems = {}
            break
        problems[ref] = bad[0]
    if problems:
        ref, (t, mu, b) = sorted(problems.items())[0]
        ctx.fail("normalize-multiplier", f"t={t}: multiplier {mu!r} * bpm {b} = {mu * b!r}, reference {ref}{' (override)' if override else ''}; all={got}")


SUBS = [
    Sub("layouts", check, strategy=case_st, examples={"quick": 400, "thorough": 2000}, shards={"quick": 16, "thorough": 16}),
    Sub(
        "lattice",
        check,
        enumerate=lattice_cases,
        shards={"quick": 8, "thorough": 16},
        exhaustive=True,
        doc="every tempo layout of <=3 points on {0,100,200} (thorough {0,..,300}) x {100,200} bpm x row order x every placement of <=2 SVs on the lattice -100..last slot+200",
    ),
]

MANIFEST = dict(
    technique="property-based testing + exhaustive enumeration of a small lattice: generated tempo/SV/object layouts of all five games vs a plain-Python accumulation of active time per bpm value and step-function model of the active bpm and SV",
    level_text="Exploration with an exhaustive core: every tempo layout of up to 3 points on a 3-point lattice (2 bpm values, every row order; 78 layouts) combined with every placement of up to 2 SVs on a 6-point lattice (28) is checked for osu and Quaver in the quick tier (thorough: 4-point lattice, 248 layouts x 36 SV placements x 3 object layouts), and thousands of generated charts per run (five games, shuffled rows, repeated and near-equal bpm values, ties, SVs on tempo points / on each other / before the first tempo point / after the last object, holds whose tail is the latest time, tempo points after the last object, override or not) agree with an independent reference for dominant_bpm (validity predicate: a maximiser under one of the readings of 'last object'), scroll_speed (every index entry from the first tempo point on; index contains every breakpoint) and sv_normalize (count, times, multiplier*bpm == reference); the argument is strictly snapshotted before the first and after the last call.",
    level_note="trusted: the 60-line reference in vlib/props/C19.py, vlib/gen/build.py; deliberately weak: which reading of 'last object' (any accepted), ties, speed before the first tempo point (unasserted)",
)
