"""C17 Full-LN generation keeps every note and fills gaps by the stated rule."""
from __future__ import annotations

from fractions import Fraction as F

from hypothesis import strategies as st

from vlib.core import Sub
from vlib.gen import build

PROPERTY_ID = "C17"
RULE = (
    "Hypothesis-generated charts of each of the five games holding hits and holds only (StepMania's other note lists "
    "empty; tempo, SV and stop lists populated): notes are laid out per column either by a forward walk whose steps "
    "are drawn from {0 (stack, optional), gap+threshold (exact boundary), gap+threshold-1/8, gap+threshold+1, gap, "
    "gap-1, nice and random steps} or from a shared pool of times (chords, stacks); columns with 0, 1 and many notes; "
    "rows of both lists shuffled; gap and threshold >= 0 as ints and floats (0 included). 'exact' cases use multiples "
    "of 1/8 ms so that next-t-gap and the comparison with the threshold are exact in binary floating point; 'float' "
    "cases use 3-decimal values and a comparison within 1e-6 of the boundary accepts either kind. Oracle: plain-Python "
    "per-column walk over the generated rows. Non-trivial = some column has >= 3 notes mixing hits and holds."
)
ASSUMPTIONS = [
    "only hits and holds are populated among note lists (the statement speaks of hits and holds; StepMania mines, rolls, ... are left empty)",
    "for k notes stacked on one (time, column) either processing order is accepted: k-1 of them see a next note 0 ms away, one sees the following time",
    "float cases: a gap within 1e-6*max(1,|thr|) of the threshold may become either kind; lengths compared with 1e-6*max(1,|a|)",
    "fields of notes other than time, column, kind and length are not compared (the statement does not mention them)",
]

_NOTE_LISTS = ("hits", "holds")
_SM_OTHER_NOTES = ("fakes", "lifts", "keysounds", "mines", "rolls")


# ---------------------------------------------------------------------------
# generator
# ---------------------------------------------------------------------------
def _q8(x: float) -> float:
    return round(x * 8) / 8


@st.composite
def _num(draw, exact: bool, lo: float, hi: float):
    k = draw(st.integers(0, 3))
    if k == 0:
        return draw(st.integers(int(lo), int(hi)))  # python int on purpose
    if k == 1:
        return float(draw(st.integers(int(lo), int(hi))))
    x = draw(st.floats(lo, hi, allow_nan=False))
    return _q8(x) if exact else round(x, 3)


@st.composite
def case_st(draw, tier):
    big = tier == "thorough"
    game = draw(st.sampled_from(build.games()))
    keys = draw(st.sampled_from(build.KEYS[game]))
    exact = draw(st.integers(0, 3)) != 0
    stacks = draw(st.booleans())
    gap = draw(st.one_of(st.sampled_from([0, 0.0, 50, 150, 150.0]), _num(exact, 0, 400)))
    thres = draw(st.one_of(st.sampled_from([0, 0.0, 100, 100.0, 50]), _num(exact, 0, 400)))
    bound = float(gap) + float(thres)
    if exact:
        bound = _q8(bound)
    max_per_col = 10 if big else 5
    max_notes = 60 if big else 16
    mode = draw(st.sampled_from(["walk", "walk", "pool"]))
    length_st = st.one_of(st.none(), st.none(), st.sampled_from([125.0, 250.0, 50.0]), st.floats(0.5, 3000.0, allow_nan=False).map(_q8 if exact else (lambda x: round(x, 3))))
    notes = []  # [t, col, length|None]
    lo_n = 0 if draw(st.integers(0, 19)) == 0 else 1
    if mode == "walk":
        steps = [bound, bound, bound + 1, max(0.0, bound - 0.125), float(gap), max(0.0, float(gap) - 1), 125.0, 250.0, 1000.0]
        if stacks:
            steps += [0.0]
        step_st = st.one_of(st.sampled_from(steps), st.integers(1, 2000).map(float), st.floats(0.125, 2000.0, allow_nan=False).map(_q8 if exact else (lambda x: round(x, 3))))
        base = draw(st.sampled_from([0.0, 0.0, -500.0, 1000.0, 12345.0]))
        cols = draw(st.lists(st.integers(0, keys - 1), min_size=lo_n, max_size=min(keys, 5), unique=True))
        for c in cols:
            n = draw(st.integers(1, max_per_col))
            t = base + draw(st.sampled_from([0.0, 0.0, 125.0, 250.0]))
            for i in range(n):
                if len(notes) >= max_notes:
                    break
                if i:
                    s = draw(step_st)
                    if s <= 0 and not stacks:
                        s = 1.0
                    t = t + s
                    t = _q8(t) if exact else round(t, 3)
                notes.append([t, c, draw(length_st)])
    else:
        npool = draw(st.integers(1, 6))
        pool = [draw(st.one_of(st.integers(-8, 200).map(lambda i: i * 125.0), _num(exact, -2000, 100000).map(float))) for _ in range(npool)]
        # a few boundary partners
        pool += [p + bound for p in pool[:2]]
        pool = [(_q8(p) if exact else round(p, 3)) for p in pool]
        n = draw(st.integers(lo_n, max_notes))
        seen = set()
        for _ in range(n):
            t = draw(st.sampled_from(pool))
            c = draw(st.integers(0, min(keys, 4) - 1))
            if (t, c) in seen and not stacks:
                continue
            seen.add((t, c))
            notes.append([t, c, draw(length_st)])
    notes = list(draw(st.permutations(notes))) if notes else []

    # rows of the two note lists with every declared field of the game
    n_hit = sum(1 for x in notes if x[2] is None)
    n_hold = len(notes) - n_hit
    hit_rows = draw(build.st_rows(game, "hits", keys, n_hit, [0.0], min_rows=n_hit)) if n_hit else []
    hold_rows = draw(build.st_rows(game, "holds", keys, n_hold, [0.0], min_rows=n_hold)) if n_hold else []
    hi = ho = 0
    for t, c, ln in notes:
        if ln is None:
            hit_rows[hi].update(offset=float(t), column=c)
            hi += 1
        else:
            hold_rows[ho].update(offset=float(t), column=c, length=float(ln))
            ho += 1
    tpool = [0.0, 125.0, 1000.0, -250.0] + [float(x[0]) for x in notes[:4]]
    lists = {}
    for name in build.list_names(game):
        if name == "hits":
            lists[name] = hit_rows
        elif name == "holds":
            lists[name] = hold_rows
        elif name in _SM_OTHER_NOTES and game == "sm":
            lists[name] = []
        elif name == "bpms":
            lists[name] = draw(build.st_rows(game, name, keys, 3, tpool, min_rows=1))
        else:  # svs, stops
            lists[name] = draw(build.st_rows(game, name, keys, 3, tpool))
    chart = dict(game=game, keys=keys, lists=lists, meta=draw(build.st_meta(game, keys)))
    return dict(chart=chart, gap=gap, thres=thres, exact=exact)


# ---------------------------------------------------------------------------
# reference (plain python, no reamber)
# ---------------------------------------------------------------------------
def _tol(a) -> float:
    return 1e-6 * max(1.0, abs(float(a)))


def _rule_ok(out_len, d: F, thres: F, exact: bool):
    """Is output (None = hit | length) what the rule gives for remaining length d?  -> (ok, why)"""
    near = (not exact) and abs(d - thres) <= _tol(thres)
    want_hold = d >= thres
    if out_len is None:
        if want_hold and not near:
            return False, "hit-should-be-hold"
        return True, ""
    if not want_hold and not near:
        return False, "hold-should-be-hit"
    if exact:
        if F(out_len) != d:
            return False, "hold-length"
    elif abs(F(out_len) - d) > _tol(d):
        return False, "hold-length"
    return True, ""


def _same_note(out_len, in_len, exact):
    if (out_len is None) != (in_len is None):
        return False
    if out_len is None:
        return True
    return out_len == in_len if exact else abs(out_len - in_len) <= _tol(in_len)


def reference_check(in_notes, out_notes, gap, thres, exact):
    """in/out: lists of (t, col, length|None).  Returns list of (kind, msg)."""
    errs = []
    if sorted((t, c) for t, c, _ in in_notes) != sorted((t, c) for t, c, _ in out_notes):
        errs.append(("note-multiset", f"in={sorted((t, c) for t, c, _ in in_notes)} out={sorted((t, c) for t, c, _ in out_notes)}"))
        return errs
    g, th = F(gap), F(thres)
    cols = sorted({c for _, c, _ in in_notes})
    for c in cols:
        src = {}
        for t, cc, ln in in_notes:
            if cc == c:
                src.setdefault(t, []).append(ln)
        out = {}
        for t, cc, ln in out_notes:
            if cc == c:
                out.setdefault(t, []).append(ln)
        times = sorted(src)
        for i, t in enumerate(times):
            nxt = times[i + 1] if i + 1 < len(times) else None
            outs = out[t]
            k = len(outs)
            # tails of generated holds never pass the next note of the column
            if nxt is not None:
                for ln in outs:
                    if ln is not None and t + ln > nxt + (0 if exact else _tol(nxt)):
                        errs.append(("tail-overlap", f"col={c} t={t} len={ln} next={nxt} gap={gap} thres={thres}"))
            if k == 1:
                if nxt is None:
                    if not _same_note(outs[0], src[t][0], exact):
                        errs.append(("last-changed", f"col={c} t={t} in={src[t][0]} out={outs[0]}"))
                else:
                    ok, why = _rule_ok(outs[0], F(nxt) - F(t) - g, th, exact)
                    if not ok:
                        errs.append((why, f"col={c} t={t} next={nxt} gap={gap} thres={thres} out={outs[0]} d={float(F(nxt) - F(t) - g)}"))
                continue
            # stack: k-1 notes see the next note 0 ms away, one sees the next time (or is last)
            good = False
            for j in range(k):
                rest = outs[:j] + outs[j + 1 :]
                if not all(_rule_ok(o, -g, th, exact)[0] for o in rest):
                    continue
                if nxt is None:
                    if any(_same_note(outs[j], s, exact) for s in src[t]):
                        good = True
                        break
                elif _rule_ok(outs[j], F(nxt) - F(t) - g, th, exact)[0]:
                    good = True
                    break
            if not good:
                errs.append(("stack-mismatch", f"col={c} t={t} next={nxt} gap={gap} thres={thres} in={src[t]} out={outs}"))
    return errs


# ---------------------------------------------------------------------------
def _notes_of(m):
    out = []
    for r in build.rows(m.hits):
        out.append((float(r["offset"]), int(r["column"]), None))
    for r in build.rows(m.holds):
        out.append((float(r["offset"]), int(r["column"]), float(r["length"])))
    return out


def check(case, ctx):
    from reamber.algorithms.generate import full_ln

    chart, gap, thres, exact = case["chart"], case["gap"], case["thres"], case["exact"]
    game = chart["game"]
    in_notes = [(float(r["offset"]), int(r["column"]), None) for r in chart["lists"]["hits"]]
    in_notes += [(float(r["offset"]), int(r["column"]), float(r["length"])) for r in chart["lists"]["holds"]]
    m = build.build(chart)

    # classes
    per_col = {}
    for t, c, ln in in_notes:
        per_col.setdefault(c, []).append((t, ln))
    ctx.label("game=" + game)
    ctx.label("exact" if exact else "float")
    ctx.label("no-notes", not in_notes)
    ctx.label("gap=0", float(gap) == 0)
    ctx.label("thres=0", float(thres) == 0)
    ctx.label("int-params", isinstance(gap, int) and isinstance(thres, int))
    ctx.label("empty-column", len(per_col) < chart["keys"])
    ctx.label("single-note-column", any(len(v) == 1 for v in per_col.values()))
    times_all = [t for t, _, _ in in_notes]
    ctx.label("chord", len({(t, c) for t, c, _ in in_notes}) > len(set(times_all)))
    ctx.label("stack", len({(t, c) for t, c, _ in in_notes}) < len(in_notes))
    nt = False
    for c, v in per_col.items():
        ts = sorted({t for t, _ in v})
        kinds = {ln is None for _, ln in v}
        if len(v) >= 3 and len(kinds) == 2:
            nt = True
        last_t = ts[-1]
        ctx.label("last-is-hold", any(ln is not None for t, ln in v if t == last_t))
        ctx.label("last-is-hit", any(ln is None for t, ln in v if t == last_t))
        for a, b in zip(ts, ts[1:]):
            d = F(b) - F(a) - F(gap)
            ctx.label("boundary d==thres", d == F(thres))
            ctx.label("d<0", d < 0)
            ctx.label("d>thres", d > F(thres))
            ctx.label("0<=d<thres", 0 <= d < F(thres))
    ctx.nt(nt)
    hits_order = [r["offset"] for r in chart["lists"]["hits"]] + [r["offset"] for r in chart["lists"]["holds"]]
    ctx.label("rows-unsorted", hits_order != sorted(hits_order))

    before = build.snapshot(m)
    others_before = {k: build.rows(v) for k, v in m.objs.items() if k not in _NOTE_LISTS}

    r = ctx.call("full_ln", full_ln, m, gap=gap, ln_as_hit_thres=thres)

    out_notes = ctx.call("read-result", _notes_of, r)
    for kind, msg in reference_check(in_notes, out_notes, gap, thres, exact):
        ctx.fail(kind, msg)

    for name, rows_ in others_before.items():
        got = ctx.call("read-other", lambda n=name: build.rows(r.objs[n]))
        if not build.same_value(got, rows_):
            ctx.fail("other-list-changed", f"{name}: {rows_} -> {got}")
    after = build.snapshot(m)
    if after != before:
        ctx.fail("input-modified", _diff(before, after))


def _diff(a, b):
    for k in a.get("lists", {}):
        if a["lists"][k] != b["lists"].get(k):
            return f"list {k}: {a['lists'][k]} -> {b['lists'].get(k)}"
    return "metadata changed"


SUBS = [
    Sub("full_ln", check, strategy=case_st, examples={"quick": 500, "thorough": 4000}, shards={"quick": 6, "thorough": 16}),
]

MANIFEST = dict(
    technique="property-based testing: Hypothesis-generated hit/hold charts of all five games with boundary-aimed column walks vs a plain-Python per-column reference of the stated rule",
    level_text="Exploration: thousands of generated charts per run (five games, chords, stacks, empty and single-note columns, exact boundary next-t-gap==threshold, zero gap/threshold, shuffled rows) agree with an independent per-column reference; conservation of the (time, column) multiset, the last-note rule, the no-overlap clause and immutability of tempo/SV/stop lists and of the input are checked on every case. Sampling cannot prove absence; the routine has four branches and every one is labelled and hit hundreds of times per run.",
    level_note="trusted: the 60-line reference in vlib/props/C17.py, vlib/gen/build.py, Hypothesis; domain: hits and holds only, gap >= 0, threshold >= 0",
)
