"""C03 StepMania writing produces a file that denotes the in-memory mapset."""
from __future__ import annotations

import math
import os
import shutil
import tempfile
from fractions import Fraction as F
from math import lcm

from hypothesis import strategies as st

from vlib.core import Sub
from vlib.gen import build as B
from vlib.gen import sm as gen
from vlib.ref import sm as ref

PROPERTY_ID = "C03"
RULE = (
    "In-memory SMMapSets obtained through four histories. built: Hypothesis beat-space skeletons (vlib/gen/sm.py, "
    "'snap' mode: object beat = active tempo change + whole beats + k/d with d from the documented snapping grid, "
    ">= 1/96 beat between two objects of a column, leading empty measures, crowded measures whose row LCM exceeds "
    "384, 1..3 charts sharing one tempo list, the seven chart types reamber has a key count for, all seven object "
    "kinds, all 19 header fields incl. selectable=False, now and then a chart without objects; in a third of the "
    "cases two objects of one column exactly 1/96 beat apart are added - lift+fake, a 1/96-beat hold or roll, a roll "
    "head 1/96 after a hold tail - with an optional 1/5, 1/7 or 1/9 neighbour that caps the measure) built through the "
    "public constructors with ms from the exact tempo integrator; read: SMMapSet.read of such a skeleton rendered to "
    ".sm text with the C02 renderer (tempo on measure lines 3/4, on the 1/48 grid 1/4); rate: .rate(r) of any of "
    "them, r in {0.5,0.75,1.25,1.5,2}; in a third of all cases the mapset was already written once before (and before "
    "the rate change when there is one); convert: OsuToSM / QuaToSM of a generated osu / Quaver chart (3,4,6,7,8 "
    "columns, constant or measure-line tempo list from {60,75,100,120,150,187.5,200,240} bpm, integer-ms file "
    "offset = first tempo point, hits and holds on the 1/4-beat grid: every ms exact in binary). The mapset is "
    "classified from its own lists: A = every tempo point on a measure line and every measure's row LCM <= 384 "
    "(exact clause), B = tempo points elsewhere on the 1/48 grid and/or a capped measure (grid clause, beat space). "
    "Oracle: vlib/ref/sm.py on write() / write_file(); header also through SMMapSet.read of the text; stability "
    "through g1=read(write(x)), write(g1), read(write(g1)). "
    "Non-trivial = two measures of a chart need different row counts, or a capped measure, or selectable=False, or "
    "a rated or converted history."
)
ASSUMPTIONS = [
    "domain: #OFFSET equals the first tempo point and all charts share one tempo list (asserted on the un-rated base; a "
    "rate change is part of the history, so the rated mapset is not re-checked for it: a rate that leaves the file offset "
    "behind shows up as an origin/time mismatch)",
    "the mapset is classified from its in-memory lists alone (tempo point i is on the grid when its distance from point "
    "i-1 is k/48 beat of point i-1's bpm; an object is on the grid when its distance from the active tempo point is "
    "n + k/d beat, d in (1,2,3,4,5,6,7,8,9,12,16,32,64,96); both within 2e-7*max(1,|ms|) ms)",
    "class A times: |file ms - memory ms| <= 1e-6*max(1,|ms|) (lengths: twice that, at the tail); class B: |file beat - "
    "memory beat| <= 1/96 + 1e-9 where the file beat is 4*measure + 4*row/rows and the memory beat is the inverse of the "
    "reference integrator over the in-memory tempo list; #BPMS beats by the same rule (A: 1e-6 beat), bpm values rel 1e-9",
    "a mapset read from a text with a mid-measure tempo change carries the re-seated tempo list; when its objects are then "
    "off the snapping grid of that list (outside the quantifier: two objects >= 1/96 beat apart may legitimately share a "
    "row) the case is counted as excluded; the same situation inside the stability clause (g1 of a class-B mapset) is "
    "asserted only when g1's tempo points are on measure lines and two objects of a column are >= 1/64 beat apart (snap "
    "<= 1/192 + floor < 1/96 cannot merge them), then within 1/96 beat of g1's own beat space; otherwise the second "
    "generation is only required to be written (observed: the writer can then put a hold's head and tail, 1/96 beat apart, "
    "on one row and produce an unbalanced file)",
    "stability compares tempo lists as step functions (consecutive points with the same bpm merged): reading re-seats "
    "and may insert a redundant point through float rounding (DESIGN section 4 (i))",
    "header values contain none of ':' ';' '/' '\\' '#', no control characters and no leading/trailing blanks (the "
    "format cannot carry them); groove radar has >= 1 value",
    "seconds<->ms header fields compared within 1e-6*max(1,|ms|); strings and selectable exactly",
    "objects g1 vs x are not compared directly (that is C02 applied to the written text); header fields are",
]

RATES = [0.5, 0.75, 1.25, 1.5, 2.0]
NICE_BPM = [60.0, 75.0, 100.0, 120.0, 150.0, 187.5, 200.0, 240.0]
GRID = 1.0 / 96 + 1e-9
MERGE_SAFE_GAP = 1.0 / 64 - 1e-9
MAX_ROWS = 384
STR_FIELDS = list(ref.STRING_FIELDS)
SEC_FIELDS = ["sample_start", "sample_length"]


def _tol(x: float) -> float:
    return 1e-6 * max(1.0, abs(x))


def _ongrid_tol(x: float) -> float:
    return 2e-7 * max(1.0, abs(x))


# --------------------------------------------------------------------------- #
# generators
# --------------------------------------------------------------------------- #
def _rate_st():
    return st.one_of(st.none(), st.none(), st.sampled_from(RATES))


_io_st = st.sampled_from(["str", "str", "file"])
#: the mapset has already been written once earlier in its history (before a rate change, when there is one)
_prewrite_st = st.sampled_from([False, False, True])


#: two objects of one column exactly 1/96 beat apart (the closest the quantifier allows), optionally in a crowded measure
_pair_st = st.fixed_dictionaries(
    dict(
        chart=st.integers(0, 2), col=st.integers(0, 7), m=st.integers(0, 4), q=st.integers(0, 3), k=st.integers(0, 94),
        kind=st.sampled_from(["taps", "holds", "rolls", "head-after-tail"]), crowd=st.sampled_from([0, 0, 5, 7, 9]),
    )
)


def _with_pair(sk, pair):
    """Skeleton + the pair (where the column is free there); deterministic."""
    ci = pair["chart"] % len(sk["charts"])
    ch = sk["charts"][ci]
    keys = int(ch["keys"])
    col = pair["col"] % keys
    p = F(4 * pair["m"] + pair["q"]) + F(pair["k"], 96)
    g = F(1, 96)

    def free(c, lo, hi):
        for kind, cc, b, ln in ch["notes"]:
            if int(cc) != c:
                continue
            b0 = F(b)
            b1 = b0 + (F(ln) if ln is not None else 0)
            if b0 - g < hi and b1 + g > lo:
                return False
        return True

    new = []
    if pair["kind"] == "head-after-tail":
        if not free(col, p - 1, p + g + 1):
            return sk
        new = [["holds", col, gen.frs(p - 1), "1/1"], ["rolls", col, gen.frs(p + g), "1/1"]] if p >= 1 else []
    elif free(col, p, p + g):
        if pair["kind"] == "taps":
            new = [["lifts", col, gen.frs(p), None], ["fakes", col, gen.frs(p + g), None]]
        else:
            new = [[pair["kind"], col, gen.frs(p), "1/96"]]
    if not new:
        return sk
    if pair["crowd"] and keys > 1:
        c2 = (col + 1) % keys
        base = max(F(b) for b, _ in sk["tempo"] if F(b) <= F(4 * pair["m"]))
        pc = base + ((F(4 * pair["m"]) - base) // 1) + 1 + F(1, pair["crowd"])
        nxt = [F(b) for b, _ in sk["tempo"] if F(b) > base]
        if (not nxt or pc < min(nxt)) and free(c2, pc, pc):
            new.append(["hits", c2, gen.frs(pc), None])
    out = dict(sk)
    out["charts"] = [dict(c, notes=list(c["notes"]) + new, rows=None) if i == ci else c for i, c in enumerate(sk["charts"])]
    return out


def built_st(tier):
    return st.fixed_dictionaries(
        dict(
            sk=gen.mapset_strategy(tier, mode="snap", tempo="mixed", chart_types="writable", max_charts=3, full_meta=True),
            rate=_rate_st(),
            io=_io_st,
            empty=st.sampled_from([None] * 11 + [0]),
            pair=st.one_of(st.none(), st.none(), _pair_st),
            relabel=st.sampled_from([False, False, True]),
            order=st.sampled_from([None, None, None, "reverse", "rotate", "evens-first"]),
            prewrite=_prewrite_st,
        )
    )


def _renderable(sk) -> bool:
    return all(c.get("rows") is not None for c in sk["charts"])


def read_st(tier):
    sk = st.sampled_from(["measure", "measure", "measure", "grid48"]).flatmap(
        lambda tempo: gen.mapset_strategy(
            tier, mode="snap", tempo=tempo, chart_types="writable", max_charts=3, max_rows=MAX_ROWS, full_meta=True
        ).filter(_renderable)
    )
    return st.fixed_dictionaries(dict(sk=sk, rate=_rate_st(), io=_io_st, prewrite=_prewrite_st))


@st.composite
def conv_st(draw, tier):
    """osu / Quaver chart in quarter-beat space: {"game", "keys", "offset_ms", "tempo": [[measure, bpm]],
    "notes": [[kind, column, quarter index, length in quarters | None]], "meta": {...}}"""
    big = tier == "thorough"
    game = draw(st.sampled_from(["osu", "qua"]))
    keys = draw(st.sampled_from([3, 4, 6, 7, 8] if game == "osu" else [3, 4, 6, 7]))
    off = float(draw(st.one_of(st.sampled_from([0, 1000, -500, 37]), st.integers(-5000, 60000))))
    tempo = [[0, draw(st.sampled_from(NICE_BPM))]]
    for _ in range(draw(st.integers(1, 6 if big else 3)) - 1):
        tempo.append([tempo[-1][0] + draw(st.integers(1, 3)), draw(st.sampled_from(NICE_BPM))])
    n_meas = tempo[-1][0] + draw(st.integers(1, 4))
    n_pool = draw(st.integers(1, 30 if big else 10))
    pool = sorted(set(draw(st.lists(st.integers(0, 16 * n_meas - 1), min_size=n_pool, max_size=n_pool))))
    cols = {keys - 1} | set(draw(st.lists(st.integers(0, keys - 1), max_size=min(keys, 4))))
    notes = []
    for col in sorted(cols):
        idx = draw(st.lists(st.integers(0, len(pool) - 1), min_size=1, max_size=min(8 if big else 4, len(pool)), unique=True))
        pos = sorted(pool[i] for i in idx)
        i = 0
        while i < len(pos):
            if i + 1 < len(pos) and draw(st.booleans()):
                notes.append(["holds", col, pos[i], pos[i + 1] - pos[i]])
                i += 2
            else:
                notes.append(["hits", col, pos[i], None])
                i += 1
    v = gen.value_st()
    if game == "osu":
        meta = dict(
            title=draw(v), title_unicode=draw(v), artist=draw(v), artist_unicode=draw(v), creator=draw(v),
            audio_file_name=draw(v), background_file_name=draw(v), preview_time=draw(st.integers(-1, 200000)),
        )
    else:
        meta = dict(
            title=draw(v), artist=draw(v), creator=draw(v), audio_file=draw(v), background_file=draw(v),
            song_preview_time=draw(st.integers(0, 200000)),
        )
    return dict(game=game, keys=keys, offset_ms=off, tempo=tempo, notes=notes, meta=meta)


def convert_st(tier):
    return st.fixed_dictionaries(dict(conv=conv_st(tier), rate=_rate_st(), io=_io_st, prewrite=_prewrite_st))


def _conv_ms(conv):
    """quarter index -> ms (exact in binary for the bpm table)."""
    starts = [float(conv["offset_ms"])]
    tempo = conv["tempo"]
    for (m0, v0), (m1, _) in zip(tempo, tempo[1:]):
        starts.append(starts[-1] + (m1 - m0) * 4 * (60000.0 / v0))

    def ms(q: int) -> float:
        i = max(j for j, (m, _) in enumerate(tempo) if 16 * m <= q)
        return starts[i] + (q - 16 * tempo[i][0]) * (60000.0 / tempo[i][1]) / 4

    return starts, ms


def _conv_plain(conv):
    """-> plain chart for vlib.gen.build.build"""
    starts, ms = _conv_ms(conv)
    hits = [dict(offset=ms(q), column=c) for k, c, q, ln in conv["notes"] if k == "hits"]
    holds = [dict(offset=ms(q), column=c, length=ms(q + ln) - ms(q)) for k, c, q, ln in conv["notes"] if k == "holds"]
    bpms = [dict(offset=t, bpm=float(v)) for t, (_, v) in zip(starts, conv["tempo"])]
    meta = dict(conv["meta"])
    if conv["game"] == "osu":
        meta["circle_size"] = float(conv["keys"])
    else:
        meta["mode"] = "Keys7" if conv["keys"] > 4 else "Keys4"
        for row in hits + holds:
            row["keysounds"] = []
    return dict(game=conv["game"], keys=conv["keys"], lists=dict(hits=hits, holds=holds, bpms=bpms), meta=meta)


# --------------------------------------------------------------------------- #
# reference side: analysis of an in-memory mapset (plain snapshot, no reamber)
# --------------------------------------------------------------------------- #
def _snap(rel: float) -> F:
    """Nearest point of the documented snapping grid {n + k/d}."""
    q = math.floor(rel)
    frac = rel - q
    best_e, best = None, None
    for d in ref.SNAP_DIVISIONS:
        k = round(frac * d)
        e = abs(frac - k / d)
        if best_e is None or e < best_e:
            best_e, best = e, F(k, d)
    return best + q


def _analyse(snap: dict) -> dict:
    """Beat positions of an in-memory mapset from its own tempo list.

    -> {"ok": domain verdict | reason, "cls": "A" | "B-cap" | "B-mid" | "B-mid+cap", "on_lines", "tempo_on_grid",
        "objects_on_grid", "capped", "min_gap" (beats, one column), "first_ms", "pts", "cum" (tempo beats),
        "tl" (beat<->ms of the list), "need": [[rows per measure] per chart],
        "charts": [{kind: [{"column","offset","beat" (Fraction, snapped),"fbeat" (float)[,"length","tail","ftail"]}]}]}"""
    charts = snap["charts"]
    an = dict(ok=None)
    if not charts:
        an["ok"] = "no charts"
        return an
    pts = sorted((float(t), float(v)) for t, v in charts[0]["bpms"])
    if not pts:
        an["ok"] = "no tempo point"
        return an
    an["pts"] = pts
    an["first_ms"] = pts[0][0]

    def same_list(other):
        o = sorted((float(t), float(v)) for t, v in other)
        return len(o) == len(pts) and all(abs(a[0] - b[0]) <= _tol(b[0]) and abs(a[1] - b[1]) <= 1e-9 * abs(b[1]) for a, b in zip(o, pts))

    an["shared"] = all(same_list(c["bpms"]) for c in charts[1:])
    if any(not (v > 0) for _, v in pts) or any(not (t1 > t0) for (t0, _), (t1, _) in zip(pts, pts[1:])):
        an["ok"] = "tempo list with a non-positive bpm or two points at one time"
        return an
    tl = ref.timeline_from_ms(pts)
    cum = [F(0)]
    tempo_on_grid = True
    for (t0, v0), (t1, _) in zip(pts, pts[1:]):
        rel = (t1 - t0) * v0 / 60000.0
        k = round(rel * 48)
        if k <= 0 or abs(rel - k / 48) * 60000.0 / v0 > _ongrid_tol(t1):
            tempo_on_grid = False
        cum.append(cum[-1] + F(max(k, 1), 48))
    an.update(tl=tl, cum=cum, tempo_on_grid=tempo_on_grid, on_lines=tempo_on_grid and all(b % 4 == 0 for b in cum))

    flags = dict(on_grid=True, before_first=False)

    def locate(ms: float):
        i = tl.seg_of_ms(ms)
        t0, v0 = pts[i]
        rel = (ms - t0) * v0 / 60000.0
        s = _snap(rel)
        if abs(rel - float(s)) * 60000.0 / v0 > _ongrid_tol(ms):
            flags["on_grid"] = False
        if ms < pts[0][0] - _tol(ms):
            flags["before_first"] = True
        return max(cum[i] + s, F(0)), tl.beat_of(ms)

    out_charts, needs = [], []
    min_gap = None
    for c in charts:
        oc = {}
        events = []
        for kind in ref.KINDS:
            lst = []
            for o in c[kind]:
                hb, hf = locate(o["offset"])
                rec = dict(column=int(o["column"]), offset=float(o["offset"]), beat=hb, fbeat=hf)
                events.append((rec["column"], hf, hb))
                if kind in ref.LONG_KINDS:
                    tb, tf = locate(o["offset"] + o["length"])
                    rec.update(length=float(o["length"]), tail=tb, ftail=tf)
                    events.append((rec["column"], tf, tb))
                lst.append(rec)
            oc[kind] = lst
        out_charts.append(oc)
        events.sort(key=lambda e: (e[0], e[1]))
        for (c0, f0, _), (c1, f1, _) in zip(events, events[1:]):
            if c0 == c1:
                min_gap = f1 - f0 if min_gap is None else min(min_gap, f1 - f0)
        need = {}
        last = -1
        for _, _, b in events:
            m = int(b // 4)
            last = max(last, m)
            need[m] = lcm(need.get(m, 4), ((b - 4 * m) / 4).denominator)
        needs.append([need.get(m, 4) for m in range(last + 1)])
    capped = any(n > MAX_ROWS for nd in needs for n in nd)
    an.update(
        charts=out_charts, need=needs, capped=capped, min_gap=min_gap, objects_on_grid=flags["on_grid"],
        before_first=flags["before_first"],
    )
    mid = not an["on_lines"]
    an["cls"] = "A" if not mid and not capped else ("B-cap" if not mid else ("B-mid+cap" if capped else "B-mid"))
    return an


def _domain(an: dict):
    """None when the mapset is inside the quantifier, else the reason."""
    if an["ok"] is not None:
        return an["ok"]
    if not an["shared"]:
        return "charts with different tempo lists"
    if an["before_first"]:
        return "object before the first tempo point"
    if not an["tempo_on_grid"]:
        return "tempo point off the 1/48 grid of the in-memory list"
    if not an["objects_on_grid"]:
        return "object off the snapping grid of the in-memory (re-seated) tempo list"
    if an["min_gap"] is not None and an["min_gap"] < 1.0 / 96 - 1e-9:
        return "two objects of a column < 1/96 beat apart in the in-memory (re-seated) beat space"
    return None


# --------------------------------------------------------------------------- #
# comparisons
# --------------------------------------------------------------------------- #
def _parse(ctx, kind_prefix, text):
    try:
        p = ref.parse(text)
    except ref.SMRefError as e:
        ctx.fail(kind_prefix + "syntax:uninterpretable", f"{e}; text starts {text[:200]!r}")
        ctx.stop()
    seen = set()
    for code, msg in p["problems"]:
        if code not in seen:
            seen.add(code)
            ctx.fail(kind_prefix + "syntax:" + code, msg)
    for ci, c in enumerate(p["charts"]):
        want = gen.WRITABLE_KEYS.get(c["chart_type"])
        if c["keys"] is not None and want is not None and c["row_widths"] != [want] and "row-width-mixed" not in seen:
            ctx.fail(kind_prefix + "syntax:row-width", f"chart {ci} ({c['chart_type']}): rows are {c['row_widths']} wide, chart type has {want} columns")
    if p["stops"]:
        ctx.fail(kind_prefix + "stops-invented", f"stops written for a mapset without stops: {p['stops'][:3]}")
    return p


def _radar_eq(a, b):
    return a is not None and b is not None and len(a) == len(b) and all(abs(x - y) <= 1e-9 * max(1.0, abs(y)) for x, y in zip(a, b))


def _cmp_chart_header(ctx, pre, ci, got, exp):
    for f in ("chart_type", "description", "difficulty", "difficulty_val"):
        if got[f] != exp[f]:
            ctx.fail(f"{pre}chart-header:{f}", f"chart {ci}: got {got[f]!r}, in memory {exp[f]!r}")
    if not _radar_eq(got["groove_radar"], exp["groove_radar"]):
        ctx.fail(f"{pre}chart-header:groove_radar", f"chart {ci}: got {got['groove_radar']}, in memory {exp['groove_radar']}")


def _cmp_file(ctx, pre, parsed, snap, an, exact: bool, times: bool = True):
    """The parsed file against the in-memory mapset (snapshot + analysis)."""
    # time origin: beat 0 of the file is the first tempo point
    if times and not abs(parsed["offset_ms"] - an["first_ms"]) <= _tol(an["first_ms"]):
        ctx.fail(pre + "origin", f"#OFFSET puts beat 0 at {parsed['offset_ms']!r} ms, the first tempo point is at {an['first_ms']!r} ms")
    # tempo list
    fb = parsed["bpms"]
    if len(fb) != len(an["pts"]):
        ctx.fail(pre + "bpm-count", f"#BPMS has {len(fb)} entries, the tempo list {len(an['pts'])} points: {fb[:8]} vs {an['pts'][:8]}")
    elif times:
        for i, ((b, v), t_file, (t, bpm)) in enumerate(zip(fb, parsed["bpms_ms"], an["pts"])):
            if not abs(v - bpm) <= 1e-9 * abs(bpm):
                ctx.fail(pre + "bpm-value", f"#BPMS entry {i}: {v!r}, tempo point has {bpm!r}")
            if exact:
                if abs(float(F(b) - an["cum"][i])) > 1e-6:
                    ctx.fail(pre + "bpm-beat", f"#BPMS entry {i} at beat {b}, tempo point is at beat {an['cum'][i]}")
                elif not abs(t_file - t) <= _tol(t):
                    ctx.fail(pre + "bpm-time", f"#BPMS entry {i} (beat {b}) sounds at {t_file!r} ms, tempo point at {t!r} ms")
            elif abs(float(F(b)) - float(an["tl"].beats[i])) > GRID:
                ctx.fail(pre + "bpm-grid", f"#BPMS entry {i} at beat {float(F(b))!r}, tempo point is at beat {float(an['tl'].beats[i])!r}")
    # charts
    if len(parsed["charts"]) != len(snap["charts"]):
        ctx.fail(pre + "chart-count", f"{len(parsed['charts'])} #NOTES, {len(snap['charts'])} charts in memory")
        return
    for ci, (fc, mc, ac) in enumerate(zip(parsed["charts"], snap["charts"], an["charts"])):
        _cmp_chart_header(ctx, pre, ci, fc, mc)
        for kind in ref.KINDS:
            long = kind in ref.LONG_KINDS
            fo = sorted(fc[kind], key=lambda o: (o["column"], F(o["beat"])))
            mo = sorted(ac[kind], key=lambda o: (o["column"], o["offset"]))
            if len(fo) != len(mo):
                ctx.fail(f"{pre}count", f"{kind} chart {ci}: file has {len(fo)}, memory {len(mo)}; file {[(o['column'], o['beat']) for o in fo][:8]} memory {[(o['column'], str(o['beat'])) for o in mo][:8]}")
                continue
            if [o["column"] for o in fo] != [o["column"] for o in mo]:
                ctx.fail(f"{pre}column", f"{kind} chart {ci}: file columns {[o['column'] for o in fo]}, memory {[o['column'] for o in mo]}")
                continue
            if not times:
                continue
            for f, m in zip(fo, mo):
                where = f"chart {ci} column {m['column']} beat {m['beat']} ({m['offset']!r} ms)"
                if exact:
                    if not abs(f["offset"] - m["offset"]) <= _tol(m["offset"]):
                        ctx.fail(f"{pre}time", f"{kind} {where}: file says {f['offset']!r} ms (beat {f['beat']})")
                        break
                    if long and not abs(f["length"] - m["length"]) <= 2 * _tol(m["offset"] + m["length"]):
                        ctx.fail(f"{pre}length", f"{kind} {where}: file length {f['length']!r} ms ({f['length_beats']} beats), memory {m['length']!r} ms")
                        break
                else:
                    if abs(float(F(f["beat"])) - m["fbeat"]) > GRID:
                        ctx.fail(f"{pre}grid", f"{kind} {where}: file beat {float(F(f['beat']))!r}, memory beat {m['fbeat']!r}")
                        break
                    if long and abs(float(F(f["beat"]) + F(f["length_beats"])) - m["ftail"]) > GRID:
                        ctx.fail(f"{pre}grid-tail", f"{kind} {where}: file tail beat {float(F(f['beat']) + F(f['length_beats']))!r}, memory tail beat {m['ftail']!r}")
                        break


def _cmp_meta(ctx, pre, got: dict, exp: dict):
    for f in STR_FIELDS + ["selectable"]:
        if f not in got:
            ctx.fail(f"{pre}{f}", f"field not present; in memory {exp[f]!r}")
        elif got[f] != exp[f]:
            ctx.fail(f"{pre}{f}", f"got {got[f]!r}, in memory {exp[f]!r}")
    for f in SEC_FIELDS:
        if f not in got:
            ctx.fail(f"{pre}{f}", f"field not present; in memory {exp[f]!r}")
        elif got[f] is None or not abs(got[f] - exp[f]) <= _tol(exp[f]):
            ctx.fail(f"{pre}{f}", f"got {got[f]!r} ms, in memory {exp[f]!r} ms")


def _steps(bpms):
    """Tempo list as a step function: consecutive points of equal bpm merged."""
    out = []
    for t, v in sorted((float(t), float(v)) for t, v in bpms):
        if out and abs(out[-1][1] - v) <= 1e-9 * abs(v):
            continue
        out.append((t, v))
    return out


def _cmp_mem(ctx, pre, got: dict, exp: dict, an: dict, mode: str):
    """Second generation against the first (both snapshots).  mode: exact | grid"""
    _cmp_meta(ctx, pre + "header:", got["meta"], exp["meta"])
    if got["offset_ms"] is None or not abs(got["offset_ms"] - exp["offset_ms"]) <= _tol(exp["offset_ms"]):
        ctx.fail(pre + "header:offset", f"got {got['offset_ms']!r}, first generation {exp['offset_ms']!r}")
    if len(got["charts"]) != len(exp["charts"]):
        ctx.fail(pre + "chart-count", f"{len(got['charts'])} vs {len(exp['charts'])}")
        return
    tl = an.get("tl")
    for ci, (g, e) in enumerate(zip(got["charts"], exp["charts"])):
        _cmp_chart_header(ctx, pre, ci, g, e)
        sg, se = _steps(g["bpms"]), _steps(e["bpms"])
        if len(sg) != len(se) or any(abs(a[0] - b[0]) > _tol(b[0]) or abs(a[1] - b[1]) > 1e-9 * abs(b[1]) for a, b in zip(sg, se)):
            ctx.fail(pre + "tempo", f"chart {ci}: tempo steps {sg[:8]} vs first generation {se[:8]}")
        for kind in ref.KINDS:
            long = kind in ref.LONG_KINDS
            go = sorted(g[kind], key=lambda o: (o["column"], o["offset"]))
            eo = sorted(e[kind], key=lambda o: (o["column"], o["offset"]))
            if len(go) != len(eo):
                ctx.fail(f"{pre}count", f"{kind} chart {ci}: {len(go)} vs first generation {len(eo)}")
                continue
            if [o["column"] for o in go] != [o["column"] for o in eo]:
                ctx.fail(f"{pre}column", f"{kind} chart {ci}: columns {[o['column'] for o in go]} vs {[o['column'] for o in eo]}")
                continue
            for a, b in zip(go, eo):
                where = f"chart {ci} column {b['column']} at {b['offset']!r} ms"
                if mode == "exact":
                    if not abs(a["offset"] - b["offset"]) <= _tol(b["offset"]):
                        ctx.fail(f"{pre}time", f"{kind} {where}: second generation {a['offset']!r} ms")
                        break
                    if long and not abs(a["length"] - b["length"]) <= 2 * _tol(b["offset"] + b["length"]):
                        ctx.fail(f"{pre}length", f"{kind} {where}: length {a['length']!r} vs {b['length']!r} ms")
                        break
                else:
                    if abs(tl.beat_of(a["offset"]) - tl.beat_of(b["offset"])) > GRID:
                        ctx.fail(f"{pre}grid", f"{kind} {where} (beat {tl.beat_of(b['offset'])!r}): second generation {a['offset']!r} ms (beat {tl.beat_of(a['offset'])!r})")
                        break
                    if long and abs(tl.beat_of(a["offset"] + a["length"]) - tl.beat_of(b["offset"] + b["length"])) > GRID:
                        ctx.fail(f"{pre}grid-tail", f"{kind} {where}: tail {a['offset'] + a['length']!r} vs {b['offset'] + b['length']!r} ms")
                        break


def _cmp_files(ctx, pre, p2: dict, p1: dict):
    """Two parsed files denote the same objects at the same times (exact rule)."""
    if len(p2["charts"]) != len(p1["charts"]):
        ctx.fail(pre + "chart-count", f"{len(p2['charts'])} vs {len(p1['charts'])}")
        return
    for ci, (c2, c1) in enumerate(zip(p2["charts"], p1["charts"])):
        for kind in ref.KINDS:
            o2, o1 = ref.objects(c2, kind), ref.objects(c1, kind)
            if len(o2) != len(o1) or [o[0] for o in o2] != [o[0] for o in o1]:
                ctx.fail(f"{pre}objects", f"{kind} chart {ci}: second file {o2[:6]} first file {o1[:6]}")
                continue
            for a, b in zip(o2, o1):
                if any(abs(x - y) > 2 * _tol(b[1] + (b[2] if len(b) > 2 else 0.0)) for x, y in zip(a[1:], b[1:])):
                    ctx.fail(f"{pre}time", f"{kind} chart {ci}: second file {a}, first file {b}")
                    break


# --------------------------------------------------------------------------- #
# code under test
# --------------------------------------------------------------------------- #
def _write(ms, io: str) -> str:
    if io == "file":
        d = tempfile.mkdtemp(prefix="c03_")
        try:
            path = os.path.join(d, "out.sm")
            ms.write_file(path)
            with open(path, "r", encoding="utf8", newline="") as fh:
                return fh.read()
        finally:
            shutil.rmtree(d, ignore_errors=True)
    out = ms.write()
    return "\n".join(out) if isinstance(out, list) else out


def _read(text):
    from reamber.sm import SMMapSet

    return SMMapSet.read(text)


def _convert(conv):
    src = B.build(_conv_plain(conv))
    if conv["game"] == "osu":
        from reamber.algorithms.convert import OsuToSM

        return OsuToSM.convert(src)
    from reamber.algorithms.convert import QuaToSM

    return QuaToSM.convert(src)


def _labels(ctx, snap, an, hist, rate):
    ctx.label("history=" + hist + ("+rate" if rate else ""))
    ctx.label("class=" + an["cls"])
    ctx.label("class=" + an["cls"][0])
    ctx.label("charts=%d" % len(snap["charts"]))
    ctx.label("selectable=False", snap["meta"]["selectable"] is False)
    ctx.label("tempo-points>=2", len(an["pts"]) >= 2)
    ctx.label("tempo-mid-measure", not an["on_lines"])
    ctx.label("capped-measure", an["capped"])
    ctx.label("rows=384-exactly", any(n == MAX_ROWS for nd in an["need"] for n in nd))
    ctx.label("leading-empty-measure", any(len(nd) > 1 and nd[0] == 4 and not any(int(o["beat"] // 4) == 0 for k in ref.KINDS for o in ac[k]) for nd, ac in zip(an["need"], an["charts"])))
    ctx.label("empty-chart", any(not any(ac[k] for k in ref.KINDS) for ac in an["charts"]))
    ctx.label("rows-differ", any(len(set(nd)) >= 2 for nd in an["need"]))
    ctx.label("gap=1/96", an["min_gap"] is not None and an["min_gap"] <= 1.0 / 96 + 1e-9)
    for c in snap["charts"]:
        ctx.label("type=" + c["chart_type"])
    for k in ref.KINDS:
        ctx.label("kind:" + k, any(ac[k] for ac in an["charts"]))
    ctx.label("hold-spans-measures", any(int(o["beat"] // 4) != int(o["tail"] // 4) for ac in an["charts"] for k in ref.LONG_KINDS for o in ac[k]))
    ctx.label("negative-offset", an["first_ms"] < 0)
    if rate:
        ctx.label("rate=%s" % rate)


def _core(ctx, x, hist: str, rate, io: str, sk=None):
    """x: the in-memory SMMapSet under test (already rated when rate is given; its un-rated base passed _base_domain)."""
    snap = ctx.call("snapshot", gen.snapshot, x)
    an = _analyse(snap)
    why = _domain(an)
    if why is None and not rate and (snap["offset_ms"] is None or abs(snap["offset_ms"] - an["first_ms"]) > _tol(an["first_ms"])):
        why = "file offset differs from the first tempo point"
    if why is not None:
        ctx.harness(hist != "built" or bool(rate), f"built mapset outside the domain: {why}")
        ctx.exclude(("rated: " if rate else "") + why)
    if sk is not None and not rate:
        _skeleton_sanity(ctx, sk, an)
    _labels(ctx, snap, an, hist, rate)
    ctx.nt(
        any(len(set(nd)) >= 2 for nd in an["need"]) or an["capped"] or snap["meta"]["selectable"] is False or bool(rate) or hist in ("osu", "qua")
    )
    exact = an["cls"] == "A"

    # ---- write, interpret by the StepMania rules --------------------------
    ctx.label("io=" + io)
    text = ctx.call("write", _write, x, io)
    if not isinstance(text, str):
        ctx.fail("write-type", f"write produced {type(text).__name__}")
        return
    p1 = _parse(ctx, "", text)
    _cmp_file(ctx, "", p1, snap, an, exact)
    # header through the reference tokenizer
    _cmp_meta(ctx, "header-file:", p1["meta"], snap["meta"])

    # ---- header through reamber's reader -----------------------------------
    g1 = ctx.call("reread", _read, text)
    s1 = ctx.call("snapshot-reread", gen.snapshot, g1)
    _cmp_meta(ctx, "header:", s1["meta"], snap["meta"])
    if s1["offset_ms"] is None or snap["offset_ms"] is None or not abs(s1["offset_ms"] - snap["offset_ms"]) <= _tol(snap["offset_ms"]):
        ctx.fail("header:offset", f"read back {s1['offset_ms']!r}, in memory {snap['offset_ms']!r}")
    if len(s1["charts"]) != len(snap["charts"]):
        ctx.fail("reread-chart-count", f"{len(s1['charts'])} vs {len(snap['charts'])}")
        return
    for ci, (g, e) in enumerate(zip(s1["charts"], snap["charts"])):
        _cmp_chart_header(ctx, "reread-", ci, g, e)

    # ---- stability ---------------------------------------------------------
    an1 = _analyse(s1)
    why1 = an1["ok"] or (None if an1["shared"] else "tempo lists differ") or (None if not an1["before_first"] else "object before first tempo point")
    if why1 is not None:
        ctx.fail("stability:first-generation", f"read(write(x)) is not a usable mapset: {why1}")
        return
    a_prime = an1["cls"] == "A" and an1["tempo_on_grid"] and an1["objects_on_grid"]
    if a_prime:
        mode = "exact"
    elif an1["tempo_on_grid"] and an1["on_lines"] and (
        (an1["objects_on_grid"] and (an1["min_gap"] is None or an1["min_gap"] >= 1.0 / 96 - 1e-9))
        or an1["min_gap"] is None
        or an1["min_gap"] >= MERGE_SAFE_GAP
    ):
        mode = "grid"
    else:
        mode = "unasserted"
    ctx.label("stability=" + mode)
    ctx.label("first-generation-off-grid", not an1["objects_on_grid"])
    text2 = ctx.call("write-2", _write, g1, "str")
    if mode == "unasserted":
        # g1 is outside the quantifier (objects off the grid of its re-seated tempo list and closer than the
        # writer's grid can keep apart): the second generation is only required to be produced
        return
    p2 = _parse(ctx, "stability-file:", text2)
    g2 = ctx.call("reread-2", _read, text2)
    s2 = ctx.call("snapshot-reread-2", gen.snapshot, g2)
    _cmp_file(ctx, "stability-file:", p2, s1, an1, mode == "exact")
    _cmp_mem(ctx, "stability:", s2, s1, an1, mode)
    if an["cls"] in ("A", "B-cap") and mode == "exact":
        _cmp_files(ctx, "stability-ref:", p2, p1)


def _rated(ctx, base, rate, prewrite=False):
    if prewrite:
        # an earlier write is an ordinary step of a history: whatever it leaves behind in the objects must not
        # leak into what a later write (of this mapset or of one derived from it) denotes
        ctx.call("history:write-before", _write, base, "str")
        ctx.label("written-before" + ("-rate" if rate else ""))
    if not rate:
        return base
    return ctx.call("history:rate", base.rate, rate)


def _base_domain(ctx, base, hist):
    """The un-rated base of a rated mapset must itself be inside the quantifier."""
    snap = ctx.call("snapshot-base", gen.snapshot, base)
    an = _analyse(snap)
    why = _domain(an)
    if why is None and (snap["offset_ms"] is None or abs(snap["offset_ms"] - an["first_ms"]) > _tol(an["first_ms"])):
        why = "file offset differs from the first tempo point"
    if why is not None:
        ctx.harness(hist != "built", f"built mapset outside the domain: {why}")
        ctx.exclude(why)


def _skeleton_sanity(ctx, sk, an):
    """Generator/analysis agreement for built mapsets: the analysis recovers the skeleton's exact beats."""
    ctx.harness([str(b) for b in an["cum"]] == [str(F(b)) for b, _ in sk["tempo"]], f"analysis tempo beats {an['cum']} != skeleton {sk['tempo']}")
    for ci, (c, ac) in enumerate(zip(sk["charts"], an["charts"])):
        exp = sorted((k, int(col), F(b), None if ln is None else F(b) + F(ln)) for k, col, b, ln in c["notes"])
        got = sorted((k, o["column"], o["beat"], o.get("tail")) for k in ref.KINDS for o in ac[k])
        ctx.harness(exp == got, f"chart {ci}: analysis beats {got[:6]} != skeleton {exp[:6]}")
        ctx.harness(an["need"][ci] == (gen.needed_rows(c) if c["notes"] else []), f"chart {ci}: rows needed {an['need'][ci]} != {gen.needed_rows(c)}")


def check_built(case, ctx):
    sk = case["sk"]
    if case.get("empty") is not None and case["empty"] < len(sk["charts"]):
        sk = dict(sk)
        sk["charts"] = [dict(c, notes=[]) if i == case["empty"] else c for i, c in enumerate(sk["charts"])]
    if case.get("pair"):
        sk = _with_pair(sk, case["pair"])
    base = ctx.call("history:build", gen.build, sk)
    if case.get("relabel"):
        # same rows in time order, but row labels permuted the library's own way: a list built out of order
        # (here: back to front), then sorted() - which keeps the labels
        def _relabel(ms):
            for m in ms.maps:
                for name in ("bpms", "hits", "holds", "rolls", "mines"):
                    lst = getattr(m, name)
                    setattr(m, name, type(lst)(lst.df.iloc[::-1].reset_index(drop=True)).sorted())

        ctx.call("history:relabel", _relabel, base)
        ctx.label("row-labels-permuted")
    if case.get("order"):
        # same rows, other row order (a chart is a set of rows; the library itself builds unsorted lists: append)
        def _reorder(ms):
            for m in ms.maps:
                for name in ("bpms", "hits", "holds", "rolls", "mines"):
                    lst = getattr(m, name)
                    n = len(lst)
                    if n < 2:
                        continue
                    how = case["order"]
                    perm = list(range(n - 1, -1, -1)) if how == "reverse" else (list(range(n // 2, n)) + list(range(n // 2)) if how == "rotate" else list(range(0, n, 2)) + list(range(1, n, 2)))
                    setattr(m, name, type(lst)(lst.df.iloc[perm].reset_index(drop=True)))

        ctx.call("history:reorder", _reorder, base)
        ctx.label("rows-out-of-time-order")
    if case["rate"] or case.get("prewrite"):
        _base_domain(ctx, base, "built")
    x = _rated(ctx, base, case["rate"], case.get("prewrite"))
    _core(ctx, x, "built", case["rate"], case["io"], sk=sk)


def check_read(case, ctx):
    sk = case["sk"]
    text0 = gen.render(sk)
    parsed0 = ref.parse(text0)
    bad = gen.self_check(sk, text0, parsed0)
    ctx.harness(bad is None, f"renderer/reference disagree: {bad}")
    ctx.label("source-tempo-mid-measure", any(F(b) % 4 != 0 for b, _ in sk["tempo"]))
    base = ctx.call("history:read", _read, text0)
    if case["rate"] or case.get("prewrite"):
        _base_domain(ctx, base, "read")
    x = _rated(ctx, base, case["rate"], case.get("prewrite"))
    _core(ctx, x, "read", case["rate"], case["io"])


def check_convert(case, ctx):
    conv = case["conv"]
    ctx.label("keys=%d" % conv["keys"])
    base = ctx.call("history:convert", _convert, conv)
    if case["rate"] or case.get("prewrite"):
        _base_domain(ctx, base, conv["game"])
    x = _rated(ctx, base, case["rate"], case.get("prewrite"))
    _core(ctx, x, conv["game"], case["rate"], case["io"])


SUBS = [
    Sub("built", check_built, strategy=built_st, examples={"quick": 200, "thorough": 900}, shards={"quick": 6, "thorough": 16}),
    Sub("read", check_read, strategy=read_st, examples={"quick": 180, "thorough": 500}, shards={"quick": 4, "thorough": 16}),
    Sub("convert", check_convert, strategy=convert_st, examples={"quick": 300, "thorough": 800}, shards={"quick": 3, "thorough": 16}),
]

MANIFEST = dict(
    technique="property-based testing: Hypothesis-generated in-memory StepMania mapsets (built, read, rated, converted) written and interpreted by an independent StepMania reference parser; metamorphic write/read/write stability",
    level_text="Exploration: generated mapsets of four histories (public constructors, read of rendered text, rate change, conversion from osu/Quaver) are written through write() and write_file(); an independent tokenizer/interpreter checks syntactic validity, chart order and headers, per-kind per-column object multisets, exact times (tempo on measure lines, row LCM <= 384) or the 1/96-beat grid in beat space (mid-measure tempo, capped measures), #BPMS beats and values, the time origin, all 19 header fields (also through reamber's reader) and second-generation stability. Sampling cannot prove absence.",
    level_note="trusted: vlib/ref/sm.py, vlib/ref/timing.py, the ~100-line in-memory analysis in vlib/props/C03.py (snapping grid membership, per-measure LCM), Hypothesis; domain restrictions in ASSUMPTIONS",
)
