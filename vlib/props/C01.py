"""C01 osu!mania file and in-memory chart denote the same chart, both directions."""
from __future__ import annotations

import os
import tempfile

from hypothesis import strategies as st
from unidecode import unidecode

from vlib.core import Sub
from vlib.gen import osu as G
from vlib.ref import osu as R

PROPERTY_ID = "C01"
RULE = (
    "read: Hypothesis-generated plain-data charts (key count 1..18; notes built by a forward column walk so holds never "
    "overlap, chords and hit/hold ties on purpose; integer times negative/zero/up to ~1e7; hit type 1|5, hold type 128|132; "
    "x anywhere in the column's range incl. both ends; hitsound bit-fields 0..15, sample sets, volumes, file names; timing "
    "points with float times / beat lengths, effects 0..15; SV lines; Sample events quoted and unquoted; every "
    "[General]/[Editor]/[Metadata]/[Difficulty] key with values containing ':' and non-ASCII) rendered to v14 text with "
    "the dialect's freedoms (key order, optional space after ':', omitted keys, unknown keys, blank lines, CRLF / trailing "
    "blanks, [Colours], storyboard/break lines, timing and object lines in any order, number styles); the independent "
    "parser vlib/ref/osu.py is the oracle and is itself checked against the generator's description in every case. "
    "write: in-memory OsuMaps built through the public constructors (float offsets/lengths incl. negative, fractional, "
    "closer than 1 ms; bpm/SV values non-zero incl. negative; unsorted lists; int or float key count) -> write() -> strict "
    "reference parse -> same chart with every time moved < 1 ms toward zero. cycle: read/write/read inverses from texts and "
    "from in-memory charts, generations 2..5 against generation 1, partly through read_file/write_file on a temp file. "
    "columns: exhaustive x -> column for 18 key counts x 512 x, and column -> x -> column for all (keys, column). "
    "Non-trivial = >=1 hold and >=1 hit, or key count != 4, or a metadata value containing ':'/non-ASCII, or a "
    "negative/fractional time."
)
ASSUMPTIONS = [
    "texts keep the section order of editor-written v14 files and the two [Events] comment headers "
    "'//Background and Video events' (followed by the quoted background event) and '//Storyboard Sound Samples'",
    "Sample events always carry a volume; Countdown is 0/1; Mode is 3; hitsound / sample / background file names contain no "
    "',' ':' '\"' and no surrounding blanks (the format cannot carry them); metadata strings have no surrounding blanks or "
    "line breaks",
    "keys omitted from a text are not compared (the format's defaults and the library's constructor defaults differ and "
    "the property does not say which apply)",
    "AudioLeadIn < 10^6; floats the writer emits with '%g' (Editor and Difficulty sections) are compared at six significant "
    "digits in the write direction, exactly from generation 1 on",
    "in-memory charts: |bpm| in [1e-3,1e6], |SV| in [1e-4,1e4], |time| < ~1e7, hold length > 0, integer-typed fields hold integers",
    "well-formed = strict parse by vlib/ref/osu.py (version line, known sections in canonical order, 8-field timing points, "
    "6-field objects whose type matches their extras, integer fields written as integers, finite numbers) and hit objects in "
    "non-decreasing time order",
    "Title/Artist are written through unidecode (documented ASCII fields); unidecode is trusted",
]

ALL_META = list(R.META_FIELDS)
G6_RULES = {f: "g6" for f in R.G6_FIELDS}


# --------------------------------------------------------------------------- #
# strategies
# --------------------------------------------------------------------------- #
@st.composite
def read_case(draw, tier):
    c = draw(G.text_case_strategy(tier))
    c["via_file"] = draw(st.integers(0, 7)) == 0
    return c


@st.composite
def write_case(draw, tier):
    chart = draw(G.chart_strategy(tier, kind="memory", allow_negative_values=True))
    return dict(chart=chart, via_file=draw(st.integers(0, 5)) == 0)


@st.composite
def cycle_case(draw, tier):
    start = draw(st.sampled_from(["text", "text", "memory"]))
    if start == "text":
        c = draw(G.text_case_strategy(tier, max_notes=12 if tier == "quick" else None))
    else:
        c = dict(chart=draw(G.chart_strategy(tier, kind="memory", allow_negative_values=True, max_notes=12 if tier == "quick" else None)))
    c["start"] = start
    # which generation (0 = none) goes through write_file / read_file
    c["file_gen"] = draw(st.sampled_from([0, 0, 1, 2, 5]))
    return c


def column_cases(tier):
    for keys in range(1, 19):
        for x in range(512):
            yield dict(keys=keys, x=x)
    for keys in range(1, 19):
        for c in range(keys):
            yield dict(keys=keys, column=c)


# --------------------------------------------------------------------------- #
# helpers
# --------------------------------------------------------------------------- #
def _labels(ctx, chart, sx=None):
    for k, v in G.describe(chart).items():
        ctx.label(k, v)
    ctx.label(f"keys={chart['keys']}")
    ctx.nt(G.nontrivial(chart))
    objs = chart["hits"] + chart["holds"]
    if any("x" in o for o in objs):
        edge = False
        for o in objs:
            lo, hi = R.x_range_of_column(o["column"], chart["keys"])
            edge = edge or o["x"] in (lo, hi)
        ctx.label("x-at-range-end", edge)
        ctx.label("x=256@10K", any(o["x"] == 256 for o in objs) and chart["keys"] == 10)
        ctx.label("type-newcombo", any(o["type"] in (5, 132) for o in objs))
    tps = chart["bpms"] + chart["svs"]
    if any("effects" in o for o in tps):
        ctx.label("effects-other-bits-no-kiai", any(o["effects"] >= 2 and not o["effects"] & 1 for o in tps))
        ctx.label("kiai", any(o["effects"] & 1 for o in tps))
        ctx.label("sv-at-bpm-time", any(s["offset"] == b["offset"] for s in chart["svs"] for b in chart["bpms"]))
    else:
        ctx.label("neg-bpm", any(o["bpm"] < 0 for o in chart["bpms"]))
        ctx.label("neg-sv", any(o["multiplier"] < 0 for o in chart["svs"]))
        ctx.label("hold<1ms", any(o["length"] < 1 for o in chart["holds"]))
        ts = [o["offset"] for o in chart["hits"]]
        ctx.label("unsorted-hits", ts != sorted(ts))
        ctx.label("float-preview", isinstance(chart["meta"]["preview_time"], float))
        ctx.label("g6-longer-float", any(float(f"{chart['meta'][f]:g}") != chart["meta"][f] for f in R.G6_FIELDS))
    ctx.label("sample-quoted", any(o.get("quoted") or str(o["sample_file"]).startswith('"') for o in chart["samples"]))
    ctx.label("sample-unquoted", any(not (o.get("quoted") or str(o["sample_file"]).startswith('"')) for o in chart["samples"]))
    if sx is not None:
        ctx.label("omitted-key", bool(sx["omitted"]))
        ctx.label("unknown-key", bool(sx["extra_keys"]))
        ctx.label("crlf", sx["eol"] == 1)
        ctx.label("trailing-blanks", sx["eol"] == 2)
        ctx.label("colours-section", sx["colours"])
        ctx.label("storyboard-lines", bool(sx["event_noise"]))
        ctx.label("objects-shuffled", sx["obj_order"] is not None)
        ctx.label("timing-shuffled", sx["tp_order"] is not None)
        ctx.label("keys-shuffled", any(sx["key_order"][s] != [k for k in G.SECTION_KEYS[s] if k in sx["key_order"][s]] for s in G.SECTION_KEYS))


def _render_checked(ctx, case):
    """text lines + reference chart; the renderer is checked against the generator's own
    description here (a disagreement is a harness error, raised before reamber runs)."""
    chart, sx = case["chart"], case.get("syntax")
    lines = G.render(chart, sx)
    ref = R.parse(lines, strict=True)
    can = G.canonical(chart)
    omitted = {R.META_KEYS[k][1] for k in (sx or {}).get("omitted", [])}
    want_present = [f for f in ALL_META if f not in omitted]
    ctx.harness(sorted(ref["meta_present"]) == sorted(want_present), f"renderer/reference disagree on present keys: {ref['meta_present']}")
    d = R.diff_charts(can, ref, time="exact", rel=0.0, meta_fields=want_present)
    ctx.harness(not d, f"renderer/reference disagree: {d[:3]}")
    return lines, ref


def _read_text(ctx, lines, via_file, what="read"):
    from reamber.osu.OsuMap import OsuMap

    if not via_file:
        return ctx.call(what, OsuMap.read, list(lines))
    with tempfile.TemporaryDirectory(prefix="c01_") as d:
        path = os.path.join(d, "in.osu")
        with open(path, "wb") as fh:
            fh.write("\n".join(lines).encode("utf8"))
        return ctx.call(what + "_file", OsuMap.read_file, path)


def _write_map(ctx, m, via_file, what="write"):
    """-> the text as a list of lines (what write() returns, or the content of the written file)"""
    if not via_file:
        out = ctx.call(what, m.write)
        return list(out)
    with tempfile.TemporaryDirectory(prefix="c01_") as d:
        path = os.path.join(d, "out.osu")
        ctx.call(what + "_file", m.write_file, path)
        with open(path, "rb") as fh:
            data = fh.read()
    try:
        text = data.decode("utf8")
    except UnicodeDecodeError as e:
        ctx.fail("write_file-not-utf8", str(e))
        ctx.stop()
    return text.split("\n")


def _strict(ctx, lines, kind):
    try:
        return R.parse(lines, strict=True)
    except R.OsuFormatError as e:
        ctx.fail(kind, f"{e.problems[:5]}")
        ctx.stop()


def _ascii_meta(chart):
    """what the written file must say: Title / Artist through unidecode (surrounding blanks are
    not content of a value)."""
    c = dict(chart)
    c["meta"] = dict(chart["meta"])
    for f in ("title", "artist"):
        # a value is one line: where the transliteration has a line break (U+2028, U+2029) the file has a blank
        c["meta"][f] = unidecode(chart["meta"][f]).replace("\n", " ").strip()
    return c


def _report(ctx, prefix, diffs, note=""):
    for kind, msg in diffs:
        ctx.fail(f"{prefix}-{kind}", f"{note}{msg}")


# --------------------------------------------------------------------------- #
# (1) read direction
# --------------------------------------------------------------------------- #
def check_read(case, ctx):
    lines, ref = _render_checked(ctx, case)
    _labels(ctx, case["chart"], case["syntax"])
    ctx.label("via-file", case["via_file"])
    m = _read_text(ctx, lines, case["via_file"])
    got = ctx.call("snapshot", G.snapshot, m)
    _report(ctx, "read", R.diff_charts(ref, got, time="exact", rel=1e-9, meta_fields=ref["meta_present"]))


# --------------------------------------------------------------------------- #
# (2) write direction
# --------------------------------------------------------------------------- #
def check_write(case, ctx):
    chart = case["chart"]
    can = G.canonical(chart)
    _labels(ctx, chart)
    ctx.label("via-file", case["via_file"])
    m = ctx.call("build", G.build, chart)
    held = ctx.call("snapshot", G.snapshot, m)
    _report(ctx, "build", R.diff_charts(can, held, time="exact", rel=0.0))
    lines = _write_map(ctx, m, case["via_file"])
    w = _strict(ctx, lines, "write-malformed")
    if not w["syntax"]["objects_sorted"]:
        ctx.fail("write-objects-not-time-sorted", f"{[ln for ln in lines[-12:]]}")
    missing = [f for f in ALL_META if f not in w["meta_present"]]
    if missing:
        ctx.fail("write-key-missing", f"{missing}")
    rules = dict(G6_RULES, preview_time="trunc")
    _report(ctx, "write", R.diff_charts(_ascii_meta(can), w, time="trunc", rel=1e-9, meta_rules=rules))

# --------------------------------------------------------------------------- #
# (3) inverses and drift
# --------------------------------------------------------------------------- #
def check_cycle(case, ctx):
    chart = case["chart"]
    fg = case["file_gen"]
    rules = dict(G6_RULES, preview_time="ms")
    if case["start"] == "text":
        lines, ref = _render_checked(ctx, case)
        _labels(ctx, chart, case["syntax"])
        ctx.label("start=text")
        m0 = _read_text(ctx, lines, False)
        s0 = ctx.call("snapshot", G.snapshot, m0)
        w1 = _write_map(ctx, m0, fg == 1)
        p1 = _strict(ctx, w1, "inv-malformed")
        # writing what was read: the written text denotes the chart of the original text
        _report(ctx, "inv-write(read(t))", R.diff_charts(_ascii_meta(ref), p1, time="ms", rel=1e-9, meta_fields=ref["meta_present"], meta_rules=rules))
        g1 = _read_text(ctx, w1, fg == 1, "read1")
        s1 = ctx.call("snapshot", G.snapshot, g1)
        # read(write(read(t))) == read(t)
        _report(ctx, "inv-read(write(read(t)))", R.diff_charts(_ascii_meta(s0), s1, time="ms", rel=1e-9, meta_rules=rules))
    else:
        _labels(ctx, chart)
        ctx.label("start=memory")
        m0 = ctx.call("build", G.build, chart)
        w1 = _write_map(ctx, m0, fg == 1)
        p1 = _strict(ctx, w1, "inv-malformed")
        g1 = _read_text(ctx, w1, fg == 1, "read1")
        s1 = ctx.call("snapshot", G.snapshot, g1)
        # reading what was written: the library's reading of its own text is what the text denotes,
        # hence (by the write clause) the in-memory chart moved < 1 ms toward zero
        _report(ctx, "inv-read(write(m))-vs-text", R.diff_charts(p1, s1, time="exact", rel=1e-9))
        _report(ctx, "inv-read(write(m))", R.diff_charts(_ascii_meta(G.canonical(chart)), s1, time="trunc", rel=1e-9, meta_rules=dict(G6_RULES, preview_time="trunc")))
    ctx.label("file-gen=%d" % fg)
    prev = g1
    for gen in range(2, 6):
        w = _write_map(ctx, prev, fg == gen, f"write{gen}")
        p = _strict(ctx, w, "drift-malformed")
        g = _read_text(ctx, w, fg == gen, f"read{gen}")
        s = ctx.call("snapshot", G.snapshot, g)
        _report(ctx, "drift", R.diff_charts(s1, s, time="exact", rel=1e-9), f"generation {gen}: ")
        _report(ctx, "drift-text", R.diff_charts(s1, p, time="exact", rel=1e-9), f"generation {gen} text: ")
        prev = g


# --------------------------------------------------------------------------- #
# (4) the finite x <-> column map, exhaustively
# --------------------------------------------------------------------------- #
def check_columns(case, ctx):
    from reamber.osu.OsuHit import OsuHit
    from reamber.osu.OsuHold import OsuHold
    from reamber.osu.OsuNoteMeta import OsuNoteMeta

    keys = case["keys"]
    ctx.nt(keys != 4)
    ctx.label(f"keys={keys}")
    if "x" in case:
        x = case["x"]
        exp = max(0, min(keys - 1, (x * keys) // 512))
        lo, hi = R.x_range_of_column(exp, keys)
        ctx.harness(lo <= x <= hi and R.column_of_x(x, keys) == exp, "reference x range inconsistent")
        ctx.label("x->column")
        got = ctx.call("x_axis_to_column", OsuNoteMeta.x_axis_to_column, x, keys)
        ctx.eq("x-to-column", got, exp, f"keys={keys} x={x}")
        h = ctx.call("OsuHit.read_string", OsuHit.read_string, f"{x},192,1000,1,0,0:0:0:0:", keys)
        ctx.eq("x-to-column-hit-line", int(h.column), exp, f"keys={keys} x={x}")
        if x % 8 == 0:
            h = ctx.call("OsuHold.read_string", OsuHold.read_string, f"{x},192,1000,128,0,1500:0:0:0:0:", keys)
            ctx.eq("x-to-column-hold-line", int(h.column), exp, f"keys={keys} x={x}")
    else:
        c = case["column"]
        ctx.label("column->x->column")
        x = ctx.call("column_to_x_axis", OsuNoteMeta.column_to_x_axis, c, keys)
        if not (isinstance(x, int) and 0 <= x <= 511):
            ctx.fail("column-to-x-range", f"keys={keys} column={c} -> x={x!r}")
            return
        ctx.eq("column-to-x-denotes-column", R.column_of_x(x, keys), c, f"keys={keys} column={c} x={x}")
        back = ctx.call("x_axis_to_column", OsuNoteMeta.x_axis_to_column, x, keys)
        ctx.eq("column-x-column", back, c, f"keys={keys} column={c} x={x}")
        line = ctx.call("OsuHit.write_string", OsuHit(offset=1000.0, column=c).write_string, keys)
        ctx.eq("column-to-x-hit-line", line.split(",")[0], str(x), f"keys={keys} column={c}")


# --------------------------------------------------------------------------- #
# (5) the real .osu files shipped with the repository (read direction; also checks the reference on real syntax)
# --------------------------------------------------------------------------- #
BUNDLED_DIR = os.path.join(os.environ.get("VERIF_REPO", "/repo"), "rsc", "maps", "osu")


def bundled_cases(tier):
    for fn in sorted(os.listdir(BUNDLED_DIR)) if os.path.isdir(BUNDLED_DIR) else []:
        if fn.endswith(".osu"):
            yield dict(file=fn)


def check_bundled(case, ctx):
    from reamber.osu.OsuMap import OsuMap

    path = os.path.join(BUNDLED_DIR, case["file"])
    with open(path, encoding="utf8") as fh:
        text = fh.read().split("\n")
    ref = R.parse(text, strict=False)
    v14 = text[0].strip().endswith("v14")
    ctx.label("bundled-v14", v14)
    ctx.label("bundled-older-version", not v14)
    ctx.nt(bool(ref["holds"]) and bool(ref["hits"]))
    m = ctx.call("read_file", OsuMap.read_file, path)
    got = ctx.call("snapshot", G.snapshot, m)
    # older format versions write sample events with the numeric event type (5,...) - outside the v14 dialect
    lists = ("hits", "holds", "bpms", "svs", "samples") if v14 else ("hits", "holds", "bpms", "svs")
    _report(ctx, "bundled", R.diff_charts(ref, got, time="exact", rel=1e-9, meta_fields=ref["meta_present"], lists=lists))


SUBS = [
    Sub("bundled", check_bundled, enumerate=bundled_cases, shards={"quick": 4, "thorough": 4}),
    Sub("read", check_read, strategy=read_case, examples={"quick": 300, "thorough": 2000}, shards={"quick": 8, "thorough": 16}, fuzz={"thorough": 150}),
    Sub("write", check_write, strategy=write_case, examples={"quick": 250, "thorough": 1500}, shards={"quick": 6, "thorough": 16}),
    Sub("cycle", check_cycle, strategy=cycle_case, examples={"quick": 100, "thorough": 500}, shards={"quick": 10, "thorough": 16}),
    Sub("columns", check_columns, enumerate=column_cases, shards={"quick": 2, "thorough": 2}, exhaustive=True),
]

MANIFEST = dict(
    technique=(
        "property-based testing: Hypothesis-generated plain-data charts rendered to .osu v14 text / built in memory, "
        "compared with an independent reference parser of the format (vlib/ref/osu.py); exhaustive enumeration of the "
        "x<->column map (18 x 512 + all (keys, column))"
    ),
    level_text=(
        "Exploration: per run ~1000 rendered texts (all key counts, every metadata key, ':'/non-ASCII values, shuffled "
        "lines, x at both ends of every column range) agree field-by-field with the reference reading; ~600 in-memory "
        "charts with fractional/negative times are written to text that the strict reference parser accepts and that "
        "denotes the same chart with every time truncated toward zero by < 1 ms; ~540 five-generation write/read chains "
        "show no drift. The x<->column map is checked exhaustively. Sampling cannot prove absence for the text/chart "
        "spaces; the class counters in the evidence show each generator branch is exercised. In the thorough tier an atheris/libFuzzer campaign drives the same strategy (coverage.fuzz in the evidence); the 30 real .osu files shipped with the repository are read and compared with the reference in both tiers."
    ),
    level_note=(
        "trusted: vlib/ref/osu.py (format rules from the osu! wiki), unidecode, Hypothesis; domain limits listed under "
        "assumptions (editor-style section order and [Events] headers, file names without ',' ':' quotes, AudioLeadIn < 1e6, "
        "'%g' floats at six digits)"
    ),
)
