"""C10 Timing engine: beat positions and millisecond offsets convert consistently."""
from __future__ import annotations

from fractions import Fraction as F

from hypothesis import strategies as st

from vlib.core import Sub, close, fr, frs
from vlib.ref.timing import MeasureTimeline

PROPERTY_ID = "C10"
RULE = (
    "Hypothesis-generated tempo-change lists (1..8 changes; bpm from nice values, integers and floats in [1,1e4]; "
    "initial offset in +-1e7 incl. negatives) in two shapes: constant metronome 1..8 with every change a snap-grid "
    "distance after the previous one, and varying metronomes 1..8 with changes on measure lines; query multisets of "
    "on-grid positions and off-grid milliseconds, shuffled, with duplicates; snaps()/beats() get the default Snapper in 3 of "
    "7 cases and otherwise one built from other divisions (up to 4, 16, 20 or 128; queries and changes then on that grid "
    "too): on-grid times come back exactly, off-grid ones on a fraction no finer than the largest division and as near "
    "as the nearest listed fraction (the 1/192-beat clauses are asserted for the default and the finer list). Oracle: exact Fraction beat arithmetic "
    "+ piecewise-linear integration (vlib/ref/timing.py). Snapper: allowed set learned as the fixed points over all "
    "fractions with denominator <= max(divisions) (exhaustive), then nearest/idempotent on generated x. "
    "Non-trivial = >=2 tempo changes with queries in >=2 segments, or a shuffled query list with duplicates; "
    "for the Snapper sub-check, x not itself an allowed fraction."
)
ASSUMPTIONS = [
    "tempo changes lie on the snap grid relative to the previous change (the engine re-derives positions from ms)",
    "metronome changes only on measure lines (no reader produces anything else)",
    "float comparisons: |a-b| <= 1e-6*max(1,|a|) ms",
]

GRID_DENS = [1, 2, 3, 4, 5, 6, 7, 8, 9, 12, 16, 24, 32, 48, 64, 96]

bpm_st = st.one_of(
    st.sampled_from([60.0, 120.0, 150.0, 175.0, 200.0]),
    st.integers(20, 500).map(float),
    st.floats(1.0, 1e4, allow_nan=False, allow_infinity=False),
)
init_st = st.one_of(
    st.sampled_from([0.0, -1234.5, 500.0]),
    st.floats(-1e7, 1e7, allow_nan=False, allow_infinity=False),
)


#: division lists handed to snaps() / beats() instead of the default one (observe_at: TimingMap.snaps(offsets, snapper)):
#: coarser than, finer than and unrelated to the 96ths of the map's own snapper
TM_DIVS = [(1, 2, 4), (1, 2, 3, 4, 6, 8, 12, 16), (1, 2, 3, 4, 6, 8, 12, 16, 24, 32, 48, 64, 96, 128), (1, 5, 10, 20)]


@st.composite
def grid_frac(draw, max_beats: F, dens=None):
    """A snap-grid fraction in [0, max_beats) (max_beats > 0) or None if impossible."""
    den = draw(st.sampled_from(dens or GRID_DENS))
    hi = int((max_beats * den - F(1, 10**9)) // 1) if max_beats is not None else 6 * den
    if max_beats is not None and max_beats * den == int(max_beats * den):
        hi = int(max_beats * den) - 1
    if hi < 0:
        return F(0)
    return F(draw(st.integers(0, hi)), den)


@st.composite
def tempo_case(draw, tier):
    big = tier == "thorough"
    shape = draw(st.sampled_from(["const", "measure"]))
    k = draw(st.integers(1, 8 if big else 5))
    init = draw(init_st)
    # the snapper handed to snaps()/beats(); tempo changes are placed by the map's own (default) snapper, so with a
    # custom one they sit on both grids: a query on a change may be counted from the change before it (float noise)
    snapper = draw(st.sampled_from([None, None, None, 0, 1, 2, 3]))
    qdens = None if snapper is None else list(TM_DIVS[snapper])
    gdens = GRID_DENS if snapper is None else [d for d in qdens if d <= 96]
    changes = []  # bpm, met, measure, beat
    gaps = []  # beats (in that change's metronome) until the next change
    measure, beat = 0, F(0)
    met = draw(st.integers(1, 8))
    for i in range(k):
        bpm = draw(bpm_st)
        changes.append([bpm, met, measure, frs(beat)])
        if i == k - 1:
            break
        if shape == "const":
            den = draw(st.sampled_from(gdens))
            adv = F(draw(st.integers(1, 5 * den)), den)
            gaps.append(adv)
            tot = beat + adv
            measure += int(tot // met)
            beat = tot % met
        else:
            nm = draw(st.integers(1, 4))
            gaps.append(F(nm * met))
            measure += nm
            beat = F(0)
            met = draw(st.integers(1, 8))
    gaps.append(None)
    nq = draw(st.integers(1, 30 if big else 12))
    queries = []
    for _ in range(nq):
        i = draw(st.integers(0, k - 1))
        d = draw(grid_frac(gaps[i], qdens))
        queries.append([i, frs(d)])
    ndup = draw(st.integers(0, 3))
    for j in range(min(ndup, len(queries))):
        queries.append(list(queries[j]))
    queries = draw(st.permutations(queries))
    off = draw(
        st.lists(
            st.tuples(st.integers(0, k - 1), st.floats(0, 1, exclude_max=True, allow_nan=False)).map(list),
            min_size=0,
            max_size=8,
        )
    )
    return dict(shape=shape, init=init, changes=changes, queries=list(queries), offgrid=off, snapper=snapper)


def _mk(case):
    from reamber.algorithms.timing.TimingMap import TimingMap
    from reamber.algorithms.timing.utils.BpmChangeSnap import BpmChangeSnap
    from reamber.algorithms.timing.utils.snap import Snap

    ch = [(float(b), int(m), int(me), fr(be)) for b, m, me, be in case["changes"]]
    lst = [BpmChangeSnap(b, m, Snap(me, be, m)) for b, m, me, be in ch]
    return ch, lst, TimingMap, Snap


def _positions(ch, queries):
    out = []
    for i, d in queries:
        b, m, me, be = ch[i]
        tot = be + fr(d)
        out.append((me + int(tot // m), tot % m, m))
    return out


def check_timing(case, ctx):
    from reamber.algorithms.timing.utils.Snapper import Snapper

    ch, lst, TimingMap, Snap = _mk(case)
    ref = MeasureTimeline(case["init"], ch)
    pos = _positions(ch, case["queries"])
    k = len(ch)
    segs = {i for i, _ in case["queries"]}
    dup = len({tuple(q) for q in case["queries"]}) < len(case["queries"])
    shuffled = pos != sorted(pos)
    ctx.nt((k >= 2 and len(segs) >= 2) or (dup and shuffled))
    ctx.label("shape=" + case["shape"])
    ctx.label("k>=2", k >= 2)
    ctx.label("dup", dup)
    ctx.label("shuffled", shuffled)
    ctx.label("neg-init", case["init"] < 0)

    tm = ctx.call("from_bpm_changes_snap", TimingMap.from_bpm_changes_snap, case["init"], lst, False)
    # tempo changes themselves
    got_t = [b.offset for b in tm.bpm_changes_offset]
    for i, (g, e) in enumerate(zip(got_t, ref.times)):
        ctx.near("change-offset", g, e, msg=f"change {i}")
    ctx.eq("change-count", len(got_t), k)

    # offsets(): integral, in the order of the queries
    exp = [ref.ms(me, be) for me, be, m in pos]
    got = ctx.call("offsets", tm.offsets, [Snap(me, be, m) for me, be, m in pos])
    if ctx.eq("offsets-len", len(got), len(exp)):
        for g, e, p in zip(got, exp, pos):
            ctx.near("offsets", g, e, msg=f"q={p}")

    # snaps(): on-grid ms -> the generated position
    divs = None if case.get("snapper") is None else TM_DIVS[case["snapper"]]
    snapper = Snapper() if divs is None else ctx.call("Snapper", Snapper, divisions=divs)
    ctx.label("snapper=" + ("default" if divs is None else "max-division-%d" % max(divs)))
    back = ctx.call("snaps", tm.snaps, exp, snapper)
    if ctx.eq("snaps-len", len(back), len(pos)):
        for s, p in zip(back, pos):
            if (s.measure, s.beat) != (p[0], p[1]):
                ctx.fail("snaps", f"q={p} got=({s.measure},{s.beat})")
        # and back again
        again = ctx.call("offsets2", tm.offsets, list(back))
        for g, e in zip(again, exp):
            ctx.near("roundtrip-grid", g, e)

    # off-grid ms -> snaps -> ms within 1/192 beat of the local tempo
    offs = []
    for i, u in case["offgrid"]:
        dur = (ref.times[i + 1] - ref.times[i]) if i + 1 < k else 6 * 60000.0 / ch[i][0]
        offs.append((i, ref.times[i] + u * dur))
    if offs:
        ctx.label("offgrid")
        sn = ctx.call("snaps-offgrid", tm.snaps, [t for _, t in offs], snapper)
        rt = ctx.call("offsets-offgrid", tm.offsets, list(sn))
        for (i, t), r, s in zip(offs, rt, sn):
            tol = 60000.0 / ch[i][0] / 192 * (1 + 1e-9) + 1e-6 * max(1.0, abs(t))
            if (divs is None or max(divs) >= 96) and not abs(r - t) <= tol:
                ctx.fail("roundtrip-offgrid", f"t={t} back={r} tol={tol} seg={i}")
            if divs is not None:
                # the grid in use is the one of the snapper handed over: the position, counted from the active tempo
                # change, is a fraction no finer than its largest division and at least as near as the nearest n/d, d listed
                b, m, me, be = ch[i]
                rel = (s.measure - me) * m + F(s.beat) - be
                d_exact = (t - ref.times[i]) * b / 60000.0
                if (rel % 1).denominator > max(divs):
                    ctx.fail("offgrid-not-on-given-grid", f"t={t} seg={i}: {rel} beats after the change, divisions {divs}")
                best = min(abs(F(n, d) - F(d_exact % 1)) for d in divs for n in range(d + 1))
                if abs(float(rel) - d_exact) > float(best) + 1e-6 * max(1.0, abs(d_exact)) + 1e-6 * abs(t) * b / 60000.0:
                    ctx.fail("offgrid-not-nearest", f"t={t} seg={i}: {rel} beats after the change, exact {d_exact}, nearest listed fraction is {float(best)} away")

    # beats(): cumulative beat distance (constant metronome only)
    if case["shape"] == "const":
        bt = ctx.call("beats", tm.beats, exp, snapper)
        cb = [F(me) * m + be for me, be, m in pos]
        if ctx.eq("beats-len", len(bt), len(cb)):
            for i in range(len(cb)):
                if bt[i] - bt[0] != cb[i] - cb[0]:
                    ctx.fail("beats", f"pos={pos[i]} vs {pos[0]} got={bt[i] - bt[0]} exp={cb[i] - cb[0]}")
        if offs:
            ts = sorted(t for _, t in offs)
            bo = ctx.call("beats-offgrid", tm.beats, ts, snapper)
            if any(b < a for a, b in zip(bo, bo[1:])):
                ctx.fail("beats-monotone", f"{ts} -> {list(bo)}")
            # each off-grid beat within 1/192 of exact distance from the first on-grid query
            both = ctx.call("beats-mixed", tm.beats, [exp[0]] + ts, snapper)
            base_i = case["queries"][0][0]
            for t, b in zip(ts, both[1:]):
                # exact beat distance between t and exp[0], integrating over segments
                d = _beat_distance(ref, ch, exp[0], t)
                if (divs is None or max(divs) >= 96) and abs(float(b - both[0]) - d) > 1 / 192 + 1e-6:
                    ctx.fail("beats-offgrid", f"t={t} got={float(b - both[0])} exp~{d}")

    # BpmList.to_timing_map gives the same answers as the map built from snaps
    from reamber.base.lists.BpmList import BpmList
    from reamber.base.Bpm import Bpm

    order = list(range(k))[::-1]  # unsorted construction on purpose
    bl = BpmList([Bpm(offset=ref.times[i], bpm=ch[i][0], metronome=ch[i][1]) for i in order])
    tm2 = ctx.call("to_timing_map", bl.to_timing_map)
    g2 = ctx.call("tm2.offsets", tm2.offsets, [Snap(me, be, m) for me, be, m in pos])
    for g, e, p in zip(g2, exp, pos):
        ctx.near("bpmlist-offsets", g, e, msg=f"q={p}")
    s2 = ctx.call("tm2.snaps", tm2.snaps, exp, snapper)
    for s, p in zip(s2, pos):
        if (s.measure, s.beat) != (p[0], p[1]):
            ctx.fail("bpmlist-snaps", f"q={p} got=({s.measure},{s.beat})")


def _beat_distance(ref, ch, t0, t1):
    """Exact-ish beat distance between two times (float), integrating bpm over segments."""

    def cum(t):
        acc = 0.0
        for i in range(len(ch)):
            a = ref.times[i]
            b = ref.times[i + 1] if i + 1 < len(ch) else float("inf")
            if t <= a:
                break
            acc += (min(t, b) - a) * ch[i][0] / 60000.0
        return acc

    return cum(t1) - cum(t0)


# ---------------------------------------------------------------------------
# Snapper black box
# ---------------------------------------------------------------------------
DIVS = [
    None,
    (1, 2, 3, 4, 5, 6, 7, 8, 9, 12, 16, 32, 64, 96),
    (1, 2, 4),
    (1, 2, 3, 4, 6, 8, 12, 16),
    (1, 3, 5, 7),
    (1, 2, 4, 8, 16, 32),
    (48,),
    (1,),
    # the same kind of lists, not in ascending order (nothing says the divisions come sorted)
    (16, 12, 8),
    (4, 2, 1),
    (3, 96, 7),
]
_allowed_cache = {}


def _allowed(ctx, div_ix):
    """Fixed points of snap over all n/d, d <= max(divisions) – exhaustive."""
    from reamber.algorithms.timing.utils.Snapper import Snapper

    if div_ix in _allowed_cache:
        return _allowed_cache[div_ix]
    divs = DIVS[div_ix]
    sn = Snapper() if divs is None else Snapper(divisions=divs)
    mx = 96 if divs is None else max(divs)
    cand = sorted({F(n, d) for d in range(1, mx + 1) for n in range(0, d + 1)})
    S = [c for c in cand if sn.snap(float(c)) == c]
    _allowed_cache[div_ix] = (sn, S, mx)
    return _allowed_cache[div_ix]


@st.composite
def snapper_case(draw, tier):
    div_ix = draw(st.integers(0, len(DIVS) - 1))
    mode = draw(st.sampled_from(["uniform", "near", "neg"]))
    if mode == "uniform":
        xs = draw(st.lists(st.floats(0, 16, allow_nan=False), min_size=1, max_size=20))
        return dict(div=div_ix, xs=xs)
    divs = DIVS[div_ix] or DIVS[1]
    mx = max(divs)
    pts = []
    for _ in range(draw(st.integers(1, 20))):
        d = draw(st.integers(1, mx))
        n = draw(st.integers(0, d))
        q = draw(st.integers(-3 if mode == "neg" else 0, 5))
        eps = draw(st.sampled_from([0.0, 1e-12, -1e-12, 1e-9, -1e-9, 1e-6, -1e-6, 1e-4, -1e-4, 0.5 / mx, -0.5 / mx, 0.49 / mx]))
        x = q + n / d + eps
        if mode != "neg" and x < 0:
            x = 0.0
        pts.append(x)
    return dict(div=div_ix, xs=pts)


def check_snapper(case, ctx):
    import bisect

    sn, S, mx = ctx.call("allowed-set", _allowed, ctx, case["div"])
    divs = DIVS[case["div"]] or DIVS[1]
    Sset = set(S)
    for d in divs:
        for n in range(0, d + 1):
            if F(n, d) not in Sset:
                ctx.fail("allowed-missing", f"{n}/{d} is not a fixed point for divisions {divs}")
                return
    Sf = [float(s) for s in S]
    ctx.label("div=%s" % (case["div"],))
    for x in case["xs"]:
        r = ctx.call("snap", sn.snap, x)
        fl = x // 1
        rem = x - fl
        frac = r - F(int(fl))
        if frac not in Sset:
            # x%1 may round up to 1.0 for tiny negative x: accept r relative to floor+0/1 as well
            if not (r - F(int(fl)) == 1 or (r - F(int(fl)) + 1) in Sset and rem > 0.999999):
                ctx.fail("snap-not-allowed", f"x={x!r} -> {r} (fraction {frac}) not in allowed set")
                continue
        # nearest
        best = min(abs(s - rem) for s in Sf)
        if abs(float(r) - x) > best + 1e-9:
            ctx.fail("snap-not-nearest", f"x={x!r} -> {r}, distance {abs(float(r) - x)} > best {best}")
        r2 = ctx.call("snap2", sn.snap, float(r))
        if r2 != r:
            ctx.fail("snap-not-idempotent", f"x={x!r} -> {r} -> {r2}")
        i = bisect.bisect_left(Sf, rem)
        ctx.nt(not (i < len(Sf) and Sf[i] == rem))
    ctx.label("neg", any(x < 0 for x in case["xs"]))


SUBS = [
    Sub("timing", check_timing, strategy=tempo_case, examples={"quick": 1200, "thorough": 6000}, shards={"quick": 12, "thorough": 16}),
    Sub("snapper", check_snapper, strategy=snapper_case, examples={"quick": 1500, "thorough": 6000}, shards={"quick": 8, "thorough": 16}),
]

MANIFEST = dict(
    technique="property-based testing: Hypothesis-generated tempo lists/queries vs exact Fraction integration; exhaustive fixed-point scan + generated nearest/idempotence for Snapper",
    level_text="Exploration: thousands of generated tempo lists (both shapes) and query multisets per run agree with an independent exact integrator; Snapper's allowed set is enumerated exhaustively for 8 division sets and nearest/idempotent is checked on generated points around every grid value. Sampling cannot prove absence, but the input space is low-dimensional and the generator covers each branch of the sweep (labels in evidence).",
    level_note="trusted: vlib/ref/timing.py (40 lines of Fraction arithmetic), Hypothesis; domain: changes on the snap grid relative to the previous change, metronome changes on measure lines",
)
