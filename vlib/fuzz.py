"""Coverage-guided engine (thorough tier, reader properties): atheris/libFuzzer drives the *same* Hypothesis
strategy of a Sub through ``fuzz_one_input``; the oracle (Sub.check) runs inside the target.

    python -m vlib.fuzz <Cxx> <sub> <tier> <seed> <budget_s> <out.json> <corpus_dir> [corpus_mode]

libFuzzer ends the process with _exit (no atexit), so the statistics file is rewritten after every new bucket and
every 200 executions.  Failures are *recorded* (bucketed like phase A of vlib.core) and never raised, so one shallow
defect does not end the campaign.  corpus_mode: "empty" | "seeded" (a few byte strings that Hypothesis turned into
valid cases during a short warm-up are written to the fresh corpus directory first).
The parent (vlib.core.run_fuzz) merges the JSON into the run's statistics; a budget expiry is never a violation.
"""
from __future__ import annotations

import json
import os
import sys
import time


def _patch_bytestring_provider():
    """Hypothesis 6.168's BytestringProvider.draw_integer compares the raw bits with [min, max] without adding min, so
    every bounded integer whose lower bound exceeds the bit range (st.permutations, integers(1000, 1010), ...) loops until
    the buffer is exhausted and the input is rejected.  The campaign uses this corrected draw (harness-side only)."""
    from hypothesis.internal.conjecture import providers as P

    def draw_integer(self, min_value=None, max_value=None, *, weights=None, shrink_towards=0):
        if min_value is None and max_value is None:
            min_value, max_value = -(2**127), 2**127 - 1
        elif min_value is None:
            min_value = max_value - 2**64
        elif max_value is None:
            max_value = min_value + 2**64
        if min_value == max_value:
            return min_value
        span = max_value - min_value
        bits = span.bit_length()
        value = self._draw_bits(bits)
        while value > span:
            value = self._draw_bits(bits)
        return min_value + value

    P.BytestringProvider.draw_integer = draw_integer


def main(argv):
    prop, sub_name, tier, seed, budget, out_path = argv[1], argv[2], argv[3], int(argv[4]), float(argv[5]), argv[6]
    corpus = argv[7]  # fresh directory made (and removed) by the parent
    corpus_mode = argv[8] if len(argv) > 8 else "empty"
    import atheris

    with atheris.instrument_imports(include=["reamber"]):
        import reamber  # noqa: F401
        import importlib

        mod = importlib.import_module(f"vlib.props.{prop}")
    import logging
    import warnings

    warnings.filterwarnings("ignore")
    logging.disable(logging.CRITICAL)
    from hypothesis import HealthCheck, Phase, given, settings

    _patch_bytestring_provider()

    from vlib import core

    sub = next(s for s in mod.SUBS if s.name == sub_name)
    known = core.load_known(mod.PROPERTY_ID)
    preds = getattr(mod, "KNOWN_PREDICATES", {})
    stats = core.Stats()
    state = dict(execs=0, valid=0, t0=time.time(), last_dump=0, harness=None)

    def dump():
        rec = dict(
            evaluations=stats.evaluations,
            hashes=sorted(stats.hashes),
            hashes_nt=sorted(stats.hashes_nt),
            labels=stats.labels,
            excluded=stats.excluded,
            known_hits=stats.known_hits,
            buckets=stats.buckets,
            samples=stats.samples[:6],
            execs=state["execs"],
            wall=time.time() - state["t0"],
            harness=state["harness"],
            corpus_mode=corpus_mode,
        )
        tmp = out_path + ".tmp"
        with open(tmp, "w") as fh:
            json.dump(rec, fh, default=str)
        os.replace(tmp, out_path)

    @settings(database=None, deadline=None, phases=[Phase.generate], suppress_health_check=list(HealthCheck), max_examples=10**9)
    @given(sub.strategy(tier))
    def prop_test(case):
        state["valid"] += 1
        nb = len(stats.buckets)
        try:
            ctx = core.run_case(sub, case, tier)
        except core.HarnessError as e:
            state["harness"] = str(e)[:2000]
            dump()
            os._exit(0)
        core._record(stats, sub, case, ctx, known, preds, seed, sub.name + "[fuzz]")
        if len(stats.buckets) != nb or stats.evaluations - state["last_dump"] >= 200:
            state["last_dump"] = stats.evaluations
            dump()

    fuzz_one = prop_test.hypothesis.fuzz_one_input

    def target(data: bytes):
        state["execs"] += 1
        if time.time() - state["t0"] > budget:
            dump()
            os._exit(0)
        fuzz_one(data)

    try:
        if corpus_mode == "seeded":
            # a few pseudo-random byte strings long enough to decode into complete cases (hash chain: no RNG, no clock)
            import hashlib

            for i, n in enumerate((2048, 4096, 8192, 16384)):
                with open(os.path.join(corpus, f"seed{i}"), "wb") as fh:
                    fh.write(b"".join(hashlib.sha256(b"%d-%d-%d" % (seed, i, j)).digest() for j in range(n // 32)))
        dump()
        args = [sys.argv[0], f"-seed={seed % (2**31 - 1) or 1}", f"-max_total_time={int(budget) + 5}", "-max_len=16384", "-len_control=0", "-verbosity=0", "-print_final_stats=0", corpus]
        atheris.Setup(args, target)
        atheris.Fuzz()
    finally:
        dump()


if __name__ == "__main__":
    main(sys.argv)
